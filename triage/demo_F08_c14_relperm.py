"""F8 (C14): rel perms finite, within [0,k_max], zero at/below residual."""
import numpy as np
from _common import verdict
from bluebonnet.flow import RelPermParams, relative_permeabilities
prm = RelPermParams(n_o=1.5, n_w=2.0, n_g=2.5, S_or=0.2, S_wc=0.1, S_gc=0.05, k_ro_max=0.9, k_rw_max=0.5, k_rg_max=0.8)
s = np.array([(0.1, 0.8, 0.1), (0.5, 0.3, 0.2)], dtype=[("So", "f8"), ("Sg", "f8"), ("Sw", "f8")])
k = relative_permeabilities(s, prm); print(k)
ok = all(np.all(np.isfinite(k[n])) and np.all(k[n] >= 0) and np.all(k[n] <= m) for n, m in (("kro", .9), ("krw", .5), ("krg", .8)))
verdict(ok and k["kro"][0] == 0)
