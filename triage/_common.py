import warnings, os
import pandas as pd
warnings.simplefilter("ignore")
DATA = os.environ.get("BB_DATA", "/repo/tests/data")
REN = {"P": "pressure", "Z-Factor": "z-factor", "Cg": "compressibility", "Viscosity": "viscosity", "Density": "density"}
def gas_table():
    return pd.read_csv(f"{DATA}/pvt_gas.csv").rename(columns=REN)
def verdict(ok):
    import sys
    print("HOLDS" if ok else "VIOLATED"); sys.exit(0 if ok else 1)
