"""F7 (C11): integer pressure arrays must give the float results."""
import numpy as np
from _common import verdict
from bluebonnet.fluids.oil import b_o_Standing, solution_gor_Standing
p = np.arange(500, 5000, 500)
bi, bf = b_o_Standing(200, p, 35, 0.8, 650), b_o_Standing(200, p.astype(float), 35, 0.8, 650)
gi, gf = solution_gor_Standing(200, p, 35, 0.8, 650), solution_gor_Standing(200, p.astype(float), 35, 0.8, 650)
print(bi, bf, gi, gf, sep="\n")
verdict(np.allclose(bi, bf) and np.allclose(gi, gf) and bi.dtype.kind == "f" and gi.dtype.kind == "f")
