"""F2 (C04): residual of each stored level relative to the step's right-hand side must be at rounding level."""
import numpy as np
from _common import verdict
from bluebonnet.flow import IdealReservoir
from bluebonnet.flow.reservoir import _build_matrix
worst = 0.0
for nx in (30, 200, 400):
    r = IdealReservoir(nx, 1000.0, 9000.0)
    t = np.linspace(0, 1, 60) ** 2
    r.simulate(t)
    dx2 = (1 / (nx - 1)) ** 2
    for i in range(len(t) - 1):
        b = r.pseudopressure[i]
        A = _build_matrix((t[i + 1] - t[i]) / dx2 * np.ones(nx))
        worst = max(worst, np.linalg.norm(A @ r.pseudopressure[i + 1] - b) / np.linalg.norm(b))
print(f"worst relative residual {worst:.3e}")
verdict(worst < 1e-9)
