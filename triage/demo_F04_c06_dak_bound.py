"""F4 (C06): returned Z must be the EOS root, never a search bound."""
import math, numpy as np
from _common import verdict
from bluebonnet.fluids.gas import z_factor_DAK
Tpc, ppc = -100.0, 650.0
def resid(Tr, pr, Z):
    A = [0.3265, -1.07, -0.5339, 0.01569, -0.05165, 0.5475, -0.7361, 0.1844, 0.1056, 0.6134, 0.721]
    rho = 0.27 * pr / (Z * Tr)
    C0 = A[0] * A[1] / Tr + A[2] / Tr**3 + A[3] / Tr**4 + A[4] / Tr**5  # the library's own coefficient
    C1 = A[5] + A[6] / Tr + A[7] / Tr**2; C2 = -A[8] * (A[6] / Tr + A[7] / Tr**2)
    B = math.exp(-A[10] * rho**2)
    return Z - (1 + C0 * rho + C1 * rho**2 + C2 * rho**5 + A[9] / Tr**3 * rho**2 * B * (1 + A[10] * rho**2))
bad = 0; n = 0; worst = None
for Tr in np.linspace(1.05, 3, 40):
    for pr in np.linspace(0.5, 30, 60):
        T = Tr * (Tpc + 459.67) - 459.67; p = pr * ppc
        Z = z_factor_DAK(T, p, Tpc, ppc); n += 1
        if abs(resid(Tr, pr, Z)) > 1e-3:
            bad += 1; worst = worst or (Tr, pr, Z)
print(f"{bad} of {n} grid points are off the library's own EOS by > 1e-3; first: {worst}")
verdict(bad == 0)
