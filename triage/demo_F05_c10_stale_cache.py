"""F5/F6 (C10): results reflect the most recent simulation."""
import numpy as np
from _common import gas_table, verdict
from bluebonnet.flow import IdealReservoir, FlowProperties, SinglePhaseReservoir
t1 = np.linspace(0, 1, 50); t2 = np.linspace(0, 0.3, 50)
a = IdealReservoir(30, 1000.0, 9000.0); a.simulate(t1); a.recovery_factor(); a.simulate(t2)
b = IdealReservoir(30, 1000.0, 9000.0); b.simulate(t2)
va, vb = float(a.recovery_factor_interpolator()(0.2)), float(b.recovery_factor_interpolator()(0.2))
print("F5 interpolator after re-simulate:", va, "fresh:", vb)
fp = FlowProperties(gas_table(), 8000.0)
sched = np.linspace(7000, 3000, 50)
c = SinglePhaseReservoir(30, 1000.0, 8000.0, fp); c.simulate(t1, sched); c.simulate(t1)
d = SinglePhaseReservoir(30, 1000.0, 8000.0, fp); d.simulate(t1)
gap = float(np.max(np.abs(c.pseudopressure - d.pseudopressure)))
print("F6 max |pp(after schedule run) - pp(fresh)| =", gap)
verdict(abs(va - vb) < 1e-12 and gap == 0.0)
