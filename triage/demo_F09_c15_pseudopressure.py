"""F9 (C15): multiphase pseudopressure is monotone, zero-based integral of positive mobility."""
import numpy as np
from scipy.interpolate import interp1d
from _common import verdict
from bluebonnet.flow.flowproperties import pseudopressure_threephase
p = np.linspace(100, 5000, 50)
one = lambda v: (lambda x: np.full_like(np.asarray(x, float), v))
pvt = {k: one(1.0) for k in ("Bo", "Bg", "Bw", "mu_o", "mu_g", "mu_w")}
pvt.update(Rs=one(0.5), Rv=one(0.0), rho_o0=50.0, rho_g0=0.05, rho_w0=62.0)
kr = {k: one(0.5) for k in ("kro", "krg", "krw")}
m = pseudopressure_threephase(p, np.full_like(p, 0.6), pvt, kr)
lam = 50 * 0.5 + 0.05 * (0.5 * 0.5 + 0.5) + 62 * 0.5
print("m[:4]", m[:4], "expected slope*dp", lam * (p[1] - p[0]))
verdict(m[0] == 0 and np.all(np.diff(m) > 0) and np.allclose(m, lam * (p - p[0])))
