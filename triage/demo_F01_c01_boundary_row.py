"""F1 (C01): single-phase profile must relax to the frac-face value and stay in [m_f, m_i]."""
import numpy as np
from _common import gas_table, verdict
from bluebonnet.flow import FlowProperties, SinglePhaseReservoir
p_i, p_f = 8000.0, 7000.0
fp = FlowProperties(gas_table(), p_i)
res = SinglePhaseReservoir(30, p_f, p_i, fp)
res.simulate(np.linspace(0, 40, 400) ** 2 / 40)
m_f, m_i = float(fp.m_scaled_func(p_f)), float(fp.m_i)
last = res.pseudopressure[-1]
print(f"m_f={m_f:.5f} m_i={m_i:.5f} final profile min={last.min():.5f} max={last.max():.5f}")
verdict(last.min() >= m_f - 1e-6 and abs(last[-1] - m_f) < 1e-3)
