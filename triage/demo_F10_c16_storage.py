"""F10 (C16): total compressibility vanishes for pressure-independent tables."""
import numpy as np
from _common import verdict
from bluebonnet.flow.flowproperties import compressibility_combined_func
one = lambda v: (lambda x: np.full_like(np.asarray(x, float), v))
pvt = {k: one(1.2) for k in ("Bo", "Bg", "Bw")}
pvt.update(Rs=one(0.5), Rv=one(0.01), rho_o0=50.0, rho_g0=0.05, rho_w0=62.0)
c = compressibility_combined_func(np.array([1000.0, 2000.0]), np.array([0.6, 0.5]), 0.1, 0.1, pvt)
print(c); verdict(np.allclose(c, 0))
