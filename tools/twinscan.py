#!/venv/bin/python
"""Run every filed twin (optionally filtered by substring) against the checks of its properties; print the alarms."""
import concurrent.futures as cf, glob, json, os, sys
sys.path.insert(0, "/verif")
from selftest import runner

pat = sys.argv[1] if len(sys.argv) > 1 else ""
jobs = []
for d in sorted(glob.glob("/verif/selftest/twins/*")):
    if pat not in os.path.basename(d):
        continue
    meta = json.load(open(d + "/meta.json"))
    for prop in meta["properties"]:
        jobs.append((prop, {"id": "twin:" + os.path.basename(d), "kind": "twin", "edits": None, "patch": d + "/patch.diff"}))
with cf.ThreadPoolExecutor(16) as ex:
    res = list(ex.map(lambda j: (j[0],) + tuple(runner._run_variant(j[0], j[1], "/repo")), jobs))
bad = [r for r in res if r[3] != "ok"]
for prop, vid, kind, status, detail, rules in bad:
    print(f"== {vid} {prop}: {status}")
    print("   " + detail.strip().replace("\n", "\n   ")[-700:])
print(f"{len(res) - len(bad)}/{len(res)} silent")
