#!/bin/bash
# usage: seedcheck.sh <patch.diff> PROP [PROP...]   - apply the patch to a scratch copy of /repo/src and run checks there
patch="$1"; shift
d=$(mktemp -d /tmp/bbseed_XXXX)
mkdir -p $d && cp -r /repo/src $d/src && (cd $d && git init -q . 2>/dev/null; git apply --unsafe-paths --directory=$d "$patch" 2>/dev/null || patch -s -p1 -d $d < "$patch") || { echo "patch failed"; rm -rf $d; exit 3; }
for p in "$@"; do
  (cd /verif && BB_REPO=$d BB_OUT_DIR=$d /venv/bin/python -m bbstatic check $p | grep -E "VIOLATION|^  rule|ANALYSIS|obligations"); echo "[$p exit ${PIPESTATUS[0]}]"
done
rm -rf $d
