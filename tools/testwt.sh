#!/bin/bash
# Run the pinned pytest suite against a scratch worktree (development aid, not part of any check).
# usage: testwt.sh <worktree-dir> [extra pytest args]
wt="$1"; shift
cd "$wt" && PYTHONPATH="$wt/src" /venv/bin/python -m pytest -q -p no:cacheprovider -n 12 --timeout=900 --no-cov "$@" 2>&1 | grep -E "^(FAILED|ERROR)|passed|failed" | grep -v -E "test_plots.py|test_fit_plot" 
