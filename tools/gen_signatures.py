#!/venv/bin/python
"""Freeze the signatures of the pinned tree: {qualified function name: [parameter names]} -> bbstatic/signatures.json.

The properties were written against these signatures.  When a later tree adds an *optional* parameter (one with a
default) to one of these functions, the checks evaluate the function at that default: the property speaks about the calls
existing users can make.  A parameter without default, or a changed name, is not covered by this and stays symbolic."""
import json, os, sys
sys.path.insert(0, "/verif")
from bbstatic.model import Program

P = Program()
out = {}
for q, fi in sorted(P.functions.items()):
    out[q] = fi.params + fi.kwonly
json.dump(out, open("/verif/bbstatic/signatures.json", "w"), indent=0, sort_keys=True)
print(len(out), "signatures")

# positional order (what a positional call binds to): parameters of every function, fields of every dataclass
pos = {}
for q, fi in sorted(P.functions.items()):
    pos[q] = fi.params
for q, ci in sorted(P.classes.items()):
    if ci.is_dataclass:
        pos[q + ".<fields>"] = ci.all_fields()
json.dump(pos, open("/verif/bbstatic/signatures_pos.json", "w"), indent=0, sort_keys=True)
print(len(pos), "positional orders")

# default values of the pinned parameters (source text): an existing call that omits the argument keeps meaning the same
import ast
dfl = {}
for q, fi in sorted(P.functions.items()):
    d = {k: ast.unparse(v) for k, v in fi.defaults().items()}
    if d:
        dfl[q] = d
json.dump(dfl, open("/verif/bbstatic/signatures_defaults.json", "w"), indent=0, sort_keys=True)
print(len(dfl), "functions with defaults")
