#!/venv/bin/python
"""Freeze the signatures of the pinned tree: {qualified function name: [parameter names]} -> bbstatic/signatures.json.

The properties were written against these signatures.  When a later tree adds an *optional* parameter (one with a
default) to one of these functions, the checks evaluate the function at that default: the property speaks about the calls
existing users can make.  A parameter without default, or a changed name, is not covered by this and stays symbolic."""
import json, os, sys
sys.path.insert(0, "/verif")
from bbstatic.model import Program

P = Program()
out = {}
for q, fi in sorted(P.functions.items()):
    out[q] = fi.params + fi.kwonly
json.dump(out, open("/verif/bbstatic/signatures.json", "w"), indent=0, sort_keys=True)
print(len(out), "signatures")
