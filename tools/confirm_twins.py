#!/venv/bin/python
"""Confirm agent-written behaviour-preserving refactorings and file them under /verif/selftest/twins/.
For each /tmp/twin_<mod>/twin_out/twin<k>/: in a fresh worktree equiv.py output is identical before and
after the patch and the pinned suite is unchanged; then every listed property check must exit 0 on it."""
import concurrent.futures as cf, filecmp, json, os, re, shutil, subprocess, sys, tempfile

PY = "/venv/bin/python"
MODS = {
    "reservoir": ["C01", "C02", "C03", "C04", "C10", "C17"],
    "flowproperties": ["C01", "C03", "C09", "C14", "C15", "C16"],
    "oil": ["C07", "C11", "C12", "C13"],
    "gas": ["C06", "C07", "C08", "C13", "C19"],
    "waterfluid": ["C07", "C08", "C11", "C13", "C19"],
    "forecast": ["C05"],
    "forecast_pressure": ["C18", "C20"],
    "plotting": ["C20"],
}


def sh(cmd, **kw):
    r = subprocess.run(cmd, capture_output=True, text=True, shell=isinstance(cmd, str), **kw)
    return r.returncode, r.stdout + r.stderr


ARGS = [a for a in sys.argv[1:] if not a.startswith("--")]
OPTS = dict(a[2:].split("=", 1) for a in sys.argv[1:] if a.startswith("--"))
SRC = OPTS.get("src", "/tmp/twin_%s/twin_out")  # --src=/tmp/twin2_%s/twin_out --tag=r2-
TAG = OPTS.get("tag", "")


def one(mod, k):
    name = f"{mod}-{TAG}{k}"
    src = (SRC % mod) + f"/twin{k}"
    if not os.path.exists(src + "/patch.diff"):
        return name, {"error": "missing"}
    wt = tempfile.mkdtemp(prefix=f"ct_{name}_", dir="/tmp"); os.rmdir(wt)
    res = {}
    try:
        sh(["git", "-C", "/repo", "worktree", "add", "-q", "--detach", wt, "HEAD"])
        env = dict(os.environ, PYTHONPATH=f"{wt}/src", BB_DATA=f"{wt}/tests/data", MPLBACKEND="Agg")
        o1, o2 = wt + "/eq_clean.out", wt + "/eq_patched.out"
        rc, out = sh([PY, src + "/equiv.py", o1], cwd=src, env=env, timeout=1200)
        res["equiv_clean_rc"] = rc
        rc, out = sh(["git", "-C", wt, "apply", src + "/patch.diff"])
        if rc:
            return name, {"error": "patch: " + out[-200:]}
        rc, out = sh([PY, src + "/equiv.py", o2], cwd=src, env=env, timeout=1200)
        res["equiv_patched_rc"] = rc
        res["equiv_identical"] = os.path.exists(o1) and os.path.exists(o2) and filecmp.cmp(o1, o2, shallow=False)
        rc, out = sh(f"cd {wt} && {PY} -m pytest -q -p no:cacheprovider -n 4 --timeout=900 --no-cov 2>&1 | tail -12", env=env, timeout=1500)
        m = re.search(r"(\d+) failed, (\d+) passed", out)
        res["tests"] = m.group(0) if m else out[-150:]
        det = {}
        od = tempfile.mkdtemp(prefix="ct_out_")
        for p in MODS[mod]:
            rc, out = sh([PY, "-m", "bbstatic", "check", p], cwd="/verif", env=dict(os.environ, BB_REPO=wt, BB_OUT_DIR=od), timeout=600)
            det[p] = rc
        shutil.rmtree(od, ignore_errors=True)
        res["checks"] = det
        res["confirmed"] = bool(res["equiv_identical"]) and bool(m) and m.group(2) == "69" and m.group(1) == "7"
        if res["confirmed"]:
            dst = f"/verif/selftest/twins/{name}"
            os.makedirs(dst, exist_ok=True)
            for fn in ("patch.diff", "notes.md", "equiv.py"):
                if os.path.exists(f"{src}/{fn}"):
                    shutil.copy(f"{src}/{fn}", f"{dst}/{fn}")
            json.dump({"id": name, "properties": MODS[mod], "kind": "behaviour-preserving refactoring written by an independent sub-agent",
                       "confirmed": ["equiv.py output byte-identical on the clean and the refactored tree", "pinned suite: " + res["tests"]],
                       "check_exit_codes": det}, open(f"{dst}/meta.json", "w"), indent=1)
    finally:
        sh(["git", "-C", "/repo", "worktree", "remove", "--force", wt]); shutil.rmtree(wt, ignore_errors=True)
    return name, res


jobs = [(m, k) for m in (ARGS or MODS) for k in range(1, int(OPTS.get("n", 5)) + 1)]
with cf.ThreadPoolExecutor(max_workers=4) as ex:
    for name, res in ex.map(lambda j: one(*j), jobs):
        print(name, "confirmed" if res.get("confirmed") else "NOT-CONFIRMED", res.get("tests"), "equiv", res.get("equiv_identical"), res.get("checks"), res.get("error", ""), flush=True)
