#!/venv/bin/python
"""Regenerate the seeded-change and twin tables of DESIGN.md (between the marker comments)."""
import glob, json, os, re

V = "/verif"


def seeded_rows():
    out = ["| id | change | rules that fire |", "|---|---|---|"]
    for d in sorted(glob.glob(f"{V}/seeded/*")):
        mp = d + "/meta.json"
        if not os.path.exists(mp):
            continue
        m = json.load(open(mp))
        notes = open(d + "/notes.md").read().strip().split("\n") if os.path.exists(d + "/notes.md") else [""]
        title = next((l.strip("# ").strip() for l in notes if l.strip()), "")
        title = re.sub(r"^(C\d\d\s*/?\s*)?(seed\s*)?[Cc]hange\s*\d\s*[-:—–]*\s*", "", title)[:110].replace("|", "/")
        det = m.get("detected_by", {})
        out.append("| %s | %s | %s |" % (m["id"], title, ", ".join(",".join(v) for v in det.values()) or "**not detected**"))
    return "\n".join(out)


def twin_rows():
    out = ["| id | refactoring | checks run (all exit 0) |", "|---|---|---|"]
    for d in sorted(glob.glob(f"{V}/selftest/twins/*")):
        mp = d + "/meta.json"
        if not os.path.exists(mp):
            continue
        m = json.load(open(mp))
        notes = open(d + "/notes.md").read().strip().split("\n") if os.path.exists(d + "/notes.md") else [""]
        title = next((l.strip("# ").strip() for l in notes if l.strip()), "")[:120].replace("|", "/")
        out.append("| %s | %s | %s |" % (m["id"], title, " ".join(sorted(m.get("check_exit_codes", {})))))
    return "\n".join(out)


s = open(f"{V}/DESIGN.md").read()
for name, fn in (("SEEDED", seeded_rows), ("TWINS", twin_rows)):
    b, e = f"<!-- {name}-TABLE-BEGIN -->", f"<!-- {name}-TABLE-END -->"
    if b in s and e in s:
        s = s[: s.index(b) + len(b)] + "\n" + fn() + "\n" + s[s.index(e) :]
open(f"{V}/DESIGN.md", "w").write(s)
print("tables regenerated")
