#!/venv/bin/python
"""Recompute `detected_by` in every /verif/seeded/*/meta.json with the current rules (scratch copies, as the thorough tier does)."""
import concurrent.futures as cf, glob, json, os, sys
sys.path.insert(0, "/verif")
from selftest import runner

jobs = []
for d in sorted(glob.glob("/verif/seeded/*")):
    meta = json.load(open(d + "/meta.json"))
    if meta.get("expected_undetected"):
        continue
    jobs.append((d, meta))

def one(job):
    d, meta = job
    prop = meta["breaks_property"]
    v = {"id": "seeded:" + os.path.basename(d), "kind": "mutant", "edits": None, "patch": d + "/patch.diff"}
    vid, kind, status, detail, rules = runner._run_variant(prop, v, "/repo")
    return d, meta, prop, status, rules

bad = 0
with cf.ThreadPoolExecutor(16) as ex:
    for d, meta, prop, status, rules in ex.map(one, jobs):
        new = {prop: rules} if status == "ok" else {}
        if status != "ok":
            bad += 1
            print("NOT DETECTED", os.path.basename(d), status)
        if meta.get("detected_by") != new:
            meta["detected_by"] = new
            ran = [x for x in meta.get("what_i_ran", []) if not x.startswith("BB_REPO=")]
            ran.append("BB_REPO=<scratch> python -m bbstatic check %s -> exit %s, rules %s" % (prop, "1" if status == "ok" else status, ",".join(rules) or "-"))
            meta["what_i_ran"] = ran
            json.dump(meta, open(d + "/meta.json", "w"), indent=1)
print(f"{len(jobs) - bad}/{len(jobs)} seeded changes detected by their own property's check")
