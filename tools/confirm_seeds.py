#!/venv/bin/python
"""Confirm seeded changes produced by sub-agents and file them under /verif/seeded/.

For each /tmp/seed_<PROP>/seed_out/change<k>/ : in a fresh scratch worktree of /repo HEAD
  1. demo.py exits 0 on the clean tree,
  2. the patch applies, demo.py exits 1 with it,
  3. the pinned test suite gives the same result as the baseline (69 passed, the 7 known image failures),
  4. the registered check of the property (and any other named check) is run against the patched
     tree (BB_REPO=<worktree>) and its verdict recorded.
Then the worktree is removed.  usage: confirm_seeds.py [PROP ...] [--src /tmp/seed_%s/seed_out]
"""
import concurrent.futures as cf
import json
import os
import re
import shutil
import subprocess
import sys
import tempfile

VERIF = "/verif"
PY = "/venv/bin/python"


def sh(cmd, cwd=None, env=None, timeout=1800):
    r = subprocess.run(cmd, cwd=cwd, env=env, shell=isinstance(cmd, str), capture_output=True, text=True, timeout=timeout)
    return r.returncode, r.stdout + r.stderr


def confirm(prop, k, srcdir, name=None):
    name = name or f"{prop}-{k}"
    src = os.path.join(srcdir, f"change{k}")
    if not os.path.exists(os.path.join(src, "patch.diff")):
        return name, {"error": "no patch"}
    wt = tempfile.mkdtemp(prefix=f"cs_{name}_", dir="/tmp")
    os.rmdir(wt)
    res = {"property": prop, "source": src}
    try:
        rc, out = sh(["git", "-C", "/repo", "worktree", "add", "-q", "--detach", wt, "HEAD"])
        if rc:
            return name, {"error": "worktree: " + out}
        env = dict(os.environ, PYTHONPATH=f"{wt}/src", BB_DATA=f"{wt}/tests/data", MPLBACKEND="Agg")
        demo = os.path.join(src, "demo.py")
        rc0, out0 = sh([PY, demo], cwd="/", env=env, timeout=900)
        res["demo_clean_exit"] = rc0
        rc, out = sh(["git", "-C", wt, "apply", os.path.join(src, "patch.diff")])
        if rc:
            res["error"] = "patch does not apply: " + out[-300:]
            return name, res
        rc1, out1 = sh([PY, demo], cwd="/", env=env, timeout=900)
        res["demo_patched_exit"] = rc1
        res["demo_patched_tail"] = out1[-600:]
        rc, out = sh(f"cd {wt} && {PY} -m pytest -q -p no:cacheprovider -n 4 --timeout=900 --no-cov 2>&1 | tail -15", env=env, timeout=1500)
        m = re.search(r"(\d+) failed, (\d+) passed", out)
        res["tests"] = m.group(0) if m else out[-200:]
        failed = sorted(set(re.findall(r"FAILED (\S+)", out)))
        res["tests_failed_other_than_images"] = [f for f in failed if "test_plots.py" not in f and "test_fit_plot" not in f]
        res["suite_unchanged"] = bool(m) and m.group(2) == "69" and m.group(1) == "7" and not res["tests_failed_other_than_images"]
        # our checks on the patched tree
        det = {}
        out_dir = tempfile.mkdtemp(prefix="cs_out_")
        for p in [prop]:
            rc, out = sh([PY, "-m", "bbstatic", "check", p], cwd=VERIF, env=dict(os.environ, BB_REPO=wt, BB_OUT_DIR=out_dir), timeout=600)
            rules = sorted(set(re.findall(r"^  rule (\S+)", out, re.M)))
            det[p] = {"exit": rc, "rules": rules, "analysis_error": "ANALYSIS-ERROR" in out}
        shutil.rmtree(out_dir, ignore_errors=True)
        res["detection"] = det
        res["confirmed"] = rc0 == 0 and rc1 == 1 and res["suite_unchanged"]
        if res["confirmed"]:
            dst = os.path.join(VERIF, "seeded", name)
            os.makedirs(dst, exist_ok=True)
            for fn in ("patch.diff", "demo.py", "notes.md"):
                if os.path.exists(os.path.join(src, fn)):
                    shutil.copy(os.path.join(src, fn), os.path.join(dst, fn))
            notes = open(os.path.join(src, "notes.md")).read() if os.path.exists(os.path.join(src, "notes.md")) else ""
            meta = {
                "id": name,
                "breaks_property": prop,
                "needs_to_manifest": notes.strip()[:1500],
                "what_i_ran": [
                    "git worktree add --detach <scratch> HEAD (of /repo, with the fix: commits)",
                    "PYTHONPATH=<scratch>/src python demo.py  -> exit %d on the clean tree" % rc0,
                    "git apply patch.diff; python demo.py -> exit %d" % rc1,
                    "pytest -q -p no:cacheprovider -n 4 --timeout=900 --no-cov -> %s (same as baseline)" % res["tests"],
                    "BB_REPO=<scratch> python -m bbstatic check %s -> exit %d, rules %s" % (prop, det[prop]["exit"], ",".join(det[prop]["rules"]) or "-"),
                ],
                "detected_by": {p: d["rules"] for p, d in det.items() if d["exit"] == 1},
                "produced_by": "independent sub-agent given only the property text and a scratch worktree",
            }
            with open(os.path.join(dst, "meta.json"), "w") as fh:
                json.dump(meta, fh, indent=1)
    finally:
        sh(["git", "-C", "/repo", "worktree", "remove", "--force", wt])
        shutil.rmtree(wt, ignore_errors=True)
    return name, res


def main():
    args = [a for a in sys.argv[1:] if not a.startswith("--")]
    srcpat = "/tmp/seed_%s/seed_out"
    for a in sys.argv[1:]:
        if a.startswith("--src="):
            srcpat = a.split("=", 1)[1]
    props = args or ["C%02d" % i for i in range(1, 21)]
    n, tag = 2, ""
    for a in sys.argv[1:]:
        if a.startswith("--n="):
            n = int(a.split("=")[1])
        if a.startswith("--tag="):
            tag = a.split("=")[1]
    jobs = [(p, k) for p in props for k in range(1, n + 1)]
    results = {}
    with cf.ThreadPoolExecutor(max_workers=6) as ex:
        futs = {ex.submit(confirm, p, k, srcpat % p if "%s" in srcpat else srcpat, f"{p}-{tag}{k}" if tag else None): (p, k) for p, k in jobs}
        for fu in cf.as_completed(futs):
            name, res = fu.result()
            results[name] = res
            d = res.get("detection", {})
            print(name, "confirmed" if res.get("confirmed") else "NOT-CONFIRMED", res.get("tests"), "demo", res.get("demo_clean_exit"), res.get("demo_patched_exit"), {p: (x["exit"], x["rules"]) for p, x in d.items()}, res.get("error", ""), flush=True)
    with open("/tmp/confirm_seeds_result.json", "w") as fh:
        json.dump(results, fh, indent=1)


if __name__ == "__main__":
    main()
