#!/venv/bin/python
"""Development aid: copy /repo/src to a scratch dir, apply textual edits, run a check there.
usage: mut.py PROP relpath 'old' 'new' [relpath old new ...]"""
import os, shutil, subprocess, sys, tempfile
prop = sys.argv[1]
edits = sys.argv[2:]
d = tempfile.mkdtemp(prefix="bbmut_")
try:
    shutil.copytree("/repo/src", d + "/src")
    for i in range(0, len(edits), 3):
        rel, old, new = edits[i : i + 3]
        p = os.path.join(d, rel)
        s = open(p).read()
        if s.count(old) != 1:
            print(f"edit {i//3}: pattern occurs {s.count(old)} times"); sys.exit(3)
        open(p, "w").write(s.replace(old, new))
    r = subprocess.run(["/venv/bin/python", "-m", "bbstatic", "check", prop], cwd="/verif", env={**os.environ, "BB_REPO": d, "BB_OUT_DIR": d})
    print("exit", r.returncode)
finally:
    shutil.rmtree(d)
