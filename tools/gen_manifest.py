#!/venv/bin/python
"""Regenerate /verif/MANIFEST.json from the table below (checks = properties with a rule module)."""
import json
import os

VERIF = os.path.dirname(os.path.dirname(os.path.abspath(__file__)))

TRUST = (
    "Trusted base: CPython ast/fractions; bbstatic's normal form (exact arithmetic over Q, positive-base assumption for "
    "power laws), term-domain abstract interpreter and rule tables; positional signatures of the external scipy/numpy "
    "callables bound by name (frozen table). The check decides the structural clauses listed, not the numbers: "
)

SHARED = (
    " Shared rules run first in every check over the modules the property is anchored in (and, for state they own, over the "
    "rest of the package): M - no result is kept in persistent state under a key that omits a parameter it depends on; "
    "V - no in-place write through a view of caller-owned data or of an object's stored arrays (view-taint analysis); "
    "G - no one-shot iterator is consumed twice (typestate), nothing positional derives from the order of a set or of a caller's mapping, "
    "values computed on argsort-ed data are un-sorted with the inverse permutation; "
    "D - no floating type narrower than double is named as a working or storage type, no branch is selected by the identity "
    "of a comparison result with True / False; "
    "S - every parameter of the pinned signatures that can be passed by position keeps its position and every pinned default "
    "keeps its value (or one with which the function computes the same on every path); "
    "W - a decorated public function means the same for positional and keyword calls (decorators, properties, __setattr__, "
    "the MRO and name mangling are interpreted, not skipped), an override that delegates to super() - or a function that calls itself - forwards what it accepts; "
    "O - every rule of the property is evaluated again for each new optional parameter that one of the package's own callers "
    "sets to something else than its default (option contexts found at the call sites, DESIGN 9.3d); "
    "P - package plumbing over every module: no process-wide configuration changes, public names bound to their own functions, "
    "no stores into other modules, no overwrite_input, distinct scale names, objects restored from pickle equal what the constructor built (DESIGN 9.3e)."
)

META = {
    "C01": dict(
        level="other",
        technique="abstract interpretation of the matrix assembly (vector slice algebra over exact terms) + value numbering of the boundary row + keyword discipline of the diffusivity interpolators",
        text="Decides, for every k >= 0 and every n, that _build_matrix assembles an M-matrix with unit row sums (interior and Neumann last row) and row sum 1+k0 on the frac-face row; that the frac-face row's right-hand side and matrix coefficient use the same diffusivity value (so the profile relaxes to m_f independent of the step); that the diffusivity lookups are clamped to the table's own min/max and stay linear; that the ideal reservoir starts at 1 with a zero ghost node. These are necessary and, for exact solves, sufficient conditions of the discrete maximum principle; the tests sample one table and one grid.",
        note="solver rounding and the monotonicity as numbers are not decided (they follow from the decided clauses for exact solves)",
    ),
    "C02": dict(
        level="other",
        technique="consistency analysis of stencils by abstract interpretation: Taylor moment conditions of the assembled rows and of the flux stencil, boundary closures, initial state, quadrature roles, scale factors as exact term identities",
        text="Decides consistency of the scheme with the documented boundary-value problem (interior stencil = -d2/dx2 to second order with backward Euler in time, Neumann outer row, Dirichlet ghost row with value m_f / 0, uniform initial state, second-order one-sided flux stencil, trapezoid quadrature over the time grid, FVF scale, alpha/alpha_i, mesh ratio dt/dx^2). With stability (C01) this is the classical sufficient pair for convergence of the linear scheme.",
        note="convergence rates and agreement with the Fourier series / method-of-lines reference are numerical and not decided",
    ),
    "C03": dict(
        level="other",
        technique="exact term identities for the pseudopressure scaling factor and the recovery expressions + role binding of interpolator / quadrature arguments",
        text="Decides the structural necessary conditions for the two recovery modes to describe the same quantity: scaling factor c*mu*z/(2p) evaluated at p_i, mass in place interpolated as density(m-scaled) and summed over nodes, cumulative = 1 - mass/mass[0], flux mode = one-sided second-order stencil integrated over self.time from zero, recovery = cumulative * fvf_scale().",
        note="size of the gap, monotone recovery and the density ceiling are numerical and not decided",
    ),
    "C04": dict(
        level="other",
        technique="index-discipline dataflow over the time loop (term-domain abstract interpretation with symbolic loop index) + must-check rule on linear-solver call sites + dtype lattice of the level storage",
        text="Decides for every step of both simulate loops: the level written is i+1, the right-hand side and the diffusivity argument derive from level i, mesh_ratio == (time[i+1]-time[i])/dx^2 with one loop-invariant mesh constant, the matrix is the C01 assembly; every reachable linear solve is either direct or an iterative solver whose status flag is tested with a raising arm and whose relative tolerance is <= 1e-10; the storage of levels is float64.",
        note="the residual actually achieved by the direct solver is not computed (LAPACK/SuperLU contract)",
    ),
    "C05": dict(
        level="other",
        technique="exact term identity and substitution invariance for the scaling law + argument-role binding at curve_fit / closure call sites + guard polarity rules",
        text="Decides: _forecast_cum_onephase == M * rf_curve(t/tau) (linear in M, invariant under joint rescaling, for all curves); every caller binds its own curve and parameters; Bounds rejects malformed bounds (4 guards, polarity checked); curve_fit always receives bounds and a regularised p0; the (M, tau) tuple protocol agrees between closure signature, p0, fit_bounds, regulariser indices and unpacking; each regularised guess is a convex combination of finite bounds on both coordinates independently; a supplied tau is returned unchanged.",
        note="scipy's curve_fit respecting its bounds and the noise-free round trip are optimisation behaviour, not decided",
    ),
    "C06": dict(
        level="other",
        technique="exact term identity between the coded EOS residual and the published DAK equation (normal form over Q, per power of rho) + must-validate rule on the solver call + sign decisions on normal forms by interval abstract interpretation with branch and bound over the declared (Tr, rho) range",
        text="Decides: the residual handed to the root finder is the published eleven-constant Dranchuk-Abou-Kassem equation; returned Z == 0.27 pr/(rho Tr) of the solver's rho; the bracket straddles Z = 1; the solver is a bracketing root finder (root-or-exception) or its outcome is validated before use; along the solved equation Z(rho=0) == 1 and d(rho Z)/d rho > 0 for Tr in [1.05, 3] and reduced density up to 3 (which reaches pr > 30), so the root is unique, continuous in pressure and tends to 1 as p -> 0; the Hall-Yarbrough loop iterates the published equation with its exact derivative, cannot return its starting guess and leaves on a NaN residual.",
        note="Hall-Yarbrough termination in general and its agreement within a few percent are not decided. Known finding: the rho^1 coefficient is coded A1*A2/Tr instead of A1 + A2/Tr (pinned by 16 tests).",
    ),
    "C07": dict(
        level="other",
        technique="exact term identities between sibling functions sharing uninterpreted atoms (Z, Bo, Rs, Bw); symbolic differentiation of the library's own EOS; sign decisions on normal forms by interval abstract interpretation with branch and bound over a declared input range",
        text="Decides for every state point: gas rho*Bg free of p and Z and rho = p*M/(Z*R*T); oil rho*Bo == 62.37 gamma_o + 0.0136 gamma_g Rs with the library's own Bo, Rs at the function's own arguments; water rho*Bw depends on salinity only; gas compressibility assembly == 1/(p (1 + (rho/Z) dZ/drho)) and its dZ/drho == rho-derivative of the equation solved in z_factor_DAK; viscosity uses the library's density at its own arguments, is positive and increases with density over the declared range, and density increases with pressure on every isotherm (d(rho Z)/d rho > 0); the Fluid facade hands these quantities out unchanged.",
        note="the declared input range of the sign clauses is recorded in the evidence. Known finding: dZ/drho in compressibility_DAK uses the published A1 + A2/Tr, z_factor_DAK does not.",
    ),
    "C08": dict(
        level="other",
        technique="exact term identity of the three integrands + argument-role binding at quad / cumulative_trapezoid call sites (resolved signatures)",
        text="Decides that the adaptive-quadrature route, the table builder and the stand-alone transform integrate the same integrand 2p/(mu Z) with mu and Z evaluated at the integration variable / the row's own pressure, with (y, x) roles, lower limit = reference pressure and initial = 0 bound correctly; viscosity > 0 and Z > 0 over the declared range of the gas correlations, so the integrand is positive and pseudopressure strictly increasing.",
        note="quadrature accuracy (QUADPACK vs 10-psi trapezoid) is not decided; additivity follows from the integral form",
    ),
    "C09": dict(
        level="other",
        technique="parameter-mutation (alias/effect) analysis + must-raise / keyword discipline on interpolator construction + exact term identities for the scaling transform",
        text="Decides: no store through a live alias of the caller's table in any constructor / rescale function; missing columns raise and every column used is covered by the validation of the arm taken; the branch between the two constructions is selected by the presence of 'alpha'; interpolators evaluated at p_i are built to raise outside the table and m_i is obtained through one of them; m-scaled == pseudopressure * factor(p_i) with factor = c mu z/(2p) or 1/pseudopressure; alpha == 1/(c mu) at nodes; the diffusivity lookup is linear, clamped with the column's own min/max; rescale is the affine map sending p_frac to 0 and p_i to 1.",
        note="the linear-interpolation error bound between nodes is numerical and not decided",
    ),
    "C10": dict(
        level="other",
        technique="effect / typestate analysis on the reservoir class family: per-method self-attribute read/write/delete summaries closed over the MRO, must-invalidate on all paths (structured dataflow), configuration immutability",
        text="Decides over all call histories: every method that overwrites a source of the cached recovery unconditionally deletes or rewrites the cache on every path; nothing outside construction assigns configuration fields; simulate overwrites time and pseudopressure on every normal path from arguments and configuration only; readers write nothing but the cache, and the interpolator's fallback does not depend on state written by earlier recovery calls.",
        note="bit-identical floating-point repeatability follows for a deterministic direct solver; not separately decided",
    ),
    "C11": dict(
        level="other",
        technique="dtype lattice for result buffers + exact term identity between array and scalar arms (mask erasure) + mask partition rule + parameter-mutation analysis + delegation binding",
        text="Decides: result buffers allocated from a caller's array never inherit its dtype; for each function with an array/scalar split the masked stores equal the scalar arms term-for-term; the masks form the partition {P, not P} of the scalar predicate (so the bubble point itself is written once, by the same arm); no correlation stores into its inputs; the Fluid wrappers evaluate the scalar correlation at each element.",
        note="float32 precision and numpy broadcasting of empty arrays are library behaviour, not decided",
    ),
    "C12": dict(
        level="other",
        technique="exact term identities after substitution at the branch point (normal form over Q with symbolic exponents) + predicate agreement rule + sign domain for derivatives",
        text="Decides: Rs below the bubble point is the exact inverse of the bubble-point correlation (both compositions); Rs, Bo, oil density and viscosity arms coincide at p = p_b; every bubble-point test (scalar and mask form) compares pressure with the same p_b call using >= for the undersaturated side; dRs/dp and dBo/dRs are sign-definite positive; above p_b, Bo/Bo_b == exp(x) with x < 0 for a positive compressibility; below p_b d(viscosity)/d(Rs) < 0 and viscosity > 0 over the declared (API, T, Rs) range; the undersaturated viscosity is positive; result buffers keep float dtype; the Fluid facade hands the correlations out unchanged.",
        note="positivity of the Spivey compressibility itself and the strict fall of Bo above p_b are not decided",
    ),
    "C13": dict(
        level="proof",
        technique="symbolic differentiation of the parent's own source to an exact normal form over Q and identity test against the hand-coded derivative",
        text="Every obligation is an exact identity for all real inputs in the correlations' domain: d/dp b_water_McCain == b_water_McCain_dp; d/dp solution_gor_Standing == dgor_dpressure_Standing on both arms with the same predicate; d/dRs b_o_bubblepoint_Standing == db_o_dgor_Standing; oil_compressibility_Standing equals Spivey above the bubble point and (Bg - dBo/dRs(Rs(p))) dRs/dp / Bo below it with the exact derivatives of the parents and the library's b_factor_DAK at the caller's arguments. All obligations are discharged by the zero test of the normal form (complete on this fragment).",
        note="float rounding of the implementation is out of scope (the property allows it); literals are read exactly from source text; positive-base assumption for the power laws",
    ),
    "C14": dict(
        level="other",
        technique="guard-polarity rule on the validation block + interval abstract interpretation of the bases of the Corey powers + linspace algebra for the two-phase helper",
        text="Decides: each listed rejection exists with the right aggregate, fields, operator and bound; every base raised to a Corey exponent is confined to [0,1] by an explicit clip before the power (for all parameters in the admissible box), which gives finiteness, the k_max ceiling and exact zero at or below residual at once; k is k_max times that power; the two-phase helper's saturations sum to one and Sw > S_wc raises.",
        note="nothing essential is left undecided; S_or+S_wc+S_gc < 1 is a premise",
    ),
    "C15": dict(
        level="other",
        technique="argument-role binding at the quadrature call site + exact term identity of the integrand against the documented mobility and its sibling + dataflow of from_table into the wrapper on every path",
        text="Decides: cumulative_trapezoid receives (y = mobility, x = pressure grid, initial = 0); the integrand is exactly the documented total mass mobility and equals lambda_combined_func; on every path through from_table the interpolators are built from the current call's table, keyed by the column they interpolate, and the computed pseudopressure / diffusivity / pressure column reach the wrapper.",
        note="positivity of mobility on a given table and trapezoid error are not decided",
    ),
    "C16": dict(
        level="other",
        technique="exact term identities under stencil-point exchange and against the documented storage function (normal form over uninterpreted table interpolators)",
        text="Decides: the compressibility is antisymmetric under exchanging p+h and p-h (equivalently zero for pressure-independent tables), equals S(p+h) - S(p-h) for the documented storage S with 2h = 1, is linear in porosity; mobility is the documented sum; alpha = mobility/compressibility with arguments bound by name.",
        note="agreement with an independent numerical finite difference is the numeric counterpart and is not run",
    ),
    "C17": dict(
        level="other",
        technique="substitution-invariance of the solver inputs under time shift (exact terms) + dominance / must-raise rules on guards + keyword discipline of the recovery interpolator",
        text="Decides: everything that reaches the linear solve is invariant under time[k] -> time[k] + c; recovery uses time only as the quadrature abscissa; the scalar setting is expanded to a constant schedule before the join and nothing after the join reads the scalar; a wrong-length schedule raises before first use; recovery before simulate raises RuntimeError; the interpolator is built on (time, recovery) with fill values (0, last recovery).",
        note="rounding of shifted subtraction is not decided",
    ),
    "C18": dict(
        level="other",
        technique="typestate order and argument-role binding on the objective function (resolved constructors and methods of the library's own classes) + writer/reader key agreement + limit wiring",
        text="Decides: the objective is M * recovery_factor() - production on a SinglePhaseReservoir built at params' p_initial from FlowProperties(pvt_table, p_initial) and simulated at days/tau with the given schedule (construct -> simulate -> recovery_factor); parameter keys agree between writer and readers; p_initial is bounded below by max of the schedule actually used and above by pressure_imax, M by inplace_max; fcn_args order matches the objective's signature; filtering and smoothing are wired as stated.",
        note="lmfit honouring min/max, uniform_filter1d(size=1) being the identity and Nelder-Mead convergence are library contracts, not decided",
    ),
    "C19": dict(
        level="other",
        technique="argument-role binding of every delegation (resolved callee, bound formals) + exact substitution identities for the Sutton pseudocritical reductions",
        text="Decides: each Fluid method calls its correlation with the instance's fields in the same-named slots and the method's pressure in the pressure slot; build_pvt_gas unpacks the pseudocritical point in the order it is returned, builds the 10-psi grid from 10 up to maximum_pressure, and each column is its correlation at the row pressure; with all contaminant fractions zero the Sutton point reduces to the hydrocarbon-only correlation, extra components enter only through linear sums; unknown fluid types raise.",
        note="rounding is not decided",
    ),
    "C20": dict(
        level="other",
        technique="exact term identity of the transform pair + argument-role binding at every Axes.plot call site",
        text="Decides: the forward transform is a^(1/2) and the inverse a^2, mutual inverses on non-negative values, inverted() returns the other class, the scale is registered under the name used at every use; every plot call draws the stated (x, y) data (recovery vs time, gradient(recovery, time), every k-th profile vs node position with the affine rescale, production-comparison curves over time/tau).",
        note="what matplotlib renders is not decided",
    ),
}

NA_PENDING = "rule module not built yet in this round (design in DESIGN.md section 4)"


def main():
    ids = [json.loads(line)["id"] for line in open(os.path.join(VERIF, "properties.jsonl"))]
    checks, na = [], []
    for pid in ids:
        m = META[pid]
        if os.path.exists(os.path.join(VERIF, "bbstatic", "rules", pid.lower() + ".py")):
            checks.append(
                {
                    "property_id": pid,
                    "quick_cmd": f"/venv/bin/python -m bbstatic check {pid} --tier quick",
                    "thorough_cmd": f"/venv/bin/python -m bbstatic check {pid} --tier thorough",
                    "evidence_file": f"/verif/evidence/{pid}.json",
                    "replay_cmd_template": "/venv/bin/python -m bbstatic replay {path}",
                    "engine": "bbstatic",
                    "level_claimed": {"category": m["level"], "text": m["text"] + SHARED, "design_ref": f"DESIGN.md section 4 and 9.2, {pid}"},
                    "level_note": TRUST + m["note"],
                    "technique": "static analysis: " + m["technique"],
                }
            )
        else:
            na.append({"property_id": pid, "reason": NA_PENDING})
    man = {
        "version": 1,
        "setup_cmd": "/venv/bin/python -m compileall -q /verif/bbstatic",
        "hooks": {
            "guard": "BLUEBONNET_VERIF",
            "enable": "no hooks: the checks parse /repo's current source and never import or execute it",
            "baseline_off_cmd": "cd /repo && /venv/bin/python -m pytest -ra -q -p no:cacheprovider --timeout=900 --continue-on-collection-errors",
            "source_commits": [],
            "add_only": True,
        },
        "engines": [
            {
                "name": "bbstatic",
                "path": "/verif/bbstatic",
                "serves_properties": [c["property_id"] for c in checks],
                "kind_free_text": "repository-specific static analyser: program model (imports, MRO, resolved callees), exact normal form over Q, term-domain abstract interpreter with trace partitioning, vector slice algebra, effect/typestate/view-alias and dtype analyses, interval sign decisions with branch and bound, rule modules per property",
            }
        ],
        "checks": checks,
        "not_applicable": na,
        "notes": "All checks are static: exit 0 = every rule instance located and holds (or is a listed known finding), exit 1 + VIOLATION line = a conflicting fact was positively derived about a named construct, exit 2 + ANALYSIS-ERROR = fail-closed (anchor vanished / code left the analysable fragment). Known findings: /verif/known_findings.json. Thorough tier = quick + mutant/twin self-test of the property's rules on scratch copies.",
    }
    with open(os.path.join(VERIF, "MANIFEST.json"), "w") as fh:
        json.dump(man, fh, indent=1)
    print(f"{len(checks)} checks, {len(na)} not_applicable")


if __name__ == "__main__":
    main()
