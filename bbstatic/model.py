"""E1 - program model of src/bluebonnet: modules, imports, classes + MRO, functions, signatures.

Nothing is imported or executed from the analysed tree; everything comes from `ast`.
"""
from __future__ import annotations

import ast
import os
from dataclasses import dataclass, field


def mangle(name, class_name):
    """Python's private-name mangling: inside class C, `__x` (no trailing dunder) means `_C__x`"""
    if class_name and name.startswith("__") and not name.endswith("__"):
        return "_" + class_name.lstrip("_") + name
    return name


class AnalysisError(Exception):
    """Fail-closed: an anchor vanished or the code left the analysable fragment (exit 2)."""


PKG = "bluebonnet"
FLOOR_FILES = 13
FLOOR_FUNCS = 70
FLOOR_CALLS = 330


def repo_root() -> str:
    return os.environ.get("BB_REPO", "/repo")


@dataclass
class FunctionInfo:
    name: str
    qualname: str
    node: ast.FunctionDef
    module: "ModuleInfo"
    cls: "ClassInfo | None" = None
    parent: "FunctionInfo | None" = None
    nested: dict = field(default_factory=dict)
    rebinds: list = field(default_factory=list)  # `name = expr(name)` statements that re-bind this function after its def

    @property
    def params(self):
        a = self.node.args
        return [x.arg for x in a.posonlyargs + a.args]

    @property
    def kwonly(self):
        return [x.arg for x in self.node.args.kwonlyargs]

    @property
    def vararg(self):
        return self.node.args.vararg.arg if self.node.args.vararg else None

    @property
    def kwarg(self):
        return self.node.args.kwarg.arg if self.node.args.kwarg else None

    def defaults(self):
        a = self.node.args
        pos = a.posonlyargs + a.args
        d = {}
        for p, dv in zip(pos[len(pos) - len(a.defaults) :], a.defaults):
            d[p.arg] = dv
        for p, dv in zip(a.kwonlyargs, a.kw_defaults):
            if dv is not None:
                d[p.arg] = dv
        return d

    @property
    def file(self):
        return self.module.relpath

    @property
    def line(self):
        return self.node.lineno

    def where(self, node=None):
        return f"{self.module.relpath}:{(node or self.node).lineno}"


@dataclass
class ClassInfo:
    name: str
    qualname: str
    node: ast.ClassDef
    module: "ModuleInfo"
    bases: list = field(default_factory=list)  # ClassInfo | str (external qualified name)
    methods: dict = field(default_factory=dict)
    nested: dict = field(default_factory=dict)
    fields: list = field(default_factory=list)  # annotated class-level names (dataclass fields)
    class_attrs: dict = field(default_factory=dict)
    is_dataclass: bool = False
    outer: "ClassInfo | None" = None

    def mro(self):
        out = [self]
        for b in self.bases:
            if isinstance(b, ClassInfo):
                for c in b.mro():
                    if c not in out:
                        out.append(c)
        return out

    def lookup(self, name):
        for c in self.mro():
            if name in c.methods:
                return c.methods[name]
        return None

    def lookup_after(self, cls, name):
        """method `name` in the MRO strictly after `cls` (for super())."""
        m = self.mro()
        i = m.index(cls)
        for c in m[i + 1 :]:
            if name in c.methods:
                return c.methods[name]
        return None

    def all_fields(self):
        out = []
        for c in reversed(self.mro()):
            for f in c.fields:
                if f not in out:
                    out.append(f)
        return out

    def external_bases(self):
        out = []
        for c in self.mro():
            out += [b for b in c.bases if isinstance(b, str)]
        return out


@dataclass
class ModuleInfo:
    name: str
    path: str
    relpath: str
    src: str
    tree: ast.Module
    imports: dict = field(default_factory=dict)  # local name -> dotted qualified name
    functions: dict = field(default_factory=dict)
    classes: dict = field(default_factory=dict)
    constants: dict = field(default_factory=dict)  # name -> ast expr (module-level simple assignments)
    rebinds: dict = field(default_factory=dict)  # imported name -> [expr, ...] re-binding it at module level, in order
    alternatives: dict = field(default_factory=dict)  # name -> [(label, kind, payload)]: bound in different arms of one module-level if / try

    def segment(self, node):
        return ast.get_source_segment(self.src, node)


_ALIASES = {"np": "numpy", "sp": "scipy", "pd": "pandas", "plt": "matplotlib.pyplot"}
_RENAMED = {
    "scipy.integrate.cumtrapz": "scipy.integrate.cumulative_trapezoid",
    "scipy.integrate.trapz": "scipy.integrate.trapezoid",
    "scipy.integrate.simps": "scipy.integrate.simpson",
    "numpy.trapz": "numpy.trapezoid",
    "scipy.integrate.quadrature.cumulative_trapezoid": "scipy.integrate.cumulative_trapezoid",
    "scipy.integrate._quadrature.cumulative_trapezoid": "scipy.integrate.cumulative_trapezoid",
    "scipy.ndimage.filters.uniform_filter1d": "scipy.ndimage.uniform_filter1d",
    "scipy.ndimage._filters.uniform_filter1d": "scipy.ndimage.uniform_filter1d",
}


def _parent_of(tree, node):
    for p in ast.walk(tree):
        for c in ast.iter_child_nodes(p):
            if c is node:
                return p
    return None


def _loop_names(tree, call, var):
    """names a loop variable ranges over when the enclosing `for var in X` iterates a literal tuple / list / set of
    strings, a string literal (its characters), or a module-level constant bound once to one of these; else None"""
    parents = {}
    for p in ast.walk(tree):
        for c in ast.iter_child_nodes(p):
            parents[id(c)] = p
    n = call
    loop = None
    while id(n) in parents:
        n = parents[id(n)]
        if isinstance(n, ast.For) and isinstance(n.target, ast.Name) and n.target.id == var:
            loop = n
            break
        if isinstance(n, (ast.FunctionDef, ast.AsyncFunctionDef, ast.Lambda)):
            break
    if loop is None:
        return None

    def lit(e, depth=0):
        if isinstance(e, ast.Constant) and isinstance(e.value, str):
            return list(e.value)
        if isinstance(e, (ast.Tuple, ast.List, ast.Set)) and all(isinstance(x, ast.Constant) and isinstance(x.value, str) for x in e.elts):
            return [x.value for x in e.elts]
        if isinstance(e, ast.Name) and depth == 0:
            asg = [st for st in tree.body if isinstance(st, ast.Assign) and any(isinstance(t, ast.Name) and t.id == e.id for t in st.targets)]
            asg += [st for st in tree.body if isinstance(st, ast.AnnAssign) and isinstance(st.target, ast.Name) and st.target.id == e.id and st.value is not None]
            if len(asg) == 1:
                return lit(asg[0].value, 1)
        return None

    return lit(loop.iter)


class Program:
    def attribute_is_stored(self, name):
        """does any module of the package store (or set through setattr with a literal / resolved name) an attribute `name`?"""
        cache = self.__dict__.setdefault("_stored_attrs", None)
        if cache is None:
            cache = set()
            for m in self.modules.values():
                for n in ast.walk(m.tree):
                    if isinstance(n, ast.Attribute) and isinstance(n.ctx, ast.Store):
                        cache.add(n.attr)
                    elif isinstance(n, ast.Call) and isinstance(n.func, ast.Name) and n.func.id == "setattr" and len(n.args) >= 2:
                        if isinstance(n.args[1], ast.Constant) and isinstance(n.args[1].value, str):
                            cache.add(n.args[1].value)
                        else:
                            cache.update(self.dyn_names.get((m.relpath, n.lineno), ()))
            self.__dict__["_stored_attrs"] = cache
        return name in cache

    def __init__(self, root: str | None = None):
        self.root = root or repo_root()
        self.src_root = os.path.join(self.root, "src")
        self.modules: dict[str, ModuleInfo] = {}
        self.functions: dict[str, FunctionInfo] = {}
        self.classes: dict[str, ClassInfo] = {}
        self.dyn_names: dict = {}  # (relpath, lineno) of setattr/delattr with a loop variable -> the names it ranges over
        self.n_calls = 0
        self.by_node = {}
        self._load()

    # ------------------------------------------------------------------ loading
    def _load(self):
        pkgdir = os.path.join(self.src_root, PKG)
        if not os.path.isdir(pkgdir):
            raise AnalysisError(f"package directory {pkgdir} not found")
        for dirpath, _dirs, files in sorted(os.walk(pkgdir)):
            for fn in sorted(files):
                if not fn.endswith(".py"):
                    continue
                path = os.path.join(dirpath, fn)
                rel = os.path.relpath(path, self.root)
                modname = os.path.relpath(path, self.src_root)[:-3].replace(os.sep, ".")
                if modname.endswith(".__init__"):
                    modname = modname[: -len(".__init__")]
                with open(path, encoding="utf-8") as fh:
                    src = fh.read()
                try:
                    tree = ast.parse(src, filename=path)
                except SyntaxError as e:  # the tree does not compile: nothing can be decided
                    raise AnalysisError(f"{rel}: syntax error {e}") from e
                self.modules[modname] = ModuleInfo(modname, path, rel, src, tree)
        for m in self.modules.values():
            self._index_module(m)
        for c in self.classes.values():
            self._resolve_bases(c)
        self._apply_init_subclass_hooks()
        for m in self.modules.values():
            self.n_calls += sum(isinstance(n, ast.Call) for n in ast.walk(m.tree))
            for n in ast.walk(m.tree):
                if isinstance(n, ast.Call) and isinstance(n.func, ast.Name):
                    fid = n.func.id
                    dynamic = fid in ("eval", "exec", "__import__", "globals", "locals", "vars")
                    if fid == "globals" and not n.args:
                        # a *read* of one module name (`globals()[name]`, `globals().get(name)` - the PEP 562 alias idiom)
                        # binds nothing; any other use of the namespace dictionary stays banned
                        par = _parent_of(m.tree, n)
                        if isinstance(par, ast.Subscript) and par.value is n and isinstance(par.ctx, ast.Load):
                            dynamic = False
                        elif isinstance(par, ast.Attribute) and par.value is n and par.attr == "get" and isinstance(_parent_of(m.tree, par), ast.Call):
                            dynamic = False
                    if fid in ("setattr", "delattr"):
                        # a constant attribute name is as static as obj.name = v; a computed name defeats the effect analysis
                        dynamic = not (len(n.args) >= 2 and isinstance(n.args[1], ast.Constant) and isinstance(n.args[1].value, str))
                        if dynamic and len(n.args) >= 2 and isinstance(n.args[1], ast.Name):
                            # ... unless it is the variable of a loop over a literal collection of names (or over a
                            # module constant bound to one): the names are then known - for a string constant they are
                            # its characters, which is what Python iterates
                            names = _loop_names(m.tree, n, n.args[1].id)
                            if names is not None:
                                self.dyn_names[(m.relpath, n.lineno)] = names
                                dynamic = False
                    # getattr / hasattr with a computed name are *reads*: the interpreter resolves the name when it
                    # evaluates to a string constant (a loop over a literal table) and otherwise yields an opaque value
                    if dynamic:
                        raise AnalysisError(
                            f"{m.relpath}:{n.lineno}: dynamic feature {fid}() - effect analysis would be unsound"
                        )
        if len(self.modules) < FLOOR_FILES:
            raise AnalysisError(f"only {len(self.modules)} modules parsed (floor {FLOOR_FILES})")
        if len(self.functions) < FLOOR_FUNCS:
            raise AnalysisError(f"only {len(self.functions)} functions found (floor {FLOOR_FUNCS})")
        if self.n_calls < FLOOR_CALLS:
            raise AnalysisError(f"only {self.n_calls} call sites found (floor {FLOOR_CALLS})")

    def _index_module(self, m: ModuleInfo):
        def statements(body):
            """module-level statements, looking into try / if blocks (compatibility imports, TYPE_CHECKING): the first
            binding of a name wins, so `try: from a import f / except ImportError: from b import g as f` binds a.f"""
            for node in body:
                if isinstance(node, ast.Try):
                    yield from statements(node.body)
                    for h in node.handlers:
                        for x in statements(h.body):
                            x._bb_fallback = True  # binds only what the try body did not bind
                            yield x
                    yield from statements(node.orelse)
                    yield from statements(node.finalbody)
                elif isinstance(node, ast.If):
                    for x in list(statements(node.body)) + list(statements(node.orelse)):
                        x._bb_conditional = True
                        yield x
                else:
                    yield node

        self._index_alternatives(m)
        for node in statements(m.tree.body):
            if isinstance(node, ast.Import):
                for a in node.names:
                    local = a.asname or a.name.split(".")[0]
                    m.imports.setdefault(local, a.name if a.asname else a.name.split(".")[0])
            elif isinstance(node, ast.ImportFrom):
                base = node.module or ""
                if node.level:
                    parts = m.name.split(".")
                    base = ".".join(parts[: len(parts) - node.level + (1 if m.path.endswith("__init__.py") else 0)] + ([base] if base else []))
                for a in node.names:
                    if a.name == "*":
                        # from package_module import *: every public name of that module, overriding what this module
                        # bound above the statement (the later binding wins)
                        for nm in self._star_names(base):
                            m.imports[nm] = f"{base}.{nm}"
                            m.star_imported = getattr(m, "star_imported", {})
                            m.star_imported[nm] = (base, node.lineno)
                        continue
                    m.imports.setdefault(a.asname or a.name, f"{base}.{a.name}")
            elif isinstance(node, (ast.FunctionDef, ast.AsyncFunctionDef)):
                self._index_function(node, m, None, None, m.name)
            elif isinstance(node, ast.ClassDef):
                self._index_class(node, m, None, m.name)
            elif isinstance(node, ast.Assign) and len(node.targets) == 1 and isinstance(node.targets[0], ast.Name):
                nm = node.targets[0].id
                if getattr(node, "_bb_fallback", False):
                    m.constants.setdefault(nm, node.value)
                elif nm in m.functions and not getattr(node, "_bb_conditional", False):
                    # f = wrap(f) after `def f`: callers of f get what the statement makes of it
                    m.functions[nm].rebinds.append(node.value)
                elif nm in m.imports and nm not in m.constants and not getattr(node, "_bb_conditional", False):
                    m.rebinds.setdefault(nm, []).append(node.value)
                elif nm in m.rebinds:
                    m.rebinds[nm].append(node.value)
                else:
                    m.constants[nm] = node.value
            elif isinstance(node, ast.AnnAssign) and isinstance(node.target, ast.Name) and node.value is not None:
                m.constants[node.target.id] = node.value
            elif isinstance(node, ast.Assign):
                # chained and unpacking assignments at module level: A, B = C = ("a", "b")
                for t in node.targets:
                    if isinstance(t, ast.Name) and t.id not in m.functions and t.id not in m.imports:
                        m.constants[t.id] = node.value
                    elif isinstance(t, (ast.Tuple, ast.List)) and all(isinstance(e, ast.Name) for e in t.elts):
                        for k, e in enumerate(t.elts):
                            if isinstance(node.value, (ast.Tuple, ast.List)) and len(node.value.elts) == len(t.elts):
                                m.constants[e.id] = node.value.elts[k]
                            else:
                                sub = ast.Subscript(value=node.value, slice=ast.Constant(value=k), ctx=ast.Load())
                                ast.copy_location(sub, node.value)
                                ast.fix_missing_locations(sub)
                                m.constants[e.id] = sub

    def _apply_init_subclass_hooks(self):
        """`__init_subclass__` of a base class that wraps methods of its subclasses (`cls.m = wrap(cls.__dict__["m"])`,
        `setattr(cls, "m", wrap(cls.m))`) is a decorator applied at class creation: it is recorded as a re-binding of
        each subclass's own method, so that callers of the method get what the hook makes of it.  Anything else a hook
        does to the class (loops over computed names, replaced attributes) is not modelled: the analysis stops."""
        for base in list(self.classes.values()):
            hook = base.methods.get("__init_subclass__")
            if hook is None:
                continue
            wraps = []  # (method name, wrapper expression with the method as `__m__`, own_only)
            for st in ast.walk(hook.node):
                name = wexpr = None
                if isinstance(st, ast.Assign) and len(st.targets) == 1 and isinstance(st.targets[0], ast.Attribute) and isinstance(st.targets[0].value, ast.Name) and st.targets[0].value.id == hook.params[0]:
                    name, wexpr = st.targets[0].attr, st.value
                elif isinstance(st, ast.Call) and isinstance(st.func, ast.Name) and st.func.id == "setattr" and len(st.args) == 3 and isinstance(st.args[0], ast.Name) and st.args[0].id == hook.params[0]:
                    if isinstance(st.args[1], ast.Constant) and isinstance(st.args[1].value, str):
                        name, wexpr = st.args[1].value, st.args[2]
                    else:
                        raise AnalysisError(f"{hook.qualname}: sets attributes of the subclass under computed names - not modelled")
                if name is None:
                    continue
                cls_name = hook.params[0]
                refs = (f"{cls_name}.__dict__['{name}']", f'{cls_name}.__dict__["{name}"]', f"{cls_name}.{name}", f"getattr({cls_name}, '{name}')", f'getattr({cls_name}, "{name}")', f"vars({cls_name})['{name}']")
                src = ast.unparse(wexpr)
                if not any(r in src for r in refs):
                    raise AnalysisError(f"{hook.qualname}: replaces {name} of the subclass by something that is not built from it - not modelled")
                for r in refs:
                    src = src.replace(r, name)
                own_only = f"'{name}' in {cls_name}.__dict__" in ast.unparse(hook.node) or f'"{name}" in {cls_name}.__dict__' in ast.unparse(hook.node).replace("'", '"')
                wraps.append((name, ast.parse(src, mode="eval").body, own_only))
            for name, expr, own_only in wraps:
                for c in self.classes.values():
                    if c is base or base not in c.mro():
                        continue
                    m = c.methods.get(name)
                    if m is not None:
                        m.rebinds.append(expr)
                    elif not own_only:
                        raise AnalysisError(f"{hook.qualname}: wraps the inherited {name} of {c.name} - not modelled")

    def _star_names(self, modname):
        """the names `from modname import *` binds, for a module of the package (else nothing)"""
        src = self.modules.get(modname)
        if src is None:
            return []
        names, explicit = [], None
        for st in src.tree.body:
            if isinstance(st, ast.Assign) and any(isinstance(t, ast.Name) and t.id == "__all__" for t in st.targets) and isinstance(st.value, (ast.List, ast.Tuple)):
                explicit = [e.value for e in st.value.elts if isinstance(e, ast.Constant) and isinstance(e.value, str)]
        if explicit is not None:
            return explicit

        def walk(stmts):
            for st in stmts:
                if isinstance(st, (ast.FunctionDef, ast.AsyncFunctionDef, ast.ClassDef)):
                    names.append(st.name)
                elif isinstance(st, ast.Assign):
                    for t in st.targets:
                        for e in ([t] if isinstance(t, ast.Name) else (t.elts if isinstance(t, (ast.Tuple, ast.List)) else [])):
                            if isinstance(e, ast.Name):
                                names.append(e.id)
                elif isinstance(st, ast.AnnAssign) and isinstance(st.target, ast.Name):
                    names.append(st.target.id)
                elif isinstance(st, ast.Import):
                    names.extend((a.asname or a.name.split(".")[0]) for a in st.names)
                elif isinstance(st, ast.ImportFrom):
                    names.extend((a.asname or a.name) for a in st.names if a.name != "*")
                elif isinstance(st, ast.If):
                    walk(st.body)
                    walk(st.orelse)
                elif isinstance(st, ast.Try):
                    walk(st.body)
                    for h in st.handlers:
                        walk(h.body)
                    walk(st.orelse)

        walk(src.tree.body)
        seen, out = set(), []
        for n in names:
            if not n.startswith("_") and n not in seen and n != "annotations":
                seen.add(n)
                out.append(n)
        return out

    def _index_alternatives(self, m):
        """Names that the arms of one module-level `if / else` or `try / except` bind differently (a version gate, a
        compatibility fallback): which arm runs depends on the installation, so a use of the name is a trace partition
        over the alternatives - every one of them has to satisfy whatever is claimed."""

        def bound(stmts):
            out = {}
            for st in stmts:
                if isinstance(st, (ast.FunctionDef, ast.AsyncFunctionDef)):
                    out[st.name] = ("func", st)
                elif isinstance(st, ast.ImportFrom):
                    for a in st.names:
                        out[a.asname or a.name] = ("import", (st, a))
                elif isinstance(st, ast.Import):
                    for a in st.names:
                        if a.asname:
                            out[a.asname] = ("importmod", a.name)
                elif isinstance(st, ast.Assign) and len(st.targets) == 1 and isinstance(st.targets[0], ast.Name):
                    out[st.targets[0].id] = ("const", st.value)
            return out

        for node in m.tree.body:
            arms = []
            if isinstance(node, ast.If) and node.orelse:
                if "TYPE_CHECKING" in ast.unparse(node.test):
                    continue
                t = ast.unparse(node.test)[:60]
                arms = [(f"{t}", bound(node.body)), (f"not ({t})", bound(node.orelse))]
            elif isinstance(node, ast.Try) and node.handlers:
                arms = [(f"try block at line {node.lineno} succeeds", bound(node.body + node.orelse))]
                for h in node.handlers:
                    arms.append((f"{ast.unparse(h.type) if h.type is not None else 'exception'} in try block at line {node.lineno}", bound(h.body)))
            if len(arms) < 2:
                continue
            names = set()
            for _l, b in arms:
                names |= set(b)
            for nm in names:
                alts = [(lab, *b[nm]) for lab, b in arms if nm in b]
                if len(alts) >= 2:
                    m.alternatives[nm] = alts

    def _index_function(self, node, m, cls, parent, prefix):
        q = f"{prefix}.{node.name}"
        k = 2
        while q in self.functions:  # two defs of the same name (e.g. one per branch): keep both
            q = f"{prefix}.{node.name}#{k}"
            k += 1
        fi = FunctionInfo(node.name, q, node, m, cls, parent)
        q0 = f"{prefix}.{node.name}"
        if q != q0 and parent is None and not getattr(node, "_bb_conditional", False) and not getattr(node, "_bb_fallback", False):
            # an unconditional second def of the same name replaces the first: the plain qualified name is the last one
            old = self.functions[q0]
            old.qualname = q
            self.functions[q] = old
            fi.qualname = q = q0
        self.functions[q] = fi
        self.by_node[id(node)] = fi
        if parent is not None:
            parent.nested[node.name] = fi
        elif cls is not None:
            cls.methods[mangle(node.name, cls.name)] = fi
        else:
            m.functions[node.name] = fi
        for sub in _direct_defs(node):
            self._index_function(sub, m, cls, fi, q)
        return fi

    def _index_class(self, node, m, outer, prefix):
        q = f"{prefix}.{node.name}"
        ci = ClassInfo(node.name, q, node, m, outer=outer)
        self.classes[q] = ci
        if outer is not None:
            outer.nested[node.name] = ci
        else:
            m.classes[node.name] = ci
        for d in node.decorator_list:
            dn = d.func if isinstance(d, ast.Call) else d
            if (isinstance(dn, ast.Name) and dn.id == "dataclass") or (
                isinstance(dn, ast.Attribute) and dn.attr == "dataclass"
            ):
                ci.is_dataclass = True
        for st in node.body:
            if isinstance(st, (ast.FunctionDef, ast.AsyncFunctionDef)):
                self._index_function(st, m, ci, None, q)
            elif isinstance(st, ast.ClassDef):
                self._index_class(st, m, ci, q)
            elif isinstance(st, ast.AnnAssign) and isinstance(st.target, ast.Name):
                ci.fields.append(st.target.id)
                if st.value is not None:
                    ci.class_attrs[mangle(st.target.id, ci.name)] = st.value
            elif isinstance(st, ast.Assign) and len(st.targets) == 1 and isinstance(st.targets[0], ast.Name):
                nm = mangle(st.targets[0].id, ci.name)
                if nm in ci.methods:
                    ci.methods[nm].rebinds.append(st.value)  # method = wrap(method) in the class body
                else:
                    ci.class_attrs[nm] = st.value
        return ci

    def _resolve_bases(self, c: ClassInfo):
        for b in c.node.bases:
            q = self.resolve_expr_name(b, c.module)
            tgt = self.classes.get(q) if q else None
            c.bases.append(tgt if tgt is not None else (q or ast.unparse(b)))

    # ------------------------------------------------------------------ name resolution
    def canonical(self, dotted: str) -> str:
        """Follow re-exports inside the package and expand well-known aliases."""
        seen = set()
        while dotted not in seen:
            seen.add(dotted)
            if dotted in self.functions or dotted in self.classes:
                return dotted
            parts = dotted.split(".")
            for k in range(len(parts) - 1, 0, -1):
                modname = ".".join(parts[:k])
                if modname in self.modules:
                    m = self.modules[modname]
                    head, rest = parts[k], parts[k + 1 :]
                    if head in m.imports:
                        dotted = ".".join([m.imports[head]] + rest)
                        break
                    if head in m.constants and isinstance(m.constants[head], ast.Name):
                        dotted = ".".join([modname, m.constants[head].id] + rest)  # alias: X = Y
                        break
            else:
                break
        # the same routine under its former name (scipy / numpy renames): one identity for the rules
        return _RENAMED.get(dotted, dotted)

    def resolve_expr_name(self, node, m: ModuleInfo) -> str | None:
        """Dotted qualified name of a Name/Attribute chain at module scope, or None."""
        parts = []
        while isinstance(node, ast.Attribute):
            parts.append(node.attr)
            node = node.value
        if not isinstance(node, ast.Name):
            return None
        parts.reverse()
        head = node.id
        if head in m.imports:
            base = m.imports[head]
        elif head in m.functions or head in m.classes or head in m.constants:
            base = f"{m.name}.{head}"
        else:
            return None
        return self.canonical(".".join([base] + parts))

    def func(self, qualname: str) -> FunctionInfo:
        f = self.functions.get(qualname)
        if f is None:
            raise AnalysisError(f"anchor function {qualname} not found in {self.root}")
        return f

    def cls(self, qualname: str) -> ClassInfo:
        c = self.classes.get(qualname)
        if c is None:
            raise AnalysisError(f"anchor class {qualname} not found in {self.root}")
        return c

    def module(self, name: str) -> ModuleInfo:
        m = self.modules.get(name)
        if m is None:
            raise AnalysisError(f"anchor module {name} not found in {self.root}")
        return m

    def stats(self):
        return {
            "modules": len(self.modules),
            "functions": len(self.functions),
            "classes": len(self.classes),
            "call_sites": self.n_calls,
        }


def _direct_defs(fnode):
    """FunctionDefs nested directly (not inside another def/class) in fnode's body."""
    out = []

    def walk(stmts):
        for s in stmts:
            if isinstance(s, (ast.FunctionDef, ast.AsyncFunctionDef)):
                out.append(s)
            elif isinstance(s, ast.ClassDef):
                continue
            else:
                for fld in ("body", "orelse", "finalbody"):
                    walk(getattr(s, fld, []) or [])
                for h in getattr(s, "handlers", []) or []:
                    walk(h.body)

    walk(fnode.body)
    return out


def unreachable_after_raise(fnode) -> bool:
    """True if the function body starts (after a docstring) with an unconditional raise."""
    body = fnode.body
    i = 0
    if body and isinstance(body[0], ast.Expr) and isinstance(body[0].value, ast.Constant) and isinstance(body[0].value.value, str):
        i = 1
    return i < len(body) and isinstance(body[i], ast.Raise)
