"""Obligations, verdict protocol, known findings, evidence and replay files."""
from __future__ import annotations

import hashlib
import json
import os
import time
import traceback
from dataclasses import dataclass, field

from . import nf
from .model import AnalysisError, Program

VERIF = os.path.dirname(os.path.dirname(os.path.abspath(__file__)))
KNOWN_FINDINGS = os.path.join(VERIF, "known_findings.json")


def out_dir():
    """Evidence and replay files go to /verif, except for self-test runs on scratch copies."""
    return os.environ.get("BB_OUT_DIR", VERIF)


@dataclass
class Oblig:
    """One rule instance: a named construct checked against one rule."""

    rule: str  # e.g. "C13-a"
    construct: str  # function qualname + descriptor; stable under reformatting (never a line number)
    where: str  # file:line, for the reader only
    status: str  # holds | violated
    what: str  # the obligation in words
    detail: dict = field(default_factory=dict)  # normal forms / path / bound arguments
    nontrivial: bool = True
    signature: str = ""  # residual signature: distinguishes *how* it fails (known-findings key)

    def key(self):
        return f"{self.rule}|{self.construct}|{self.signature}"

    def as_sample(self):
        d = {"rule": self.rule, "construct": self.construct, "where": self.where, "status": self.status, "obligation": self.what}
        d.update({k: (v if isinstance(v, (int, float, bool, list, dict)) else str(v)[:600]) for k, v in self.detail.items()})
        return d


class Ctx:
    """Per-run context handed to a property's rules."""

    def __init__(self, prop: str, program: Program, tier: str):
        self.prop = prop
        self.P = program
        self.tier = tier
        self.obligs: list[Oblig] = []
        self.functions = set()
        self.assumptions = []
        self.skipped = []
        self.notes = []
        self.call_sites = 0

    def touch(self, *qualnames):
        self.functions.update(qualnames)

    def assume(self, text):
        if text not in self.assumptions:
            self.assumptions.append(text)

    def ok(self, rule, construct, where, what, nontrivial=True, **detail):
        self.obligs.append(Oblig(rule, construct, where, "holds", what, detail, nontrivial))

    def bad(self, rule, construct, where, what, signature="", **detail):
        self.obligs.append(Oblig(rule, construct, where, "violated", what, detail, True, signature))

    def check(self, cond, rule, construct, where, what, signature="", nontrivial=True, **detail):
        if cond:
            self.ok(rule, construct, where, what, nontrivial, **detail)
        else:
            self.bad(rule, construct, where, what, signature, **detail)
        return cond

    def identity(self, rule, construct, where, what, lhs, rhs, **detail):
        """lhs == rhs as exact normal forms."""
        d = nf.sub(lhs, rhs)
        nf.budget(2_000_000)
        try:
            res = nf.clear_denominators(d)
        finally:
            nf.budget(None)
        det = dict(detail)
        det["lhs"] = nf.show(lhs, 500)
        det["rhs"] = nf.show(rhs, 500)
        if not res:
            self.ok(rule, construct, where, what, nf.size(lhs) + nf.size(rhs) >= 2, **det)
            return True
        det["residual"] = nf.show(d, 700)
        self.bad(rule, construct, where, what, signature=nf.show(d, 300), **det)
        return False

    def has_new_violation(self):
        """a violated obligation that is not one of the listed known findings"""
        kf = [e for e in load_known().get("findings", []) if e.get("property") == self.prop]
        return any(o.status == "violated" and not any(_match(e, o) for e in kf) for o in self.obligs)

    def floor(self, rule, found, floor, what):
        if self.has_new_violation():
            return  # a positive finding is reported as such; dependent instances may be missing
        if found < floor:
            raise AnalysisError(f"{rule}: only {found} instance(s) of '{what}' found, floor is {floor} - anchors moved, rule would pass vacuously")


def load_known():
    if not os.path.exists(KNOWN_FINDINGS):
        return {"findings": [], "fixed": []}
    with open(KNOWN_FINDINGS) as fh:
        return json.load(fh)


def _match(entry, o: Oblig):
    if entry.get("rule") != o.rule or entry.get("construct") != o.construct:
        return False
    sig = entry.get("signature")
    return sig is None or sig == o.signature


def write_replay(prop, o: Oblig):
    d = os.path.join(out_dir(), "replays")
    os.makedirs(d, exist_ok=True)
    h = hashlib.sha1(o.key().encode()).hexdigest()[:10]
    path = os.path.join(d, f"{prop}-{o.rule}-{h}.json")
    with open(path, "w") as fh:
        json.dump(
            {
                "property": prop,
                "rule": o.rule,
                "construct": o.construct,
                "where": o.where,
                "obligation": o.what,
                "signature": o.signature,
                "detail": o.as_sample(),
                "repo": os.environ.get("BB_REPO", "/repo"),
                "rederive": f"cd /verif && BB_REPO={os.environ.get('BB_REPO', '/repo')} /venv/bin/python -m bbstatic check {prop}",
            },
            fh,
            indent=1,
        )
    return path


def finish(prop, ctx: Ctx, level, t0, seed, extra_cov=None, extra_exit=0):
    """Print the verdict, write evidence; returns the exit code."""
    known = load_known()
    kf = [e for e in known.get("findings", []) if e.get("property") == prop]
    violated = [o for o in ctx.obligs if o.status == "violated"]
    new, matched = [], []
    for o in violated:
        e = next((e for e in kf if _match(e, o)), None)
        (matched if e else new).append((o, e))
    for o, e in matched:
        print(f"KNOWN-FINDING: property={prop} {o.rule} {o.construct}: {e.get('what', o.what)} [{o.where}]")
    gone = [e for e in kf if not any(_match(e, o) for o in violated)]
    for e in gone:
        print(f"note: listed finding {e['rule']} {e['construct']} is no longer present (repaired?)")
    for o, _ in new:
        path = write_replay(prop, o)
        print(f"VIOLATION property={prop} replay={path}")
        print(f"  rule {o.rule} at {o.where} ({o.construct}): {o.what}")
        for k, v in o.detail.items():
            print(f"    {k}: {str(v)[:400]}")
    n_ob = len(ctx.obligs)
    n_ok = sum(o.status == "holds" for o in ctx.obligs)
    distinct = len({o.key() for o in ctx.obligs if o.nontrivial})
    samples = [o.as_sample() for o in ctx.obligs]
    # keep evidence readable: every violated obligation, and up to 40 others
    samples = [s for s in samples if s["status"] != "holds"] + [s for s in samples if s["status"] == "holds"][:40]
    cov = {
        "explanation": (
            f"Static analysis of the source under {ctx.P.root} (nothing imported or executed): "
            f"{n_ob} rule instances of property {prop} were located, analysed and compared with their oracle; "
            f"{n_ok} hold, {len(matched)} are listed known findings, {len(new)} are new violations."
        ),
        "obligations": n_ob,
        "discharged": n_ok,
        "evaluations": n_ob,
        "distinct_nontrivial": distinct,
        "rule": "one evaluation = one rule instance (rule id x named construct); non-trivial = the compared normal forms "
        "contain at least two atoms, or the instance is a resolved call site / path / effect fact (not a constant)",
        "samples": samples,
        "functions_analysed": sorted(ctx.functions),
        "program": ctx.P.stats(),
        "unreachable_skipped": ctx.skipped,
        "known_findings_matched": [o.key() for o, _ in matched],
        "rules": sorted({o.rule for o in ctx.obligs}),
        "checker_cmd": f"/venv/bin/python -m bbstatic check {prop} --tier quick",
        "trusted_base": [
            "CPython ast/fractions/decimal",
            "bbstatic normal form (nf.py), abstract interpreter (symeval.py) and rule tables",
            "positive-base assumption for power laws",
        ],
        "exhaustive": True,
        "notes": ctx.notes,
    }
    if extra_cov:
        cov.update(extra_cov)
    ev = {
        "property_id": prop,
        "tier": ctx.tier,
        "seed": seed,
        "level": level,
        "coverage": cov,
        "assumptions": ctx.assumptions,
        "wall_s": round(time.time() - t0, 3),
        "violations": len(new),
    }
    os.makedirs(os.path.join(out_dir(), "evidence"), exist_ok=True)
    with open(os.path.join(out_dir(), "evidence", f"{prop}.json"), "w") as fh:
        json.dump(ev, fh, indent=1, default=str)
    print(
        f"{prop}: {n_ob} obligations, {n_ok} hold, {len(matched)} known findings, {len(new)} violations "
        f"({len(ctx.functions)} functions analysed, {ev['wall_s']} s)"
    )
    return 1 if new else extra_exit


def analysis_error(prop, tier, seed, t0, err, level="other"):
    print(f"ANALYSIS-ERROR property={prop}: {err}")
    ev = {
        "property_id": prop,
        "tier": tier,
        "seed": seed,
        "level": level,
        "coverage": {"explanation": f"analysis failed closed (no verdict): {err}", "evaluations": 0, "distinct_nontrivial": 0, "samples": []},
        "wall_s": round(time.time() - t0, 3),
        "violations": 0,
    }
    os.makedirs(os.path.join(out_dir(), "evidence"), exist_ok=True)
    with open(os.path.join(out_dir(), "evidence", f"{prop}.json"), "w") as fh:
        json.dump(ev, fh, indent=1)
    return 2
