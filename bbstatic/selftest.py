"""Thorough tier: sensitivity self-test of a property's rules on scratch copies (mutants must fire,
behaviour-preserving twins must stay silent).  Corpus: /verif/selftest/corpus.py"""
from __future__ import annotations


def run_for_property(prop, seed):
    try:
        from selftest import runner  # /verif/selftest
    except Exception:
        return {"selftest": "corpus not available"}, 0
    return runner.run(prop, seed)
