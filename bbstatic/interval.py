"""Sign / interval abstract domain over normal forms (E5).

`ieval(p, env)` bounds a normal form over a box of symbol ranges with outward-rounded float interval
arithmetic (every elementary result is widened by one part in 1e12, so a strict inequality derived
from the bounds holds for the real-valued expression).  `factor_content` splits off the monomial
common to all terms first: the expanded normal form of  A(x) * exp(g(x))  otherwise suffers from the
dependency problem (every term would get its own copy of the common factor's range).
Used only for sign claims (positivity, monotonicity); never for equalities.
"""
from __future__ import annotations

import math
from fractions import Fraction as F

from . import nf


class IntervalError(Exception):
    pass


W = 1e-12


def _widen(lo, hi):
    return (lo - abs(lo) * W - 1e-300, hi + abs(hi) * W + 1e-300)


def _mul(a, b):
    c = [a[0] * b[0], a[0] * b[1], a[1] * b[0], a[1] * b[1]]
    return _widen(min(c), max(c))


def _add(a, b):
    return _widen(a[0] + b[0], a[1] + b[1])


def _pow(base, expo):
    """base ** expo for intervals; base must be positive unless expo is an integer point"""
    if expo[0] == expo[1] and float(expo[0]).is_integer():
        n = int(expo[0])
        if n >= 0:
            c = [base[0] ** n, base[1] ** n]
            if base[0] < 0 < base[1] and n % 2 == 0 and n > 0:
                return _widen(0.0, max(c))
            return _widen(min(c), max(c))
        if base[0] <= 0 <= base[1]:
            raise IntervalError("division by an interval containing zero")
        c = [base[0] ** n, base[1] ** n]
        return _widen(min(c), max(c))
    if base[0] <= 0:
        raise IntervalError("non-integer power of a base that may be non-positive")
    c = [base[0] ** expo[0], base[0] ** expo[1], base[1] ** expo[0], base[1] ** expo[1]]
    return _widen(min(c), max(c))


def ieval(p, env, fn_env=None):
    """(lo, hi) bounds of p; env: {symbol -> (lo, hi)}, fn_env: {fn atom name -> (lo, hi)}"""
    total = (0.0, 0.0)
    for m, c in p.items():
        term = (float(c), float(c))
        for atom, e in m:
            ev = ieval(nf.unkey(e), env, fn_env)
            term = _mul(term, _pow(_atom(atom, env, fn_env), ev))
        total = _add(total, term)
    return total


def _atom(atom, env, fn_env):
    if atom[0] == "sym":
        if atom[1] not in env:
            raise IntervalError(f"no range declared for symbol {atom[1]}")
        return tuple(map(float, env[atom[1]]))
    if atom[0] == "const":
        return (float(atom[1]), float(atom[1]))
    if atom[0] == "E":
        return _widen(math.e, math.e)
    if atom[0] == "sum":
        return ieval(nf.unkey(atom[1]), env, fn_env)
    if atom[0] == "fn":
        if fn_env and atom[1] in fn_env:
            return tuple(map(float, fn_env[atom[1]]))
        if atom[1] == "log":
            a = ieval(nf.unkey(atom[2][0]), env, fn_env)
            if a[0] <= 0:
                raise IntervalError("log of an interval reaching zero")
            return _widen(math.log(a[0]), math.log(a[1]))
        if atom[1] in ("clip",) and len(atom[2]) == 3:
            lo, hi = nf.unkey(atom[2][1]), nf.unkey(atom[2][2])
            if nf.is_const(lo) and nf.is_const(hi):
                return (float(nf.cval(lo)), float(nf.cval(hi)))
        raise IntervalError(f"no range declared for {atom[1]}(...)")
    raise IntervalError(f"unknown atom {atom[0]}")


def factor_content(p):
    """(content monomial as Poly, rest) with p == content * rest; content collects, for every atom common
    to all terms with constant exponents, its minimal exponent (and atoms with identical symbolic exponents)."""
    monos = list(p)
    if not monos:
        return nf.ONE, p
    common = []
    for atom, ex in monos[0]:
        exs = [dict(m).get(atom) for m in monos]
        if all(x is not None for x in exs):
            if all(x == ex for x in exs):
                common.append((atom, ex))
            elif all(nf.is_const(nf.unkey(x)) for x in exs):
                common.append((atom, nf.key(nf.const(min(nf.cval(nf.unkey(x)) for x in exs)))))
    if not common:
        return nf.ONE, p
    gm = tuple(sorted(common, key=nf.rk))
    ginv = tuple((a, nf.key(nf.neg(nf.unkey(x)))) for a, x in gm)
    rest = {}
    for m, c in p.items():
        mm = nf.mono_mul(m, ginv)
        rest[mm] = rest.get(mm, 0) + c
    return {gm: F(1)}, rest


def sign(p, env, fn_env=None):
    """'+', '-', '0' or '?' for p over the box"""
    if not p:
        return "0"
    content, rest = factor_content(p)
    try:
        c = ieval(content, env, fn_env)
        r = ieval(rest, env, fn_env)
    except IntervalError:
        return "?"
    lo, hi = _mul(c, r)
    if lo > 0:
        return "+"
    if hi < 0:
        return "-"
    return "?"
