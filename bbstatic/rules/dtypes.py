"""Shared dtype-lattice rule (C11-a, also C12-e): result buffers never inherit a caller's dtype."""
from __future__ import annotations

from .. import nf
from ..model import AnalysisError
from ..values import Arr2, Buf, Num, Vec
from .common import interp, returns

FLOAT_MARKS = ("float64", "<ext float>", "numpy.double", "'f8'", "'float64'", "'d'", "numpy.float_", "numpy.longdouble")


def check_module_buffers(ctx, rule, module_name, floor=0):
    """Interpret every top-level function of the module in array mode; inspect np.*_like allocations."""
    P = ctx.P
    m = P.module(module_name)
    seen = {}
    import ast as _ast

    n_sites = 0
    for fname, fi in sorted(m.functions.items()):
        # only functions that syntactically allocate with np.*_like can contribute an instance
        alloc_names = ("empty", "zeros", "ones", "full")
        allocs = [n for n in _ast.walk(fi.node) if isinstance(n, _ast.Call) and isinstance(n.func, _ast.Attribute) and (n.func.attr.endswith("_like") or n.func.attr in alloc_names)]
        n_sites += len(allocs)
        if not any(n.func.attr.endswith("_like") for n in allocs):
            continue
        for mode in (True, False):
            it = interp(ctx, array_mode=mode)
            try:
                paths = it.run_function(fi.qualname)
            except AnalysisError:
                continue
            ctx.touch(fi.qualname)
            params = set(fi.params)
            for p in paths:
                for e in p.events:
                    if e.kind != "alloc" or not e.data["callee"].endswith("_like") or not e.func.startswith(module_name + "."):
                        continue
                    buf = e.data["buf"]
                    key = (e.func, e.node.lineno, e.node.col_offset)
                    proto = buf.proto
                    pn = it.to_nf(proto) if proto is not None else {}
                    # the prototype derives from a caller's array iff its term mentions a parameter of the function that allocates
                    owner = P.functions.get(e.func)
                    oparams = set(owner.params) if owner else params
                    from_param = bool(nf.symbols(pn) & oparams) and not isinstance(proto, Vec)
                    kw = buf.kwargs or {}
                    dt = kw.get("dtype")
                    dts = nf.show(it.to_nf(dt), 60) if dt is not None else ""
                    is_float = dt is not None and any(t in dts for t in FLOAT_MARKS)
                    stored = bool(getattr(buf, "items", None)) or bool(getattr(buf, "parts", None)) or isinstance(buf, Arr2)
                    fill = getattr(buf, "fill", None)
                    int_fill = isinstance(fill, Num) and nf.as_int(fill.nf) is not None and e.data["callee"] != "numpy.full_like"
                    if e.data["callee"] == "numpy.full_like":
                        int_fill = False
                    needs = from_param and (stored or not int_fill)
                    rec = seen.setdefault(key, {"needs": False, "float": is_float, "callee": e.data["callee"], "dtype": dts, "proto": nf.show(pn, 80), "func": e.func})
                    rec["needs"] = rec["needs"] or needs
    n = 0
    for (func, line, _c), rec in sorted(seen.items()):
        n += 1
        ok = (not rec["needs"]) or rec["float"]
        ctx.check(
            ok, rule, f"{func}:{rec['callee'].split('.')[-1]}({rec['proto']})", f"{m.relpath}:{line}",
            "a result buffer allocated with np.*_like from a caller's array is given an explicit float dtype (it must not inherit an integer dtype and truncate the stored values)",
            signature="inherits dtype", dtype=rec["dtype"] or "inherited", receives_stores_or_float_fill=rec["needs"],
        )
    ctx.floor(rule, n_sites, floor, f"result-buffer allocations (np.empty/zeros/full[_like]) in {module_name}")
    if n == 0 and n_sites:
        ctx.ok(rule, f"{module_name}:no inherited-dtype allocation", m.relpath, "no result buffer is allocated with np.*_like (explicit shapes default to float64)", nontrivial=False, allocation_sites=n_sites)
    return n


def check_vectorize(ctx, rule, module_names):
    """np.vectorize(f) without `otypes` takes the output dtype from the FIRST element's result: a function that returns
    an integer literal on one branch and floats on another yields an integer array (every float truncated) whenever
    the first element takes the integer branch.  Every return of a vectorised function must be float-valued."""
    import ast

    n = 0
    for mn in module_names:
        m = ctx.P.module(mn)
        defs = {}
        for node in ast.walk(m.tree):
            if isinstance(node, (ast.FunctionDef, ast.Lambda)):
                defs.setdefault(getattr(node, "name", None), []).append(node)
        for node in ast.walk(m.tree):
            if not (isinstance(node, ast.Call) and ast.unparse(node.func) in ("np.vectorize", "numpy.vectorize")):
                continue
            ot = next((k.value for k in node.keywords if k.arg == "otypes"), None)
            if isinstance(ot, ast.Constant) and ot.value is None:
                ot = None  # otypes=None spelled out: the default
            if ot is not None:
                # a stated output type is cast to silently: it has to be double, literally (not the type of an argument,
                # an integer pressure grid would truncate every result)
                DOUBLE = {"float", "np.float64", "numpy.float64", "np.double", "numpy.double", "np.float_", "'d'", "'float64'", "'f8'", "'float'", "'double'"}
                ents = ot.elts if isinstance(ot, (ast.List, ast.Tuple)) else [ot]
                okd = all(ast.unparse(e).replace('"', "'") in DOUBLE for e in ents) and not (isinstance(ot, ast.Constant) and isinstance(ot.value, str) and set(ot.value) - {"d"})
                n += 1
                ctx.check(
                    okd, rule, f"{mn}:np.vectorize otypes at line {node.lineno}", f"{m.relpath}:{node.lineno}",
                    "the output type stated for a vectorised correlation is double (results are cast to it without a warning)",
                    signature="otypes " + ast.unparse(ot)[:60], otypes=ast.unparse(ot)[:120],
                )
                continue
            if not node.args:
                continue
            target = node.args[0]
            cands = [target] if isinstance(target, ast.Lambda) else defs.get(getattr(target, "id", None), [])
            n += 1
            ints = []
            for fn in cands:
                rets = [fn.body] if isinstance(fn, ast.Lambda) else [r.value for r in ast.walk(fn) if isinstance(r, ast.Return) and r.value is not None]
                for r in rets:
                    for leaf in ([r.body, r.orelse] if isinstance(r, ast.IfExp) else [r]):
                        v = leaf.operand if isinstance(leaf, ast.UnaryOp) else leaf
                        if isinstance(v, ast.Constant) and isinstance(v.value, int) and not isinstance(v.value, bool):
                            ints.append(f"line {leaf.lineno}: return {ast.unparse(leaf)}")
            ctx.check(
                not ints, rule, f"{mn}:np.vectorize at line {node.lineno}", f"{m.relpath}:{node.lineno}",
                "a function wrapped in np.vectorize (no otypes) returns floats on every branch: the output dtype is inferred from the first element only",
                signature="integer literal returned by a vectorised function", returns=ints,
            )
    return n


def check_masked_calls(ctx, rule, module_names):
    """numpy's masked-assignment helpers have positional semantics that differ from `a[mask] = values`:
    np.putmask(a, mask, values) takes values[n] for position n of `a` (values is full-size or scalar: handing it the values
    packed by the mask misplaces them unless the masked entries form a prefix); np.place(a, mask, vals) consumes vals in
    order (vals is packed: handing it a full-size array takes its first N entries); np.piecewise(x, ...) allocates its
    result with x's dtype (an integer pressure grid truncates every value).  Reported per call site; expected count zero."""
    import ast

    n = 0

    def local_defs(fnode):
        """names assigned exactly once (plain `name = expr`) in the function: they can be read through"""
        count, defs = {}, {}
        for x in ast.walk(fnode):
            targets = []
            if isinstance(x, ast.Assign):
                for t in x.targets:
                    targets += [y for y in ast.walk(t) if isinstance(y, ast.Name)]
                if len(x.targets) == 1 and isinstance(x.targets[0], ast.Name):
                    defs[x.targets[0].id] = x.value
            elif isinstance(x, (ast.AugAssign, ast.AnnAssign, ast.For, ast.NamedExpr)):
                targets += [y for y in ast.walk(x.target) if isinstance(y, ast.Name)]
            for y in targets:
                count[y.id] = count.get(y.id, 0) + 1
        return {k: v for k, v in defs.items() if count.get(k) == 1}

    def expand(e, defs, depth=0):
        if depth > 6:
            return e

        class T(ast.NodeTransformer):
            def visit_Name(self, nd):
                if isinstance(nd.ctx, ast.Load) and nd.id in defs:
                    return expand(defs[nd.id], defs, depth + 1)
                return nd

        import copy as _copy

        return T().visit(_copy.deepcopy(e))

    for mn in module_names:
        m = ctx.P.module(mn)
        owner = {}
        for fnode in ast.walk(m.tree):
            if isinstance(fnode, (ast.FunctionDef, ast.AsyncFunctionDef)):
                for x in ast.walk(fnode):
                    owner[id(x)] = fnode  # innermost function wins (walk visits outer functions first)
        for node in ast.walk(m.tree):
            if not isinstance(node, ast.Call):
                continue
            fn = ast.unparse(node.func)
            if fn not in ("np.putmask", "numpy.putmask", "np.place", "numpy.place", "np.piecewise", "numpy.piecewise"):
                continue
            defs = local_defs(owner[id(node)]) if id(node) in owner else {}
            n += 1
            where = f"{m.relpath}:{node.lineno}"
            short = fn.split(".")[-1]
            if short == "piecewise":
                x = node.args[0] if node.args else None
                floaty = x is not None and any(k in ast.unparse(x) for k in ("float", "astype"))
                ctx.check(floaty, rule, f"{mn}:np.piecewise at line {node.lineno}", where, "np.piecewise allocates its result with the dtype of its first argument: that argument is converted to float first", signature="piecewise dtype", argument=ast.unparse(x)[:60] if x is not None else "")
                continue
            if len(node.args) < 3:
                continue
            mask, vals = expand(node.args[1], defs), expand(node.args[2], defs)
            mask_txt = ast.unparse(mask)
            packed = any(isinstance(s, ast.Subscript) and ast.unparse(s.slice) == mask_txt for s in ast.walk(vals))
            scalar = isinstance(vals, ast.Constant) or (isinstance(vals, ast.UnaryOp) and isinstance(vals.operand, ast.Constant))
            if short == "putmask":
                ctx.check(not packed, rule, f"{mn}:np.putmask at line {node.lineno}", where, "np.putmask is given full-size (or scalar) values: values[n] goes to position n", signature="putmask with packed values", values=ast.unparse(vals)[:80])
            else:
                ctx.check(packed or scalar, rule, f"{mn}:np.place at line {node.lineno}", where, "np.place is given values packed by the same mask (it consumes them in order)", signature="place with unpacked values", values=ast.unparse(vals)[:80])
    return n


NARROW_NAMES = {"float32", "float16", "single", "half", "csingle", "complex64"}
NARROW_CODES = {"f", "f4", "f2", "e", "float32", "float16", "single", "half", "<f4", ">f4", "=f4", "<f2", ">f2", "=f2", "F", "c8", "complex64"}
_DTYPE_TAKERS = {
    "astype", "dtype", "asarray", "asanyarray", "array", "ascontiguousarray", "empty", "zeros", "ones", "full", "empty_like", "zeros_like",
    "ones_like", "full_like", "arange", "linspace", "logspace", "fromiter", "frombuffer", "loadtxt", "view", "sum", "cumsum", "mean", "dot", "require",
}


def narrow_float_sites(tree):
    """[(lineno, text)] - places where a floating type narrower than double is named as a working / storage type"""
    import ast

    out = []
    for node in ast.walk(tree):
        if isinstance(node, ast.Attribute) and node.attr in NARROW_NAMES and isinstance(node.value, ast.Name) and node.value.id in ("np", "numpy"):
            out.append((node.lineno, ast.unparse(node)))
        elif isinstance(node, ast.Call):
            fname = node.func.attr if isinstance(node.func, ast.Attribute) else (node.func.id if isinstance(node.func, ast.Name) else "")
            cands = [k.value for k in node.keywords if k.arg == "dtype"]
            if fname in _DTYPE_TAKERS:
                cands += list(node.args)
            for c in cands:
                for x in ast.walk(c):
                    if isinstance(x, ast.Constant) and isinstance(x.value, str) and x.value in NARROW_CODES:
                        out.append((node.lineno, f"{fname}(... {x.value!r} ...)"))
    return sorted(set(out))


def check_precision(ctx, rule, module_names):
    """Shared rule D: the library computes and stores in double precision - nowhere does it name a narrower floating
    type (np.float32, dtype="f" / "f4" / "e", astype("float32") ...).  Every property that promises agreement 'to
    rounding error' is stated for doubles; a single-precision copy of a time grid, a profile or a table loses half the
    digits (and its differences lose all of them away from the origin).  Expected count zero, reported per site."""
    import ast

    src = "import numpy as np\ndef f(t):\n    a = np.asarray(t, dtype='f')\n    b = t.astype(np.float32)\n    c = np.empty(3, 'f4')\n    d = '%f' % 1.0\n    return a, b, c, d\n"
    if len(narrow_float_sites(ast.parse(src))) != 3:
        from ..model import AnalysisError

        raise AnalysisError("precision rule failed its built-in example")
    n = 0
    for mn in module_names:
        m = ctx.P.modules.get(mn)
        if m is None:
            continue
        n += 1
        sites = narrow_float_sites(m.tree)
        ctx.check(
            not sites, rule, f"{mn}:double precision throughout", m.relpath,
            "no floating type narrower than double is named as a working or storage type (np.float32 / 'f' / 'f4' / 'e' / astype('float32') ...)",
            signature="narrow float " + "; ".join(f"{t}" for _l, t in sites)[:160], sites=[f"line {l}: {t}" for l, t in sites],
        )
    return n


def bool_identity_sites(tree):
    """[(lineno, text)] - `<comparison> is True|False` (directly, or through a name bound once to a comparison in the same
    function): a comparison that involves a numpy scalar or array returns np.True_ / np.False_ / an array, none of which
    *is* the Python singleton - the test then fails for numpy numbers and holds for Python floats"""
    import ast

    out = []
    for fn in ast.walk(tree):
        if not isinstance(fn, (ast.FunctionDef, ast.AsyncFunctionDef, ast.Lambda)):
            continue
        cmps = {}
        body = fn.body if isinstance(fn.body, list) else [fn.body]
        for st in body:
            for n in ast.walk(st):
                if isinstance(n, ast.Assign) and len(n.targets) == 1 and isinstance(n.targets[0], ast.Name):
                    cmps.setdefault(n.targets[0].id, []).append(n.value)
        for st in body:
            for n in ast.walk(st):
                if not (isinstance(n, ast.Compare) and len(n.ops) == 1 and isinstance(n.ops[0], (ast.Is, ast.IsNot))):
                    continue
                l, r = n.left, n.comparators[0]
                for a, b in ((l, r), (r, l)):
                    if isinstance(b, ast.Constant) and (b.value is True or b.value is False):
                        e = a
                        if isinstance(e, ast.Name) and len(cmps.get(e.id, [])) == 1:
                            e = cmps[e.id][0]
                        arith = isinstance(e, ast.Compare) and not all(isinstance(o, (ast.Is, ast.IsNot, ast.In, ast.NotIn)) for o in e.ops)
                        if arith or (isinstance(e, ast.Call) and ast.unparse(e.func).split(".")[-1] in ("all", "any", "isnan", "isfinite", "isclose", "array_equal", "allclose", "bool_")):
                            out.append((n.lineno, ast.unparse(n)[:80]))
    return sorted(set(out))


def check_bool_identity(ctx, rule, module_names):
    """Shared rule D, second clause: no branch is selected by the *identity* of a comparison result with True / False."""
    import ast

    src = "\n".join([
        "import numpy as np",
        "def f(p, pb):",
        "    sat = p < pb",
        "    if sat is True:",
        "        return 1",
        "    if (p >= pb) is False:",
        "        return 2",
        "    flag = True",
        "    if flag is True:",
        "        return 3",
        "    return 0",
        "",
    ])
    if len(bool_identity_sites(ast.parse(src))) != 2:
        from ..model import AnalysisError

        raise AnalysisError("boolean-identity rule failed its built-in example")
    for mn in module_names:
        m = ctx.P.modules.get(mn)
        if m is None:
            continue
        sites = bool_identity_sites(m.tree)
        ctx.check(
            not sites, rule, f"{mn}:comparisons are tested by value", m.relpath,
            "no `(a < b) is True` / `is False`: with numpy numbers a comparison yields np.True_ / np.False_, which are not the Python singletons - the branch taken would depend on the numeric type of the argument",
            signature="bool identity " + "; ".join(t for _l, t in sites)[:160], sites=[f"line {l}: {t}" for l, t in sites],
        )


def permutation_twice_sites(tree):
    """[(lineno, text)] - `values_in_sorted_order[order]` with `order = np.argsort(...)`: the sorting permutation applied a
    second time where its inverse was meant (`out[order] = values`, or `values[np.argsort(order)]`)"""
    import ast

    out = []
    for fn in ast.walk(tree):
        if not isinstance(fn, (ast.FunctionDef, ast.AsyncFunctionDef)):
            continue
        orders = set()
        for n in ast.walk(fn):
            if isinstance(n, ast.Assign) and len(n.targets) == 1 and isinstance(n.targets[0], ast.Name) and isinstance(n.value, ast.Call):
                f = ast.unparse(n.value.func)
                if f.split(".")[-1] in ("argsort", "lexsort"):
                    orders.add(n.targets[0].id)
        if not orders:
            continue

        def mentions(e, names):
            for x in ast.walk(e):
                if isinstance(x, ast.Name) and x.id in names:
                    # .shape / .size / .dtype / len() of a sorted array carry no order
                    return True
            return False

        def strip_meta(e):
            """expression with x.shape / x.size / x.dtype / len(x) sub-expressions removed from consideration"""
            class T(ast.NodeTransformer):
                def visit_Attribute(self, nd):
                    if nd.attr in ("shape", "size", "dtype", "ndim"):
                        return ast.Constant(value=0)
                    return self.generic_visit(nd)

                def visit_Call(self, nd):
                    if isinstance(nd.func, ast.Name) and nd.func.id == "len":
                        return ast.Constant(value=0)
                    return self.generic_visit(nd)

            import copy

            return T().visit(copy.deepcopy(e))

        sorted_names = set()
        changed = True
        while changed:
            changed = False
            for n in ast.walk(fn):
                if isinstance(n, ast.Assign) and len(n.targets) == 1:
                    t, v = n.targets[0], strip_meta(n.value)
                    is_sorted = False
                    for x in ast.walk(v):
                        if isinstance(x, ast.Subscript) and isinstance(x.slice, ast.Name) and x.slice.id in orders:
                            is_sorted = True
                    if mentions(v, sorted_names):
                        is_sorted = True
                    name = t.id if isinstance(t, ast.Name) else (t.value.id if isinstance(t, ast.Subscript) and isinstance(t.value, ast.Name) and not (isinstance(t.slice, ast.Name) and t.slice.id in orders) else None)
                    if is_sorted and name is not None and name not in sorted_names and name not in orders:
                        sorted_names.add(name)
                        changed = True
        for n in ast.walk(fn):
            if isinstance(n, ast.Subscript) and isinstance(n.ctx, ast.Load) and isinstance(n.slice, ast.Name) and n.slice.id in orders:
                base = n.value
                while isinstance(base, (ast.Call, ast.Attribute)) and not isinstance(base, ast.Name):
                    base = base.func if isinstance(base, ast.Call) else base.value
                if isinstance(base, ast.Name) and base.id in sorted_names:
                    out.append((n.lineno, ast.unparse(n)[:60]))
    return sorted(set(out))


def check_unsort(ctx, rule, module_names):
    """Order rule (reported with rule G): values computed on argsort-ed data are brought back to the caller's order with
    the *inverse* permutation.  `sorted_values[order]` applies the sorting permutation twice - right only when it is its
    own inverse (ascending or exactly reversed input), which is what a quick test tries.  Expected count zero."""
    import ast

    src = "import numpy as np\ndef f(p):\n    order = np.argsort(p)\n    ps = p[order]\n    v = np.empty(ps.shape)\n    v[:] = ps * 2\n    good = np.empty_like(v)\n    good[order] = v\n    return v[order], good\n"
    if [t for _l, t in permutation_twice_sites(ast.parse(src))] != ["v[order]"]:
        from ..model import AnalysisError

        raise AnalysisError("un-sort rule failed its built-in example")
    for mn in module_names:
        m = ctx.P.modules.get(mn)
        if m is None:
            continue
        sites = permutation_twice_sites(m.tree)
        ctx.check(
            not sites, rule, f"{mn}:sorted results are un-sorted with the inverse permutation", m.relpath,
            "no value computed on argsort-ed data is indexed with the same `order` again (the inverse is out[order] = values)",
            signature="permutation applied twice " + "; ".join(t for _l, t in sites)[:140], sites=[f"line {l}: {t}" for l, t in sites],
        )


def check_like_over_integer_grid(ctx, rule, fi):
    """np.*_like(grid, ...) where `grid` is a local bound to np.arange / np.array / np.asarray of integer literals and
    names only (no float literal, no dtype): with integer arguments - a default such as 14_000 is one - the grid is an
    integer array, and an array shaped *and typed* like it truncates what is stored in it (a fractional temperature).
    Syntactic on purpose: exact arithmetic does not tell 10 from 10.0, the source does.  Decided only for the idiom it
    names; any other prototype is left to the buffer rule of the module."""
    import ast

    def float_free(call):
        if any(k.arg == "dtype" for k in call.keywords):
            return False
        for a in list(call.args) + [k.value for k in call.keywords]:
            for n in ast.walk(a):
                if isinstance(n, ast.Constant) and isinstance(n.value, float):
                    return False
                if isinstance(n, (ast.Call, ast.Attribute, ast.Subscript, ast.BinOp)) and not (isinstance(n, ast.BinOp) and not isinstance(n.op, (ast.Div, ast.Pow))):
                    return False  # a computed argument: its type is not visible here
        return bool(call.args)

    def np_call(n, names):
        return isinstance(n, ast.Call) and isinstance(n.func, ast.Attribute) and n.func.attr in names and isinstance(n.func.value, ast.Name) and n.func.value.id in ("np", "numpy")

    int_params = set()
    a = fi.node.args
    pos = list(a.posonlyargs) + list(a.args)
    for arg, d in list(zip(pos[len(pos) - len(a.defaults):], a.defaults)) + [(k, d) for k, d in zip(a.kwonlyargs, a.kw_defaults) if d is not None]:
        if isinstance(d, ast.Constant) and isinstance(d.value, int) and not isinstance(d.value, bool):
            int_params.add(arg.arg)
    grids = {}
    for n in ast.walk(fi.node):
        if isinstance(n, ast.Assign) and len(n.targets) == 1 and isinstance(n.targets[0], ast.Name):
            nm = n.targets[0].id
            v = n.value
            if np_call(v, ("arange",)) and float_free(v):
                names = {x.id for a_ in v.args for x in ast.walk(a_) if isinstance(x, ast.Name)}
                grids.setdefault(nm, []).append(names <= int_params)
            else:
                grids.setdefault(nm, []).append(False)
    n_sites = 0
    for n in ast.walk(fi.node):
        if not (np_call(n, ("full_like", "empty_like", "zeros_like", "ones_like")) and n.args and isinstance(n.args[0], ast.Name)):
            continue
        n_sites += 1
        g = n.args[0].id
        has_float_dtype = any(k.arg == "dtype" and any(t in ast.unparse(k.value) for t in ("float", "double")) for k in n.keywords) or (
            n.func.attr == "full_like" and len(n.args) >= 3 and any(t in ast.unparse(n.args[2]) for t in ("float", "double"))
        )
        integer_fill = n.func.attr == "full_like" and len(n.args) >= 2 and isinstance(n.args[1], ast.Constant) and isinstance(n.args[1].value, int)
        int_grid = bool(grids.get(g)) and all(grids[g])
        ctx.check(
            not int_grid or has_float_dtype or integer_fill, rule, f"{fi.qualname}:{n.func.attr}({g})", f"{fi.file}:{n.lineno}",
            "an array allocated like the pressure grid does not take an integer type from it: the grid is written with a floating literal (np.arange(10.0, ...)), or the allocation states a float dtype",
            signature="typed like an integer grid", grid=g,
        )
    return n_sites
