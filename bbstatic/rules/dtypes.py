"""Shared dtype-lattice rule (C11-a, also C12-e): result buffers never inherit a caller's dtype."""
from __future__ import annotations

from .. import nf
from ..model import AnalysisError
from ..values import Arr2, Buf, Num, Vec
from .common import interp, returns

FLOAT_MARKS = ("float64", "<ext float>", "numpy.double", "'f8'", "'float64'", "'d'", "numpy.float_", "numpy.longdouble")


def check_module_buffers(ctx, rule, module_name, floor=0):
    """Interpret every top-level function of the module in array mode; inspect np.*_like allocations."""
    P = ctx.P
    m = P.module(module_name)
    seen = {}
    import ast as _ast

    n_sites = 0
    for fname, fi in sorted(m.functions.items()):
        # only functions that syntactically allocate with np.*_like can contribute an instance
        alloc_names = ("empty", "zeros", "ones", "full")
        allocs = [n for n in _ast.walk(fi.node) if isinstance(n, _ast.Call) and isinstance(n.func, _ast.Attribute) and (n.func.attr.endswith("_like") or n.func.attr in alloc_names)]
        n_sites += len(allocs)
        if not any(n.func.attr.endswith("_like") for n in allocs):
            continue
        for mode in (True, False):
            it = interp(ctx, array_mode=mode)
            try:
                paths = it.run_function(fi.qualname)
            except AnalysisError:
                continue
            ctx.touch(fi.qualname)
            params = set(fi.params)
            for p in paths:
                for e in p.events:
                    if e.kind != "alloc" or not e.data["callee"].endswith("_like") or not e.func.startswith(module_name + "."):
                        continue
                    buf = e.data["buf"]
                    key = (e.func, e.node.lineno, e.node.col_offset)
                    proto = buf.proto
                    pn = it.to_nf(proto) if proto is not None else {}
                    # the prototype derives from a caller's array iff its term mentions a parameter of the function that allocates
                    owner = P.functions.get(e.func)
                    oparams = set(owner.params) if owner else params
                    from_param = bool(nf.symbols(pn) & oparams) and not isinstance(proto, Vec)
                    kw = buf.kwargs or {}
                    dt = kw.get("dtype")
                    dts = nf.show(it.to_nf(dt), 60) if dt is not None else ""
                    is_float = dt is not None and any(t in dts for t in FLOAT_MARKS)
                    stored = bool(getattr(buf, "items", None)) or bool(getattr(buf, "parts", None)) or isinstance(buf, Arr2)
                    fill = getattr(buf, "fill", None)
                    int_fill = isinstance(fill, Num) and nf.as_int(fill.nf) is not None and e.data["callee"] != "numpy.full_like"
                    if e.data["callee"] == "numpy.full_like":
                        int_fill = False
                    needs = from_param and (stored or not int_fill)
                    rec = seen.setdefault(key, {"needs": False, "float": is_float, "callee": e.data["callee"], "dtype": dts, "proto": nf.show(pn, 80), "func": e.func})
                    rec["needs"] = rec["needs"] or needs
    n = 0
    for (func, line, _c), rec in sorted(seen.items()):
        n += 1
        ok = (not rec["needs"]) or rec["float"]
        ctx.check(
            ok, rule, f"{func}:{rec['callee'].split('.')[-1]}({rec['proto']})", f"{m.relpath}:{line}",
            "a result buffer allocated with np.*_like from a caller's array is given an explicit float dtype (it must not inherit an integer dtype and truncate the stored values)",
            signature="inherits dtype", dtype=rec["dtype"] or "inherited", receives_stores_or_float_fill=rec["needs"],
        )
    ctx.floor(rule, n_sites, floor, f"result-buffer allocations (np.empty/zeros/full[_like]) in {module_name}")
    if n == 0 and n_sites:
        ctx.ok(rule, f"{module_name}:no inherited-dtype allocation", m.relpath, "no result buffer is allocated with np.*_like (explicit shapes default to float64)", nontrivial=False, allocation_sites=n_sites)
    return n
