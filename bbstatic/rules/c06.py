"""C06 - gas Z-factor is the root of the Dranchuk-Abou-Kassem equation of state.

Decided: (a) the residual handed to the root finder is the published 11-constant DAK equation
(exact identity in rho, Tr, pr, per power of rho); (c) the returned Z is 0.27 pr/(rho Tr) of the
solver's rho and the bracket straddles Z = 1; (d) the solver's outcome cannot be a bound or a guess:
bracketing root finder (root-or-exception) or validated optimiser result.
Not decided: root-ness over the rectangle (numeric), continuity, the limit Z -> 1, Hall-Yarbrough.
"""
from __future__ import annotations

import ast

from fractions import Fraction

from .. import nf
from ..model import AnalysisError
from ..values import ExtObj, Num
from .common import GAS, POSITIVE
from .gasdak import BRACKETING, PR, RHO, TR, UNVALIDATED, eos_residual, z_published

LEVEL = "other"


def check(ctx):
    P = ctx.P
    ctx.assume(POSITIVE)
    ctx.assume("oracle: Dranchuk & Abou-Kassem (1975) eleven-constant equation with the published constants")
    f = P.func(GAS + "z_factor_DAK")
    F, fi, ev, path = eos_residual(ctx)
    ctx.touch(fi.qualname)
    lead = nf.div(nf.mul(nf.const_text("0.27"), PR), nf.mul(TR, RHO))
    oracle = nf.sub(lead, z_published())

    # ---- C06-a residual == published equation (up to a non-vanishing factor)
    hit = None
    for name, k in (("1", nf.ONE), ("-1", nf.const(-1)), ("rho", RHO), ("-rho", nf.neg(RHO)), ("Tr*rho", nf.mul(TR, RHO)), ("-Tr*rho", nf.neg(nf.mul(TR, RHO)))):
        if nf.equal(F, nf.mul(oracle, k)):
            hit = name
            break
    if hit:
        ctx.ok("C06-a", GAS + "z_factor_DAK:residual", fi.where(), "the solved residual is 0.27 pr/(Tr rho) - Z_DAK(rho, Tr) (published equation)", factor=hit, residual_nf=nf.show(F, 500))
    else:
        d = nf.sub(F, oracle)
        # report per power of rho
        zc = nf.sub(lead, F)  # Z(rho) as coded
        dz = nf.sub(zc, z_published())
        ctx.bad(
            "C06-a", GAS + "z_factor_DAK:residual", fi.where(),
            "the solved residual is 0.27 pr/(Tr rho) - Z_DAK(rho, Tr) with the published coefficients",
            signature=nf.show(dz, 300), coded_minus_published_Z=nf.show(dz, 600), residual_nf=nf.show(F, 400),
        )

    # ---- C06-d outcome validated
    callee = ev.data["callee"]
    a = ev.data["args"]
    if callee in BRACKETING:
        quiet = False
        dv = a.get("disp")
        if dv is not None and not (hasattr(dv, "kind") and dv.kind == "const" and dv.a):
            # a silenced solver is still root-or-exception when the function itself raises on `not converged`
            quiet = not _raises_unless_converged(f.node)
        ctx.check(
            not quiet, "C06-d", GAS + "z_factor_DAK:solver outcome", f"{f.file}:{ev.line}",
            "the density comes from a bracketing root finder whose contract is root-or-exception (never a bound or a guess)",
            signature="disp=False", solver=callee,
        )
    else:
        ok = _validated(f.node)
        ctx.check(
            ok, "C06-d", GAS + "z_factor_DAK:solver outcome", f"{f.file}:{ev.line}",
            "the optimiser's result is used only after its success flag / residual has been tested with a failing arm that raises",
            signature="unvalidated " + callee, solver=callee,
        )

    # ---- C06-c Z defined from the same rho; bracket straddles Z = 1
    res = ev.data["result"]
    rho_atoms = [x for x in nf.atoms(path.value.nf) if x[0] == "fn" and x[1].startswith(callee)]
    if not isinstance(path.value, Num) or not rho_atoms:
        raise AnalysisError("z_factor_DAK: returned value does not depend on the solver result")
    r_atom = nf.atom_poly(rho_atoms[0])
    ctx.identity(
        "C06-c", GAS + "z_factor_DAK:return", f.where(),
        "returned Z == 0.27 pr / (rho Tr) with rho the solver's result (the first term of the residual)",
        path.value.nf, nf.div(nf.mul(nf.const_text("0.27"), PR), nf.mul(TR, r_atom)),
    )
    if callee in BRACKETING and "a" in a and "b" in a and isinstance(a["a"], Num) and isinstance(a["b"], Num):
        rho1 = nf.div(nf.mul(nf.const_text("0.27"), PR), TR)  # density at Z = 1
        lo, hi = nf.div(a["a"].nf, rho1), nf.div(a["b"].nf, rho1)
        ok = nf.is_const(lo) and nf.is_const(hi) and 0 < nf.cval(lo) < 1 < nf.cval(hi)
        ctx.check(
            ok, "C06-c", GAS + "z_factor_DAK:bracket", f"{f.file}:{ev.line}",
            "the bracket is [c1, c2] * 0.27 pr/Tr with constants 0 < c1 < 1 < c2 (it contains the ideal-gas density, Z = 1)",
            signature="bracket", lower=nf.show(lo), upper=nf.show(hi),
        )
    # ---- C06-k solver tolerances: the returned Z "satisfies the equation" only as well as the solve is tight
    if callee in BRACKETING:
        loose = []
        for kw, limit in (("xtol", Fraction(1, 10**9)), ("rtol", Fraction(1, 10**9))):
            v = a.get(kw)
            if v is not None and isinstance(v, Num):
                if not nf.is_const(v.nf) or nf.cval(v.nf) > limit:
                    loose.append(f"{kw}={nf.show(v.nf, 30)}")
        v = a.get("maxiter")
        if v is not None and isinstance(v, Num) and (not nf.is_const(v.nf) or nf.cval(v.nf) < 50):
            loose.append(f"maxiter={nf.show(v.nf, 30)}")
        ctx.check(
            not loose, "C06-k", GAS + "z_factor_DAK:solver tolerances", f"{f.file}:{ev.line}",
            "the bracketing solve keeps (default or explicit) absolute and relative tolerances of at most 1e-9 on the reduced density and at least 50 iterations: the returned Z satisfies the equation to rounding level",
            signature="loose " + ",".join(loose), given={k: nf.show(a[k].nf, 30) for k in ("xtol", "rtol", "maxiter") if isinstance(a.get(k), Num)},
        )
    from .c19 import check_builder

    check_builder(ctx, "C06-f")  # the tabulated Z column is the DAK root for the *supplied* composition
    check_hall_yarbrough(ctx)
    # ---- C06-j: along the solved equation Z(0) == 1 and pressure is strictly increasing in density over the declared
    # range: the root is unique, continuous in pressure, and Z -> 1 as p -> 0 (sign decisions by interval branch and bound)
    from .gasdak import isotherm_rules

    isotherm_rules(ctx, "C06-j")
    ctx.floor("C06", len(ctx.obligs), 3, "DAK obligations")


def check_hall_yarbrough(ctx):
    """C06-e: the Hall-Yarbrough Newton iteration cannot return its un-iterated starting guess: the loop
    is entered (its first test is constant-true) and every exit from the loop body lies after the
    Newton update.  (With the routine's absolute tolerance and tiny starting guess, accepting the start
    value makes Z proportional to p at low pressure.)"""
    from ..values import BoolV
    from .common import interp

    P = ctx.P
    q = GAS + "z_factor_hallyarbrough"
    f = P.func(q)
    ctx.touch(q)
    loops = [n for n in ast.walk(f.node) if isinstance(n, (ast.While, ast.For))]
    if len(loops) != 1:
        raise AnalysisError(f"{q}: expected one iteration loop, found {len(loops)}")
    loop = loops[0]

    def is_update(st):
        if isinstance(st, ast.AugAssign) and isinstance(st.op, ast.Sub) and isinstance(st.target, ast.Name):
            return st.target.id
        if isinstance(st, ast.Assign) and len(st.targets) == 1 and isinstance(st.targets[0], ast.Name) and isinstance(st.value, ast.BinOp) and isinstance(st.value.op, ast.Sub) and isinstance(st.value.left, ast.Name) and st.value.left.id == st.targets[0].id:
            return st.targets[0].id
        return None

    idx = next((k for k, st in enumerate(loop.body) if is_update(st)), None)
    if idx is None:
        # y = g(y - f / df): an update wrapped in something (a clamp, a projection): the statement that re-binds a name
        # from an expression containing `name - ...`
        def is_wrapped_update(st):
            if isinstance(st, ast.Assign) and len(st.targets) == 1 and isinstance(st.targets[0], ast.Name):
                nm = st.targets[0].id
                return any(isinstance(n, ast.BinOp) and isinstance(n.op, ast.Sub) and isinstance(n.left, ast.Name) and n.left.id == nm for n in ast.walk(st.value))
            return False

        idx = next((k for k, st in enumerate(loop.body) if is_wrapped_update(st)), None)
    if idx is None:
        raise AnalysisError(f"{q}: no Newton update `y = y - f/df` at the top level of the loop body")
    early = [n.lineno for st in loop.body[:idx] for n in ast.walk(st) if isinstance(n, (ast.Break, ast.Return))]
    it = interp(ctx)
    entered = False
    for p in it.run_function(q):
        for e in p.events:
            if e.kind == "while_test" and e.node is loop:
                t = e.data["test"]
                entered = isinstance(t, BoolV) and t.kind == "const" and bool(t.a)
    if isinstance(loop, ast.For):
        entered = True
    ctx.check(
        entered and not early, "C06-e", q + ":at least one Newton update", f"{f.file}:{loop.lineno}",
        "the iteration is entered unconditionally and cannot leave the loop before the first Newton update (the starting guess is never returned as the solution)",
        signature=("loop may be skipped" if not entered else "") + (" exit before update at line " + ",".join(map(str, early)) if early else ""),
    )
    check_hy_equation(ctx, it, q, f, loop)
    check_nan_exit(ctx, q, f, loop)
    check_attainable_tolerance(ctx, q, f, loop)


def _nan3(expr, body, depth=0):
    """Three-valued truth (True / False / None) of a boolean expression when the iterate has become NaN: every ordering
    or equality comparison is False, `!=` is True; names are resolved to their last assignment in the loop body."""
    if isinstance(expr, ast.Constant):
        return bool(expr.value) if isinstance(expr.value, (bool, int)) else None
    if isinstance(expr, ast.UnaryOp) and isinstance(expr.op, ast.Not):
        v = _nan3(expr.operand, body, depth)
        return None if v is None else not v
    if isinstance(expr, ast.BoolOp):
        vals = [_nan3(v, body, depth) for v in expr.values]
        if isinstance(expr.op, ast.And):
            return False if any(v is False for v in vals) else (True if all(v is True for v in vals) else None)
        return True if any(v is True for v in vals) else (False if all(v is False for v in vals) else None)
    if isinstance(expr, ast.Compare):
        assigned = {n.id for st in body for n in ast.walk(st) if isinstance(n, ast.Name) and isinstance(n.ctx, ast.Store)}
        used = {n.id for n in ast.walk(expr) if isinstance(n, ast.Name)}
        if not (used & assigned):
            return None  # does not involve the iterate (an iteration counter, a constant)
        counters = {st.target.id for st in body if isinstance(st, ast.AugAssign) and isinstance(st.target, ast.Name) and isinstance(st.value, ast.Constant)}
        if used & assigned <= counters:
            return None
        if any(isinstance(op, (ast.Is, ast.IsNot, ast.In, ast.NotIn)) for op in expr.ops):
            return None
        vals = [isinstance(op, ast.NotEq) for op in expr.ops]
        return all(vals)
    if isinstance(expr, ast.Call):
        fn = ast.unparse(expr.func).split(".")[-1]
        if fn in ("isnan",):
            return True
        if fn in ("isfinite", "isclose", "allclose"):
            return False
        if fn in ("bool", "all", "any") and expr.args:
            return _nan3(expr.args[0], body, depth)
        return None
    if isinstance(expr, ast.Name) and depth < 4:
        last = None
        for st in body:
            for n in ast.walk(st):
                if isinstance(n, ast.Assign) and any(isinstance(t, ast.Name) and t.id == expr.id for t in n.targets):
                    last = n.value
        return _nan3(last, body, depth + 1) if last is not None else None
    return None


def check_attainable_tolerance(ctx, q, f, loop):
    """C06-i (termination, second necessary condition): the continuation test `|quantity| > tol` of an unbounded Newton
    loop uses an absolute tolerance that floating point can meet.  The iterate (a reduced density of order 0.1 .. 1) is
    known to no better than its spacing, ~1e-16; near convergence Newton cycles between neighbouring floats, so a
    tolerance at or below that spacing may never be met and the routine does not return."""
    if isinstance(loop, ast.For):
        return
    bounded = any(isinstance(n, (ast.Break, ast.Return, ast.Raise)) for st in loop.body for n in ast.walk(st))
    tols = []
    for n in ast.walk(loop.test):
        if isinstance(n, ast.Compare) and len(n.ops) == 1 and isinstance(n.ops[0], (ast.Gt, ast.GtE, ast.Lt, ast.LtE)):
            for side in (n.left, n.comparators[0]):
                v = None
                if isinstance(side, ast.Constant) and isinstance(side.value, (int, float)):
                    v = float(side.value)
                elif isinstance(side, ast.Attribute) and side.attr in ("eps", "epsilon", "tiny", "smallest_normal"):
                    v = 2.3e-16
                elif isinstance(side, ast.Name):
                    # a named tolerance: resolve a module-level or local constant
                    for m_ in ast.walk(ctx.P.func(q).module.tree):
                        if isinstance(m_, ast.Assign) and len(m_.targets) == 1 and isinstance(m_.targets[0], ast.Name) and m_.targets[0].id == side.id and isinstance(m_.value, ast.Constant) and isinstance(m_.value.value, (int, float)):
                            v = float(m_.value.value)
                if v is not None:
                    tols.append(v)
    tiny = [t for t in tols if 0 <= t < 1e-13]
    ctx.check(
        not tiny or bounded, "C06-i", q + ":tolerance can be met", f"{f.file}:{loop.lineno}",
        "the absolute tolerance of the unbounded Newton loop is well above the spacing of doubles near the iterate (>= 1e-13), or the loop has an iteration bound",
        signature="tolerance " + ",".join(repr(t) for t in tiny), tolerances=tols,
    )


def check_nan_exit(ctx, q, f, loop):
    """C06-i (termination, necessary condition): once the Newton residual is NaN (an overshoot to y < 0 makes
    y ** (2.18 + 2.82 t) NaN - this happens inside the correlation's range) the loop must stop: its continuation test
    must be *false* for a NaN residual.  `while |f| > tol` is (NaN compares false); `while not (|f| <= tol)` is not."""
    if isinstance(loop, ast.For):
        ctx.ok("C06-i", q + ":loop leaves on a NaN residual", f"{f.file}:{loop.lineno}", "a bounded for loop terminates whatever the residual", nontrivial=True)
        return
    cont = _nan3(loop.test, loop.body)
    breaks = []
    for st in loop.body:
        for n in ast.walk(st):
            if isinstance(n, ast.If) and any(isinstance(x, (ast.Break, ast.Return)) for b in n.body for x in ast.walk(b)):
                breaks.append(_nan3(n.test, loop.body))
            if isinstance(n, ast.If) and any(isinstance(x, (ast.Break, ast.Return)) for b in n.orelse for x in ast.walk(b)):
                v = _nan3(n.test, loop.body)
                breaks.append(None if v is None else not v)
    raises = any(isinstance(n, ast.Raise) for st in loop.body for n in ast.walk(st))
    spins = cont is True and not any(b is True for b in breaks) and not (raises and any(b is None for b in breaks))
    if spins and any(b is None for b in breaks):
        spins = False  # a break whose condition cannot be evaluated may be an iteration bound
    ctx.check(
        not spins, "C06-i", q + ":loop leaves on a NaN residual", f"{f.file}:{loop.lineno}",
        "the continuation test of the Newton loop is false for a NaN residual (every comparison with NaN is false), so an overshoot that makes the residual NaN ends the iteration instead of spinning forever",
        signature="loop continues on NaN", continuation_under_nan=str(cont), break_conditions_under_nan=[str(b) for b in breaks],
    )



def _validated(fnode):
    """An `if`/`assert` tests .success / .fun / .converged / .status of the optimiser result and raises."""
    for n in ast.walk(fnode):
        if isinstance(n, ast.If):
            names = {x.attr for x in ast.walk(n.test) if isinstance(x, ast.Attribute)}
            if names & {"success", "fun", "converged", "status"}:
                if any(isinstance(s, ast.Raise) for b in (n.body, n.orelse) for st in b for s in ast.walk(st)):
                    return True
    return False


def _raises_unless_converged(fnode):
    """A top-level `if not r.converged: ... raise` (or `if r.converged: ... else: ... raise`) that precedes every
    return of the function: the un-converged outcome of a silenced solver cannot reach the caller."""

    def ends_in_raise(block):
        return bool(block) and isinstance(block[-1], ast.Raise)

    def conv(e):
        return isinstance(e, ast.Attribute) and e.attr == "converged"

    for st in fnode.body:
        if isinstance(st, (ast.FunctionDef, ast.AsyncFunctionDef, ast.ClassDef)):
            continue
        if any(isinstance(n, ast.Return) for n in ast.walk(st)):
            return False
        if isinstance(st, ast.If):
            t = st.test
            if isinstance(t, ast.UnaryOp) and isinstance(t.op, ast.Not) and conv(t.operand) and ends_in_raise(st.body):
                return True
            if conv(t) and ends_in_raise(st.orelse):
                return True
    return False


def check_hy_equation(ctx, it, q, f, loop):
    """C06-h: the generic Newton iteration of z_factor_hallyarbrough uses the published Hall-Yarbrough
    residual, its exact derivative, the update y - f/f', and returns Z = A p / y."""
    from ..values import Num
    from .common import only

    p = only(it.run_function(q), q, ctx, "C06-h")
    env = p.env.vars if p.env is not None else {}
    y, pr, Tr = nf.sym("y"), nf.sym("pressure"), nf.sym("temperature")
    t = nf.div(nf.ONE, Tr)
    c = nf.const_text
    A = nf.mul(nf.mul(c("0.06125"), t), nf.exp(nf.mul(c("-1.2"), nf.power(nf.sub(nf.ONE, t), nf.const(2)))))
    y2, y3, y4 = nf.mul(y, y), nf.power(y, nf.const(3)), nf.power(y, nf.const(4))
    f_pub = nf.neg(nf.mul(A, pr))
    f_pub = nf.add(f_pub, nf.div(nf.sub(nf.add(nf.add(y, y2), y3), y4), nf.power(nf.sub(nf.ONE, y), nf.const(3))))
    f_pub = nf.sub(f_pub, nf.mul(nf.add(nf.sub(nf.mul(c("14.76"), t), nf.mul(c("9.76"), nf.mul(t, t))), nf.mul(c("4.58"), nf.power(t, nf.const(3)))), y2))
    f_pub = nf.add(f_pub, nf.mul(nf.add(nf.sub(nf.mul(c("90.7"), t), nf.mul(c("242.2"), nf.mul(t, t))), nf.mul(c("42.4"), nf.power(t, nf.const(3)))), nf.power(y, nf.add(c("2.18"), nf.mul(c("2.82"), t)))))
    # the update statement y = y - F / DF inside the loop identifies residual and derivative (y -= F / DF is the same statement)
    class _Body:
        body = [
            ast.copy_location(ast.Assign(targets=[ast.Name(st_.target.id, ast.Store())], value=ast.BinOp(ast.Name(st_.target.id, ast.Load()), ast.Sub(), st_.value), lineno=st_.lineno), st_)
            if isinstance(st_, ast.AugAssign) and isinstance(st_.op, ast.Sub) and isinstance(st_.target, ast.Name) else st_
            for st_ in loop.body
        ]
        lineno = loop.lineno

    loop = _Body
    upd = None
    for st in loop.body:
        if isinstance(st, ast.Assign) and len(st.targets) == 1 and isinstance(st.targets[0], ast.Name) and isinstance(st.value, ast.BinOp) and isinstance(st.value.op, ast.Sub) and isinstance(st.value.left, ast.Name) and st.value.left.id == st.targets[0].id and isinstance(st.value.right, ast.BinOp) and isinstance(st.value.right.op, ast.Div):
            upd = st
    quot = None
    if upd is None:
        # y = y - step  with  step = F / DF  assigned earlier in the loop body
        for st in loop.body:
            if isinstance(st, ast.Assign) and len(st.targets) == 1 and isinstance(st.targets[0], ast.Name) and isinstance(st.value, ast.BinOp) and isinstance(st.value.op, ast.Sub) and isinstance(st.value.left, ast.Name) and st.value.left.id == st.targets[0].id and isinstance(st.value.right, ast.Name):
                for s2 in loop.body:
                    if isinstance(s2, ast.Assign) and len(s2.targets) == 1 and isinstance(s2.targets[0], ast.Name) and s2.targets[0].id == st.value.right.id and isinstance(s2.value, ast.BinOp) and isinstance(s2.value.op, ast.Div):
                        upd, quot = st, s2.value
    if upd is None:
        # no statement of the plain form: the iterate is whatever name the loop re-binds from `name - ...`; the step is
        # compared as a whole below
        cands_ = [st.targets[0].id for st in loop.body if isinstance(st, ast.Assign) and len(st.targets) == 1 and isinstance(st.targets[0], ast.Name) and any(isinstance(n, ast.BinOp) and isinstance(n.op, ast.Sub) and isinstance(n.left, ast.Name) and n.left.id == st.targets[0].id for n in ast.walk(st.value))]
        if len(cands_) != 1:
            raise AnalysisError(f"{q}: Newton update of the form y = y - f / df not found")
        yname, num, den = cands_[0], None, None
    else:
        yname = upd.targets[0].id
        quot = quot if quot is not None else upd.value.right
        num, den = quot.left, quot.right
    if isinstance(num, ast.BinOp) and isinstance(num.op, ast.Mult) and isinstance(den, ast.Name):
        # y - c * f / df: a damped (or over-relaxed) step.  With the routine's absolute stopping test taken before the
        # last update and its fixed tiny start value, the iterate that is returned is then not the Newton iterate
        names_ = [x for x in (num.left, num.right) if isinstance(x, ast.Name) and isinstance(env.get(x.id), Num) and nf.depends(env[x.id].nf, "y")]
        if len(names_) == 1:
            ctx.bad(
                "C06-h", q + ":Newton update", f"{f.file}:{upd.lineno}",
                "the iterate is updated by the full Newton step y - f / f' (the published Hall-Yarbrough iteration)",
                signature="relaxed update " + ast.unparse(quot)[:60], update=ast.unparse(upd)[:120],
            )
            num = names_[0]
    if not (isinstance(num, ast.Name) and isinstance(den, ast.Name) and isinstance(env.get(num.id), Num) and isinstance(env.get(den.id), Num)):
        # residual and derivative are not both plain locals (local functions, an inlined quotient): the step itself is
        # compared - the iterate after the body, in terms of the iterate before it, is y - f_pub / f_pub'
        ynew_ = env.get(yname)
        if not isinstance(ynew_, Num) or not nf.depends(ynew_.nf, yname):
            raise AnalysisError(f"{q}: residual / derivative of the Newton update are not named locals")
        ren = {yname: y}
        step = nf.sub(y, nf.subst_sym(ynew_.nf, ren))
        where = f"{f.file}:{loop.lineno}"
        ctx.identity(
            "C06-h", q + ":Newton step", where,
            "the step taken in the loop body is f / f' with f the published Hall-Yarbrough equation in the reduced density y (t = 1/T_r) and f' its exact y-derivative",
            step, nf.div(f_pub, nf.diff(f_pub, "y")),
        )
        rv = p.value.nf if isinstance(p.value, Num) else {}
        ctx.identity(
            "C06-h", q + ":returned Z", f.where(), "the returned value is Z = 0.06125 p t exp(-1.2 (1 - t)^2) / y with y the iterate after the update",
            nf.subst_sym(rv, ren), nf.div(nf.mul(A, pr), nf.sub(y, step)),
        )
        return
    F_, D_ = env[num.id].nf, env[den.id].nf
    ren = {yname: y}
    F_, D_ = nf.subst_sym(F_, ren), nf.subst_sym(D_, ren)
    where = f"{f.file}:{loop.lineno}"
    ctx.identity("C06-h", q + ":residual", where, "the iterated residual is the published Hall-Yarbrough equation in the reduced density y (t = 1/T_r)", F_, f_pub)
    ctx.identity("C06-h", q + ":derivative", where, "the Newton derivative is the exact y-derivative of the iterated residual", D_, nf.diff(F_, "y"))
    rv = p.value.nf if isinstance(p.value, Num) else {}
    ynew = nf.sub(y, nf.div(F_, D_))
    ctx.identity(
        "C06-h", q + ":returned Z", f.where(), "the returned value is Z = 0.06125 p t exp(-1.2 (1 - t)^2) / y at the updated y",
        nf.mul(nf.subst_sym(rv, ren), y) if not nf.depends(rv, "@never") else rv, nf.mul(A, pr),
    ) if False else None
    # the returned Z uses the y produced by the update: substitute the update back
    zexpect = nf.div(nf.mul(A, pr), ynew)
    ctx.identity("C06-h", q + ":returned Z", f.where(), "the returned value is Z = 0.06125 p t exp(-1.2 (1 - t)^2) / y with y the iterate after the update", nf.subst_sym(rv, ren), zexpect)
