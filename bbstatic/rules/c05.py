"""C05 - forecast scaling law, bounded fitting and parameter round-trip.

Decided: (a) _forecast_cum_onephase == M * rf_curve(t / tau) for every curve (linear in M, invariant
under joint rescaling of t and tau); (b) every caller passes its own curve and parameters;
(c) Bounds rejects malformed bounds; (d) curve_fit always receives bounds and a regularised first
guess; (e) the (M, tau) order agrees between closure signature, first guess, bounds, regulariser and
unpacking; (f) the regulariser leaves each coordinate inside its finite bounds, independently of
the other coordinate; (g) a supplied tau is returned unchanged.
Not decided: scipy honouring bounds, recovery of (M, tau) from noise-free data.
"""
from __future__ import annotations

from .. import nf
from ..model import AnalysisError
from ..values import ExtObj, FuncV, Inst, LambdaV, Num, PartialV, TupV

CALLABLES = (FuncV, LambdaV, PartialV)
from .common import FC, interp, returns

LEVEL = "other"
LAW = FC + "_forecast_cum_onephase"


def check(ctx):
    P = ctx.P
    f = P.func(LAW)
    # ---- C05-a scaling law
    it = interp(ctx)
    ctx.touch(LAW)
    from .common import only

    p0 = only(it.run_function(LAW), LAW, ctx, "C05-a")  # type-guarded fast paths that compute the same term are one result
    if not isinstance(p0.value, Num):
        raise AnalysisError("_forecast_cum_onephase: expected one numeric path")
    v = p0.value.nf
    t, M, tau = nf.sym("time_on_production"), nf.sym("M"), nf.sym("tau")
    want = nf.mul(M, nf.fn("rf_curve", nf.div(t, tau)))
    ctx.identity("C05-a", LAW + ":law", f.where(), "forecast == M * rf_curve(time / tau) for an arbitrary recovery curve", v, want)
    lam = nf.sym("@lambda")
    scaled = nf.subst_sym(v, {"time_on_production": nf.mul(lam, t), "tau": nf.mul(lam, tau)})
    ctx.identity("C05-a", LAW + ":rescaling", f.where(), "the forecast is unchanged when time and tau are multiplied by the same factor", scaled, v)
    ctx.identity("C05-a", LAW + ":linear in M", f.where(), "the forecast is linear in M (d/dM forecast * M == forecast)", nf.mul(nf.diff(v, "M"), M), v)

    # ---- callers
    fc = P.cls(FC + "ForecasterOnePhase")
    bc = P.cls(FC + "Bounds")

    def run_method(it_, name, args=None):
        m = fc.lookup(name)
        ctx.touch(m.qualname)

        def run(x):
            sv = Inst(fc, {"bounds": Inst(bc, {}, "self.bounds")}, "self")
            bound = x.symbolic_args(m)
            bound.update(args or {})
            return x.enter(m, bound, sv, None, fc)

        return m, it_.explore(run)


    it = interp(ctx)
    m, paths = run_method(it, "forecast_cum")
    n_calls = 0
    curve = lambda arg: nf.fn("self.rf_curve", arg)
    for p in returns(paths):
        n_calls += 1
        dM = next((c for _k, c, d in p.decisions if d == "M is None"), None)
        dT = next((c for _k, c, d in p.decisions if d == "tau is None"), None)
        wantM = nf.sym("self.M_") if dM else nf.sym("M")
        wantT = nf.sym("self.tau_") if dT else nf.sym("tau")
        v = it.to_nf(p.value) if p.value is not None else {}
        ctx.identity(
            "C05-b", m.qualname + f":law arguments [M given={not dM}, tau given={not dT}]", m.where(),
            "forecast_cum returns the law M * rf_curve(time / tau) with the object's own curve, the given time, and the given (else fitted) M and tau in their own slots",
            v, nf.mul(wantM, curve(nf.div(t, wantT))),
        )
    # ---- fit
    it = interp(ctx, opaque_methods={"regularize_initial_guess"})
    reg = bc.lookup("regularize_initial_guess")
    m = fc.lookup("fit")
    ctx.touch(m.qualname)

    def pair(nm):
        # the limits are 2-sequences (Bounds.__post_init__ rejects every other length - clause C05-f): (M[0], M[1])
        return TupV([Num(nf.fn("[]", nf.sym("self.bounds." + nm), nf.const(k))) for k in (0, 1)])

    def run_fit(x, tau_value=None):
        sv = Inst(fc, {"bounds": Inst(bc, {"M": pair("M"), "tau": pair("tau")}, "self.bounds")}, "self")
        bound = x.symbolic_args(m)
        if tau_value is not None:
            bound["tau"] = tau_value()
        x.enter(m, bound, sv, None, fc)
        # evaluate the fitted model the way curve_fit does - f(x, *params) with one parameter per entry of the
        # first guess - inside the same trace partition, so that its branches agree with fit()'s own
        cfe = [e for e in x.events if e.kind == "ext_call" and e.data["callee"] == "scipy.optimize.curve_fit"]
        rge = [e for e in x.events if e.kind == "int_call" and e.data["callee"] == reg.qualname]
        if len(cfe) == 1 and len(rge) == 1 and isinstance(rge[0].data["args"]["guess"], TupV) and isinstance(cfe[0].data["args"].get("f"), CALLABLES):
            n = len(rge[0].data["args"]["guess"].items)
            # ... of the first guess curve_fit receives: the regularised list, or a part of it (head, *rest = guess)
            p0_ = cfe[0].data["args"].get("p0")
            if isinstance(p0_, TupV):
                n = len(p0_.items)
            elif isinstance(p0_, Num):
                at_ = x.single_atom(p0_.nf)
                if at_ is not None and at_[0] == "fn" and at_[1] == "items":
                    lo_, hi_ = nf.as_int(nf.unkey(at_[2][1])), nf.as_int(nf.unkey(at_[2][2]))
                    n = n - (lo_ or 0) + (hi_ or 0)
            args = [Num(nf.sym("@x"))] + [Num(nf.sym(f"@p{k}")) for k in range(n)]
            x.log("marker", cfe[0].node, name="model evaluation")
            return x.call(cfe[0].data["args"]["f"], args, {}, cfe[0].node, None)
        return None

    # the two documented calls: tau left at None (both parameters fitted) and a tau supplied (a number). However the
    # function tells them apart - `tau is None`, a type test - every returning partition of either call has to do what
    # that call is documented to do
    from ..values import NoneV as _NoneV

    arms = []
    it.not_none = {"tau"}  # in the second call tau is a number
    for free, tv in ((True, lambda: _NoneV()), (False, lambda: Num(nf.sym("tau")))):
        for p in returns(it.explore(lambda x, tv=tv: run_fit(x, tv))):
            arms.append((free, p))
    if {a for a, _p in arms} != {True, False}:
        raise AnalysisError("ForecasterOnePhase.fit: one of the two calls (tau omitted / tau supplied) never returns")
    reg = bc.lookup("regularize_initial_guess")
    for free_tau, p in arms:
        other = [("" if c else "not ") + d[:50] for _k, c, d in p.decisions if d != "tau is None"]
        tag = ("tau fitted" if free_tau else "tau supplied") + ("; " + ", ".join(other) if other else "")
        cf = [e for e in p.events if e.kind == "ext_call" and e.data["callee"] == "scipy.optimize.curve_fit"]
        if len(cf) != 1:
            if not cf:
                # a straight-line fit (np.polyfit degree 1, linregress) has a free intercept: its slope is not the
                # least-squares amplitude of the through-origin model M * rf(t / tau), clipped or not
                alt = [e for e in p.events if e.kind == "ext_call" and e.data["callee"] in ("numpy.polyfit", "scipy.stats.linregress", "numpy.polynomial.polynomial.polyfit")]
                if alt:
                    ctx.bad(
                        "C05-d", FC + f"ForecasterOnePhase.fit [{tag}]:bounded least squares", f"{m.file}:{alt[0].line}",
                        "the parameters come from the bounded least-squares fit of the documented model M * rf(t / tau) (no intercept, limits from Bounds)",
                        signature="fitted by " + alt[0].data["callee"], routine=alt[0].data["callee"],
                    )
                    continue
                # the fitted amplitude taken from regularize_initial_guess: that helper moves a *first guess* inside the
                # limits - a value above the upper limit comes back as the midpoint of the interval, not as the limit.  It
                # is not the projection a bounded least-squares optimum needs
                st_m = [e for e in p.events if e.kind == "store_attr" and e.data["attr"] == "M_"]
                via_reg = [e for e in st_m if any(a_[0] == "fn" and reg.qualname in a_[1] for a_ in nf.atoms(it.to_nf(e.data["value"])))]
                if via_reg:
                    ctx.bad(
                        "C05-d", FC + f"ForecasterOnePhase.fit [{tag}]:bounded least squares", f"{m.file}:{via_reg[0].line}",
                        "the parameters come from the bounded least-squares fit of the documented model M * rf(t / tau) (no intercept, limits from Bounds)",
                        signature="M_ limited by regularize_initial_guess", routine=reg.qualname,
                    )
                    continue
            raise AnalysisError(f"fit [{tag}]: expected one curve_fit call")
        a = cf[0].data["args"]
        where = f"{m.file}:{cf[0].line}"
        # the container of the first guess can hold the (float) bounds the regulariser stores into it: a Python list, or an
        # array with a floating dtype - np.array([data[-1] * 2, ...]) of integer data is an integer array, and an item
        # store truncates a bound or a mid-point towards zero (the guess then lies outside the bounds)
        for e_ in [e for e in p.events if e.kind == "int_call" and e.data["callee"] == reg.qualname]:
            g_ = e_.data["args"].get("guess")
            ctx.check(
                not (isinstance(g_, TupV) and g_.arr and not getattr(g_, "float_dtype", False)), "C05-f", reg.qualname + f":guess container [{tag}]", f"{m.file}:{e_.line}",
                "the first guess is kept in a container that stores floats unchanged (a list, or an array created with a floating dtype)",
                signature="guess container inherits the data's dtype",
            )
        # C05-d bounds present, p0 regularised
        b = a.get("bounds")
        if free_tau:
            okb = isinstance(b, TupV) and len(b.items) == 2 and all(isinstance(x, TupV) and len(x.items) == 2 for x in b.items)
            if okb:
                idx = lambda nm, k: nf.fn("[]", nf.sym("self.bounds." + nm), nf.const(k))
                lo, hi = b.items
                okb = [it.to_nf(x) for x in lo.items] == [idx("M", 0), idx("tau", 0)] and [it.to_nf(x) for x in hi.items] == [idx("M", 1), idx("tau", 1)]
            ctx.check(okb, "C05-e", m.qualname + f":bounds [{tag}]", where, "curve_fit receives bounds ((M_min, tau_min), (M_max, tau_max)): lower tuple first, M before tau, as its signature requires", signature="fit_bounds order", bounds=str(b)[:200])
        else:
            ctx.check(b is not None and it.to_nf(b) in (nf.sym("self.bounds.M"), it.to_nf(pair("M"))), "C05-d", m.qualname + f":bounds [{tag}]", where, "with a supplied tau, curve_fit is bounded by the M limits", signature="bounds missing", bounds=str(b)[:120])
        from .common import check_tolerances

        check_tolerances(
            ctx, "C05-h", m.qualname + f":curve_fit tolerances [{tag}]", where, a,
            {"ftol": ("max", "1e-6"), "xtol": ("max", "1e-6"), "gtol": ("max", "1e-6"), "maxfev": ("min", 100), "max_nfev": ("min", 100)},
            "the least-squares fit keeps its default (1e-8) or explicit tolerances of at most 1e-6 and at least 100 evaluations: noise-free data are fitted to the generating parameters",
        )
        # the optimum is the *least-squares* one: no robust loss, no weights
        from ..values import StrV as _StrV, NoneV as _NoneV

        altered = []
        if a.get("loss") is not None and not (isinstance(a["loss"], _StrV) and a["loss"].s == "linear"):
            altered.append("loss=" + str(getattr(a["loss"], "s", a["loss"]))[:20])
        if a.get("sigma") is not None and not isinstance(a["sigma"], _NoneV):
            altered.append("sigma")
        ctx.check(
            not altered, "C05-h", m.qualname + f":least-squares objective [{tag}]", where,
            "curve_fit minimises the plain sum of squared residuals (loss='linear', no sigma weights): with a supplied tau, M is the bounded least-squares optimum",
            signature="objective altered by " + ",".join(altered),
        )
        p0 = a.get("p0")
        regs = [e for e in p.events if e.kind == "int_call" and e.data["callee"] == reg.qualname]
        p0n = it.to_nf(p0) if p0 is not None else {}
        at = it.single_atom(p0n)
        okp = len(regs) == 1 and at is not None and at[0] == "fn" and at[1] == reg.qualname
        ctx.check(okp, "C05-d", m.qualname + f":first guess regularised [{tag}]", where, "the first guess handed to curve_fit is the value returned by regularize_initial_guess (moved inside the bounds)", signature="p0 not regularised", p0=nf.show(p0n, 160))
        raw_guess = regs[0].data["args"]["guess"] if regs else None
        # C05-b/e the model evaluated as curve_fit evaluates it: f(x, p0[, p1])
        fv = a.get("f")
        if not isinstance(fv, CALLABLES):
            raise AnalysisError("fit: curve_fit model is not a function, lambda or functools.partial of the package")
        model_where = fv.info.where() if isinstance(fv, FuncV) else where
        rv = it.to_nf(p.value) if p.value is not None else {}
        wantT = nf.sym("@p1") if free_tau else nf.sym("tau")
        n_calls += 1
        # the abscissae curve_fit hands to the model are whatever fit() passes as xdata: the law is judged on the
        # composition model(xdata(time_on_production), ...), so a time axis scaled by the caller *and* by the model
        # (or by neither) is reported, and one scaled in exactly one of the two places is not
        xd = a.get("xdata")
        try:
            xdn = it.to_nf(xd) if xd is not None else None
        except Exception:
            xdn = None
        if xdn is not None and xdn != nf.sym("time_on_production"):
            rv = nf.subst_sym(rv, {"@x": xdn})
            rv = nf.subst_sym(rv, {"time_on_production": nf.sym("@x")})
        ctx.identity(
            "C05-b", m.qualname + f":model evaluates the law [{tag}]", model_where,
            "called as curve_fit calls it, the fitted model returns the law M * rf_curve(x / tau) with the object's curve, x as time, the first parameter as M and " + ("the second parameter as tau" if free_tau else "the tau supplied to fit()"),
            rv, nf.mul(nf.sym("@p0"), curve(nf.div(nf.sym("@x"), wantT))),
        )
        # first guess roles
        if isinstance(raw_guess, TupV):
            g = [it.to_nf(x) for x in raw_guess.items]
            okg = len(g) == (2 if free_tau else 1) and nf.depends(g[0], "cum_production") and not nf.depends(g[0], "time_on_production")
            if free_tau and len(g) == 2:
                okg = okg and nf.depends(g[1], "time_on_production") and not nf.depends(g[1], "cum_production")
            ctx.check(okg, "C05-e", m.qualname + f":first guess roles [{tag}]", where, "the first guess is [M from cumulative production" + (", tau from time on production]" if free_tau else "]"), signature="p0 roles", p0=[nf.show(x, 60) for x in g])
        # results
        st = {e.data["attr"]: e.data["value"] for e in p.events if e.kind == "store_attr" and e.data["attr"] in ("M_", "tau_")}
        fitres = cf[0].data["result"]
        def fit_elem(v):
            """k if v denotes popt[k] of the curve_fit result, else None"""
            if isinstance(v, ExtObj) and "scipy.optimize.curve_fit[0][" in v.qual:
                return int(v.qual.rsplit("[", 1)[1].rstrip("]"))
            if v is not None:
                at_ = it.single_atom(it.to_nf(v))
                if at_ is not None and at_[0] == "fn" and at_[1] == "[]" and len(at_[2]) == 2 and "curve_fit[0]" in nf.show(nf.unkey(at_[2][0]), 200):
                    return nf.as_int(nf.unkey(at_[2][1]))
            return None

        if free_tau:
            ok = fit_elem(st.get("M_")) == 0 and fit_elem(st.get("tau_")) == 1
            ctx.check(ok, "C05-e", m.qualname + f":results [{tag}]", m.where(), "M_ and tau_ are the first and second fitted parameter", signature="unpack order")
        else:
            okT = st.get("tau_") is not None and it.to_nf(st["tau_"]) == nf.sym("tau")
            ctx.check(okT, "C05-g", m.qualname + f":tau returned unchanged [{tag}]", m.where(), "with a supplied tau, tau_ is exactly that value", signature="tau_", tau_=nf.show(it.to_nf(st.get("tau_")), 80) if st.get("tau_") is not None else "unset")
            ctx.check(fit_elem(st.get("M_")) == 0, "C05-g", m.qualname + f":M from the bounded fit [{tag}]", m.where(), "with a supplied tau, M_ is the (only) fitted parameter", signature="M_")
    ctx.floor("C05-b", n_calls, 6, "evaluations of the scaling law (forecast_cum arms and fitted models)")

    # ---- C05-c Bounds validation
    post = bc.lookup("__post_init__")
    ctx.touch(post.qualname)
    it = interp(ctx)

    def runp(x):
        return x.enter(post, {}, Inst(bc, {}, "self"), None, bc)

    paths = it.explore(runp)
    raised = set()
    for p in paths:
        if p.outcome == "raise" and p.exc == "ValueError" and p.decisions:
            k, c, d = p.decisions[-1]
            raised.add((d.replace(" ", ""), c))
    for fld in ("M", "tau"):
        ctx.check((f"len(self.{fld})==2", False) in raised, "C05-c", post.qualname + f":len({fld})", post.where(), f"bounds for {fld} that are not a pair raise ValueError", signature="length guard", guards=sorted(str(x) for x in raised))
        ctx.check((f"[](self.{fld},0)>=[](self.{fld},1)", True) in raised, "C05-c", post.qualname + f":order({fld})", post.where(), f"bounds for {fld} with lower >= upper raise ValueError", signature="order guard", guards=sorted(str(x) for x in raised))

    # ---- C05-f regulariser lands inside, coordinate by coordinate
    ctx.touch(reg.qualname)
    for n in (2, 1):
        it = interp(ctx)
        names = ["@g0", "@g1"][:n]

        def runr(x, n=n, names=names):
            return x.enter(reg, {"guess": TupV([Num(nf.sym(s)) for s in names], True)}, Inst(bc, {}, "self"), None, bc)

        bad = []
        npaths = 0
        for p in returns(it.explore(runr)):
            npaths += 1
            if not (isinstance(p.value, TupV) and len(p.value.items) == n):
                bad.append("result is not the guess list")
                continue
            for j, fld in enumerate(["M", "tau"][:n]):
                lo, hi = nf.fn("[]", nf.sym("self." + fld), nf.const(0)), nf.fn("[]", nf.sym("self." + fld), nf.const(1))
                val = it.to_nf(p.value.items[j])
                val = nf.subst(val, lambda a: nf.add(lo, hi) if a == ("fn", "bsum", (nf.key(nf.sym("self." + fld)),)) else None)
                g = nf.sym(names[j])
                conds = {d.replace(" ", ""): c for _k, c, d in p.decisions}
                lo_s, hi_s, g_s = nf.show(lo).replace(" ", ""), nf.show(hi).replace(" ", ""), names[j]
                below = conds.get(f"{lo_s}>{g_s}")
                above = conds.get(f"{g_s}>{hi_s}")
                if val == g:
                    if not (below is False and above is False):
                        bad.append(f"{fld}: guess kept although the path did not establish {lo_s} <= g <= {hi_s} [{', '.join(('' if c else 'not ') + d for d, c in conds.items())}]")
                else:
                    a_ = nf.diff(nf.subst(val, lambda x: nf.sym("@lo") if nf.atom_poly(x) == lo else (nf.sym("@hi") if nf.atom_poly(x) == hi else None)), "@lo")
                    b_ = nf.diff(nf.subst(val, lambda x: nf.sym("@lo") if nf.atom_poly(x) == lo else (nf.sym("@hi") if nf.atom_poly(x) == hi else None)), "@hi")
                    convex = nf.is_const(a_) and nf.is_const(b_) and nf.cval(a_) >= 0 and nf.cval(b_) >= 0 and nf.cval(a_) + nf.cval(b_) == 1 and nf.equal(val, nf.add(nf.mul(a_, lo), nf.mul(b_, hi)))
                    if not convex:
                        bad.append(f"{fld}: replaced by {nf.show(val, 60)}, not a convex combination of its bounds")
                    elif not (below or above):
                        bad.append(f"{fld}: replaced although the path did not find it outside its bounds")
        ctx.check(
            not bad and npaths > 0, "C05-f", reg.qualname + f":{n}-parameter guess", reg.where(),
            "on every path each coordinate is either kept (after both bound tests failed) or replaced by a convex combination of its own finite bounds",
            signature="; ".join(sorted(set(bad)))[:200], problems=sorted(set(bad))[:6], paths=npaths,
        )
    ctx.floor("C05", len(ctx.obligs), 20, "forecast obligations")
