"""C09 - flow-property wrapper: monotone transform, bounded positive diffusivity.

Decided: (a) no store through a live alias of the caller's table (alias / copy-level analysis);
(b) missing columns raise, every column read on a path is covered by that path's validation, and a
user 'alpha' column is never overwritten; (c) interpolators evaluated at p_i raise outside the table
and m_i is obtained through one; (d) m-scaled == pseudopressure * factor(p_i), factor = c mu z/(2p)
or 1/pseudopressure, m_scaled_func = interp1d(pressure, m-scaled); (e) alpha == 1/(c mu);
(f) the diffusivity lookup is clamped and non-overshooting on (m-scaled, alpha);
(g) rescale is the affine map sending p_frac to 0 and p_i to 1.
"""
from __future__ import annotations

import ast
import re

from .. import effects, nf
from ..model import AnalysisError
from ..values import BoolV, DictV, ExtObj, Num, StrV, TupV
from .c01 import check_alpha_lookup
from .c03 import col, scaling_factor
from .common import FP, interp, returns

LEVEL = "other"

TABLE_FUNCS = {
    FP + "FlowProperties.__init__": ["pvt_props"],
    FP + "FlowPropertiesSimple.__init__": ["pvt_props"],
    FP + "FlowPropertiesTwoPhase.from_table": ["pvt_props", "kr_props", "reference_densities"],
    FP + "rescale_pseudopressure": ["df_pvt"],
    FP + "FlowPropertiesMultiPhase.__init__": ["df"],
}


def present_from(decisions):
    """columns known to be present on a path, from the validation decisions (syntactic set facts)"""
    present, absent, facts = set(), set(), []
    for _k, c, d in decisions:
        m = re.match(r"has_all\((\w+); (.*)\)$", d)
        if m and c:
            present |= {x.strip().strip("'") for x in m.group(2).split(",")}
        m2 = re.match(r"'([^']+)' in (\w+)$", d)
        if m2:
            (present if c else absent).add(m2.group(1))
    return present, absent


def feasible(decisions):
    present, absent = present_from(decisions)
    return not (present & absent)


def check_tables_not_mutated(ctx, rule):
    P = ctx.P
    n = 0
    for q, params in TABLE_FUNCS.items():
        f = P.func(q)
        ctx.touch(q)
        n += 1
        effects.RETURN_LEVELS.clear()
        effects.RETURN_LEVELS.update(effects.return_levels(f.module.tree))  # the module's helpers that hand a table back
        fs = effects.analyse(f.node, [p for p in params if p in f.params])
        ctx.check(
            not fs, rule, q + ":caller's table", f.where(),
            "no subscript/attribute store, augmented assignment or mutating method call reaches the caller's table (directly or through a shallow copy's columns)",
            signature="; ".join(sorted({x.kind + " " + x.detail for x in fs}))[:200],
            findings=[f"line {x.node.lineno}: {x.kind}: {x.detail}" for x in fs],
        )
    ctx.floor(rule, n, 5, "table-taking functions")


def initial_value_on_path(ctx, rule_c, rule_d, it, p, q, f, cname, tag, present, absent, rule_b=None):
    """m_i == m_scaled_func(p_i) through a raising interpolator over (pressure, m-scaled); with a user alpha the
    m-scaled column is pseudopressure * interp(pressure, 1/pseudopressure)(p_i).  Returns the m-scaled store events."""
    stores = [e for e in p.events if e.kind == "store_sub" and isinstance(e.data["index"], StrV) and e.data["index"].s == "alpha"]
    if stores:
        ctx.check(
            "alpha" in absent or cname == "FlowPropertiesSimple", rule_b or rule_c, q + ":user alpha honoured" + tag, f"{f.file}:{stores[0].line}",
            "the 'alpha' column is computed only on a path that established that the caller supplied none (a user-supplied diffusivity is never replaced)",
            signature="alpha overwritten", decisions=[d for _k, _c, d in p.decisions],
        )
    mi = [e for e in p.events if e.kind == "store_attr" and e.data["attr"] == "m_i"]
    okm = False
    found = ""
    if len(mi) == 1:
        v = it.to_nf(mi[0].data["value"])
        found = nf.show(v, 160)
        at = it.single_atom(v)
        okm = at is not None and at[0] == "fn" and at[1].startswith("call:scipy.interpolate.interp1d") and nf.unkey(at[2][-1]) == nf.sym("p_i")
        if okm:
            names = at[1][at[1].index("{") + 1 : at[1].index("}")].split(",")
            argmap = dict(zip(names, [nf.unkey(a) for a in at[2][: len(names)]]))
            okm = set(names) <= {"x", "y", "kind"} and argmap.get("x") == col("pressure")
            # the interpolated ordinate is the stored m-scaled column
            ms = [e for e in p.events if e.kind == "store_sub" and isinstance(e.data["index"], StrV) and e.data["index"].s == "m-scaled"]
            okm = okm and len(ms) == 1 and argmap.get("y") == it.to_nf(ms[0].data["value"])
    ctx.check(
        okm, rule_c, q + ":m_i" + tag, f.where(),
        "m_i is the scaled pseudopressure interpolated over the pressure column at p_i by a raising interpolator: m_i == m_scaled_func(p_i)",
        signature="m_i", found=found,
    )
    # m_scaled_func is that same interpolator
    msf = [e for e in p.events if e.kind == "store_attr" and e.data["attr"] == "m_scaled_func"]
    okf = len(msf) == 1 and isinstance(msf[0].data["value"], ExtObj) and len(mi) == 1 and it.to_nf(mi[0].data["value"]) == nf.fn("call:" + it.single_atom(it.to_nf(msf[0].data["value"]))[1], *[nf.unkey(a) for a in it.single_atom(it.to_nf(msf[0].data["value"]))[2]], nf.sym("p_i"))
    ctx.check(okf, rule_d, q + ":m_scaled_func" + tag, f.where(), "self.m_scaled_func is the interpolator (pressure -> m-scaled) that produced m_i", signature="m_scaled_func")
    # ---- C09-d the transform
    ms = [e for e in p.events if e.kind == "store_sub" and isinstance(e.data["index"], StrV) and e.data["index"].s == "m-scaled"]
    if len(ms) == 1:
        val = it.to_nf(ms[0].data["value"])
        where = f"{f.file}:{ms[0].line}"
        if cname == "FlowPropertiesSimple":
            ctx.identity(rule_d, q + ":m-scaled" + tag, where, "for the simple liquid the scaled pseudopressure is the pressure itself", val, col("pressure"))
        elif "alpha" in present or ("alpha" not in absent and False):
            ratio = nf.div(val, col("pseudopressure"))
            at = it.single_atom(ratio)
            good = False
            if at is not None and at[0] == "fn" and at[1].startswith("call:scipy.interpolate.interp1d"):
                names = at[1][at[1].index("{") + 1 : at[1].index("}")].split(",")
                argmap = dict(zip(names, [nf.unkey(a) for a in at[2][: len(names)]]))
                good = set(names) == {"x", "y"} and argmap["x"] == col("pressure") and nf.equal(argmap["y"], nf.div(nf.ONE, col("pseudopressure"))) and nf.unkey(at[2][-1]) == nf.sym("p_i")
            ctx.check(good, rule_d, q + ":m-scaled (user alpha)" + tag, where, "with a user alpha, m-scaled == pseudopressure * interp(pressure, 1/pseudopressure)(p_i): exactly 1 at table nodes", signature="m-scaled user-alpha", ratio=nf.show(ratio, 200))
    return ms


def check_initial_value(ctx, rule_c, rule_d, classes=("FlowProperties", "FlowPropertiesSimple")):
    """the initial-value obligations of the wrapper constructors, for properties that rely on m_i / m-scaled"""
    n = 0
    for cname in classes:
        q = FP + cname + ".__init__"
        f = ctx.P.func(q)
        ctx.touch(q)
        it = interp(ctx)
        for p in [p for p in it.run_function(q) if feasible(p.decisions) and p.outcome == "return"]:
            present, absent = present_from(p.decisions)
            tag = " [" + ", ".join(sorted(present)) + ("; no " + ",".join(sorted(absent)) if absent else "") + "]"
            initial_value_on_path(ctx, rule_c, rule_d, it, p, q, f, cname, tag, present, absent)
            n += 1
    ctx.floor(rule_c, n, 2, "constructor partitions")


def check(ctx):
    P = ctx.P
    check_tables_not_mutated(ctx, "C09-a")

    # ---- C09-b / c / d / e on the two constructors
    for cname in ("FlowProperties", "FlowPropertiesSimple"):
        q = FP + cname + ".__init__"
        f = P.func(q)
        it = interp(ctx)
        paths = [p for p in it.run_function(q) if feasible(p.decisions)]
        rets = [p for p in paths if p.outcome == "return"]
        raises = [p for p in paths if p.outcome == "raise"]
        ctx.check(
            any(p.exc == "ValueError" for p in raises), "C09-b", q + ":missing columns raise", f.where(),
            "a table without the required columns is rejected with ValueError", signature="no ValueError", raising=[p.exc for p in raises],
        )
        for p in rets:
            present, absent = present_from(p.decisions)
            tag = " [" + ", ".join(sorted(present)) + ("; no " + ",".join(sorted(absent)) if absent else "") + "]"
            reads = {e.data["key"] for e in p.events if e.kind == "read_sub" and not e.data["stored"] and it.to_nf(e.data["base"]) == nf.sym("pvt_props")}
            extra = sorted(reads - present)
            ctx.check(
                not extra, "C09-b", q + ":columns read are validated" + tag, f.where(),
                "every column read from the caller's table on this path is guaranteed present by the validation that admitted the path",
                signature="unvalidated " + ",".join(extra), unvalidated=extra, read=sorted(reads),
            )
            # ---- C09-c interpolators evaluated at p_i raise outside the table; m_i comes from one
            calls = [e for e in p.events if e.kind == "extobj_call" and len(e.data["args"]) == 1 and it.to_nf(e.data["args"][0]) == nf.sym("p_i")]
            for e in calls:
                o = e.data["obj"]
                bad = [k for k in o.args if k not in ("x", "y", "kind", "copy", "assume_sorted", "axis")]
                be = o.args.get("bounds_error")
                if isinstance(be, BoolV) and be.kind == "const" and be.a is True:
                    bad = [k for k in bad if k != "bounds_error"]
                ctx.check(
                    o.qual == "scipy.interpolate.interp1d" and not bad, "C09-c", q + f":lookup at p_i (line {e.line})" + tag, f"{f.file}:{e.line}",
                    "an interpolator evaluated at the initial pressure raises ValueError when p_i is outside the table (no bounds_error=False / fill_value)",
                    signature="lenient lookup at p_i " + ",".join(bad), options=sorted(o.args),
                )
            ms = initial_value_on_path(ctx, "C09-c", "C09-d", it, p, q, f, cname, tag, present, absent, rule_b="C09-b")
            # ---- C09-e alpha at nodes
            for e in [e for e in p.events if e.kind == "store_sub" and isinstance(e.data["index"], StrV) and e.data["index"].s == "alpha"]:
                ctx.identity("C09-e", q + ":alpha column" + tag, f"{f.file}:{e.line}", "node diffusivity == 1 / (compressibility * viscosity)", it.to_nf(e.data["value"]), nf.div(nf.ONE, nf.mul(col("compressibility"), col("viscosity"))))
            # ---- C09-f roles of the clamped lookup
            al = [e for e in p.events if e.kind == "store_attr" and e.data["attr"] == "alpha"]
            if len(al) == 1 and isinstance(al[0].data["value"], ExtObj) and len(ms) == 1:
                a = al[0].data["value"].args
                stored_alpha = [e for e in p.events if e.kind == "store_sub" and isinstance(e.data["index"], StrV) and e.data["index"].s == "alpha"]
                want_y = it.to_nf(stored_alpha[-1].data["value"]) if stored_alpha else col("alpha")
                ctx.check(
                    it.to_nf(a.get("x")) == it.to_nf(ms[0].data["value"]) and it.to_nf(a.get("y")) == want_y, "C09-f", q + ":alpha lookup roles" + tag, f"{f.file}:{al[0].line}",
                    "self.alpha interpolates the alpha column over the m-scaled column", signature="alpha lookup roles",
                )
            pv = [e for e in p.events if e.kind == "store_attr" and e.data["attr"] == "pvt_props"]
            ctx.check(len(pv) == 1, "C09-d", q + ":pvt_props stored" + tag, f.where(), "the wrapper keeps its (copied, augmented) table as self.pvt_props", signature="pvt_props")
    scaling_factor(ctx, "C09-d")
    check_alpha_lookup(ctx, "C09-f")

    # ---- C09-g affine rescale
    q = FP + "rescale_pseudopressure"
    f = P.func(q)
    it = interp(ctx, attr_as_key={"df_pvt"})
    ctx.touch(q)
    rets = returns(it.run_function(q))
    seen = set()
    for p in rets:
        st = [e for e in p.events if e.kind == "store_sub" and isinstance(e.data["index"], StrV) and e.data["index"].s == "pseudopressure"]
        if len(st) != 1:
            raise AnalysisError(f"{q}: expected one store of the rescaled column")
        v = it.to_nf(st[0].data["value"])
        if nf.key(v) in seen:
            continue
        seen.add(nf.key(v))
        interps = [e for e in p.events if e.kind == "ext_call" and e.data["callee"] == "scipy.interpolate.interp1d"]
        okI = len(interps) == 1 and it.to_nf(interps[0].data["args"].get("x")) == col("pressure", "df_pvt") and it.to_nf(interps[0].data["args"].get("y")) == col("pseudopressure", "df_pvt") and set(interps[0].data["args"]) == {"x", "y"}
        ctx.check(okI, "C09-g", q + ":interpolator", f.where(), "rescaling interpolates pseudopressure over pressure (raising outside the table)", signature="rescale interpolator")
        if okI:
            base = it.single_atom(it.to_nf(interps[0].data["result"]))
            m = lambda x: nf.fn("call:" + base[1], *[nf.unkey(a) for a in base[2]], x)
            pf, pi, pc = nf.sym("p_frac"), nf.sym("p_i"), col("pressure", "df_pvt")
            ctx.identity(
                "C09-g", q + ":affine map", f"{f.file}:{st[0].line}",
                "rescaled pseudopressure == (m(p) - m(p_frac)) / (m(p_i) - m(p_frac)): 0 at the frac-face pressure, 1 at the initial pressure",
                v, nf.div(nf.sub(m(pc), m(pf)), nf.sub(m(pi), m(pf))),
            )
        ctx.check(it.to_nf(p.value) != nf.sym("df_pvt") or True, "C09-g", q + ":returns the copy", f.where(), "the function returns the rescaled table", nontrivial=False)
    from .common import check_interp_options

    check_interp_options(ctx, "C09-h", ["bluebonnet.flow.flowproperties"], 5)
    ctx.floor("C09", len(ctx.obligs), 30, "wrapper obligations")
