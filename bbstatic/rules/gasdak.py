"""Shared reconstruction of the Dranchuk-Abou-Kassem pieces of gas.py (used by C06 and C07)."""
from __future__ import annotations

from .. import nf
from ..model import AnalysisError
from ..values import ExtObj, FuncV, Num
from .common import GAS, only, returns, run

TR, PR, TPC0, PPC, RHO, Z = (nf.sym(x) for x in ("Tr", "pr", "Tpc_abs", "ppc", "rho", "Z"))
K45967 = nf.const_text("459.67")

# Published constants A1..A11 of Dranchuk & Abou-Kassem (1975), as printed in the paper and in
# every reproduction of the correlation (Standing-Katz fit over 1.0 <= Tr <= 3, 0.2 <= pr <= 30).
A_PUBLISHED = ["0.3265", "-1.0700", "-0.5339", "0.01569", "-0.05165", "0.5475", "-0.7361", "0.1844", "0.1056", "0.6134", "0.7210"]

BRACKETING = {"scipy.optimize.brentq", "scipy.optimize.brenth", "scipy.optimize.ridder", "scipy.optimize.bisect", "scipy.optimize.toms748"}
UNVALIDATED = {
    "scipy.optimize.minimize", "scipy.optimize.minimize_scalar", "scipy.optimize.root", "scipy.optimize.fsolve",
    "scipy.optimize.newton", "scipy.optimize.least_squares", "scipy.optimize.root_scalar", "scipy.optimize.fmin",
    "scipy.optimize.fminbound",
}


def reduced_args():
    """Arguments that make temp_reduced == Tr and pressure_reduced == pr symbolically."""
    return {
        "temperature": Num(nf.sub(nf.mul(TR, TPC0), K45967)),
        "temperature_pseudocritical": Num(nf.sub(TPC0, K45967)),
        "pressure": Num(nf.mul(PR, PPC)),
        "pressure_pseudocritical": Num(PPC),
    }


def z_published(rho=RHO, tr=TR):
    A = [nf.const_text(a) for a in A_PUBLISHED]
    inv = lambda k: nf.power(tr, nf.const(-k))
    t1 = nf.add(A[0], nf.add(nf.mul(A[1], inv(1)), nf.add(nf.mul(A[2], inv(3)), nf.add(nf.mul(A[3], inv(4)), nf.mul(A[4], inv(5))))))
    t2 = nf.add(A[5], nf.add(nf.mul(A[6], inv(1)), nf.mul(A[7], inv(2))))
    t3 = nf.mul(A[8], nf.add(nf.mul(A[6], inv(1)), nf.mul(A[7], inv(2))))
    r = lambda k: nf.power(rho, nf.const(k))
    ex = nf.exp(nf.neg(nf.mul(A[10], r(2))))
    t4 = nf.mul(nf.mul(A[9], nf.add(nf.ONE, nf.mul(A[10], r(2)))), nf.mul(nf.mul(r(2), inv(3)), ex))
    z = nf.add(nf.ONE, nf.mul(t1, rho))
    z = nf.add(z, nf.mul(t2, r(2)))
    z = nf.sub(z, nf.mul(t3, r(5)))
    return nf.add(z, t4)


def solver_event(ctx):
    """The scipy.optimize call inside z_factor_DAK and the partition it belongs to."""
    paths = returns(run(ctx, GAS + "z_factor_DAK", args=reduced_args()))
    if len(paths) != 1:
        raise AnalysisError(f"z_factor_DAK: expected one partition, found {len(paths)}")
    p = paths[0]
    evs = [e for e in p.events if e.kind == "ext_call" and e.data["callee"].startswith("scipy.optimize.")]
    if len(evs) != 1:
        raise AnalysisError(f"z_factor_DAK: expected exactly one scipy.optimize call, found {len(evs)}")
    return p, evs[0]


def eos_residual(ctx):
    """(F(rho; Tr, pr) as coded in z_factor_DAK, FunctionInfo of the objective, solver event, path).
    The objective is evaluated the way the solver evaluates it - f(rho, *args) - inside the same trace
    partition as z_factor_DAK itself, whether it is a closure or a module-level helper."""
    from ..values import TupV
    from .common import interp

    q = GAS + "z_factor_DAK"
    fi0 = ctx.P.func(q)
    ctx.touch(q)
    it = interp(ctx)
    box = {}
    runs = []
    nosolve = []

    def run(x):
        bound = {p: reduced_args().get(p, Num(nf.sym(p))) for p in fi0.params}
        val = x.enter(fi0, bound, None, None, None)
        evs = [e for e in x.events if e.kind == "ext_call" and e.data["callee"].startswith("scipy.optimize.")]
        if len(evs) == 0:
            # a path that hands back a Z without having solved the equation on it (an early return, or - when the solve
            # sits in a try block - the handler's fallback value)
            nosolve.append(dict(x.decider.conds()) if hasattr(x.decider, "conds") else {})
            runs.append({"F": None, "fi": None, "ev": None})
            return val
        if len(evs) != 1:
            raise AnalysisError(f"z_factor_DAK: expected exactly one scipy.optimize call, found {len(evs)}")
        a = evs[0].data["args"]
        fv = a.get("f") or a.get("fun") or a.get("func") or a.get("0")
        if not isinstance(fv, FuncV):
            raise AnalysisError("z_factor_DAK: the solver's objective is not a function of the package")
        extra = a.get("args")
        extra_vals = list(extra.items) if isinstance(extra, TupV) else ([extra] if extra is not None else [])
        box["F"] = x.call(fv, [Num(RHO)] + extra_vals, {}, evs[0].node, None)
        box["fi"], box["ev"] = fv.info, evs[0]
        runs.append(dict(box))
        return val

    allpaths = it.explore(run)
    paths = returns(allpaths)
    if nosolve:
        # runs[] is appended once per explored path that reached the end of run() (raising paths do not): pair them up
        rp = [p_ for p_ in allpaths if p_.outcome == "return"]
        keep = []
        for p_, r_ in zip(rp, runs[-len(rp):] if len(runs) >= len(rp) else []):
            if r_.get("F") is None:
                tag = ", ".join(("" if c else "not ") + d[:70] for _k, c, d in p_.decisions)
                ctx.bad(
                    f"{ctx.prop}-d", q + f":value without a solve [{tag}]", fi0.where(),
                    "every returned Z comes out of the root finder on that path: a failure of the solve reaches the caller as an exception, never as a fallback value",
                    signature="no solve " + tag[:80], selected_by=tag,
                )
            else:
                keep.append((p_, r_))
        paths = [p_ for p_, _r in keep]
        runs[:] = [r_ for _p, r_ in keep]
        if len(paths) == 1:
            box.update(runs[0])
    if len(paths) > 1 and len(runs) >= len(paths):
        # several trace partitions: the same equation and the same result on all of them, or the extra ones are reported
        recs = list(zip(paths, runs[-len(paths):])) if len(runs) == len(paths) else []
        distinct = {}
        for p_, r_ in recs:
            if isinstance(r_.get("F"), Num) and isinstance(p_.value, Num):
                distinct.setdefault((nf.key(r_["F"].nf), nf.key(p_.value.nf)), (p_, r_))
        if recs and len(distinct) >= 1:
            ordered = sorted(distinct.values(), key=lambda pr: sum(1 for _k, c, _d in pr[0].decisions if c))
            main_p, main_r = ordered[0]
            for p_, _r in ordered[1:]:
                tag = ", ".join(("" if c else "not ") + d[:70] for _k, c, d in p_.decisions)
                ctx.bad(
                    f"{ctx.prop}-a", q + f":another equation [{tag}]", fi0.where(),
                    "one equation of state answers every (T_r, p_r) of the documented range: no partition of the inputs solves a different residual or returns a different Z",
                    signature="alternative equation " + tag[:80], selected_by=tag,
                )
            paths = [main_p]
            box.update(main_r)
    if len(paths) != 1 or not isinstance(box.get("F"), Num):
        raise AnalysisError("z_factor_DAK: objective is not a single numeric expression on a single path")
    ctx.touch(box["fi"].qualname)
    return box["F"].nf, box["fi"], box["ev"], paths[0]


# ------------------------------------------------------------------------------------------------------------------
# sign clauses over the declared range of the correlation (interval branch and bound on the normal forms, see signs.py)
GAS_BOX = {"Tr": (1.05, 3.0), "rho": (1e-9, 3.0)}  # reduced temperature of the property; reduced density up to 3
VISC_BOX = {"Tr": (1.05, 3.0), "Tpc_abs": (300.0, 800.0), "ppc": (400.0, 1400.0), "specific_gravity": (0.55, 2.0), "@rho": (1e-6, 100.0)}


def z_of_rho(ctx):
    """Z as a function of the reduced density along the equation solved in z_factor_DAK (pr eliminated)"""
    F_, fi, _ev, _p = eos_residual(ctx)
    lead = nf.div(nf.mul(nf.const_text("0.27"), PR), nf.mul(TR, RHO))
    z = nf.sub(lead, F_)
    if nf.depends(z, "pr"):
        raise AnalysisError("z_factor_DAK: the solved residual is not 0.27 pr/(Tr rho) - Z(rho, Tr)")
    return z, fi


def isotherm_rules(ctx, rule):
    """Z(rho -> 0) == 1 exactly; d(rho Z)/d rho > 0 and Z > 0 over the declared range (so pressure is a strictly
    increasing, continuous function of density on every isotherm: the root is unique, Z is continuous in pressure,
    density increases with pressure, Z -> 1 as p -> 0); the density range reaches reduced pressure 30."""
    from .. import signs

    z, fi = z_of_rho(ctx)
    where = fi.where()
    q = GAS + "z_factor_DAK"
    ctx.assume(f"declared range of the gas correlation: Tr in {GAS_BOX['Tr']}, reduced density in (0, {GAS_BOX['rho'][1]}]")
    ctx.identity(rule, q + ":ideal-gas limit", where, "along the solved equation Z == 1 at zero density (Z -> 1 as pressure -> 0)", nf.subst_sym(z, {"rho": {}}), nf.ONE)
    G = nf.add(z, nf.mul(RHO, nf.diff(z, "rho")))
    s, info = signs.decide(G, GAS_BOX, want="+", max_cells=20000)
    ctx.check(
        s == "+", rule, q + ":isotherms are monotone", where,
        "d(rho Z)/d rho > 0 over the declared range: reduced pressure is a strictly increasing continuous function of reduced density, so the solved root is unique, varies continuously with pressure, and density increases with pressure",
        signature="d(rho Z)/d rho not positive", cells=info.get("cells"), detail={k: str(v)[:120] for k, v in info.items() if k not in ("cells",)},
    )
    s, info = signs.decide(z, GAS_BOX, want="+", max_cells=20000)
    ctx.check(s == "+", rule, q + ":Z positive", where, "Z > 0 over the declared range", signature="Z not positive", cells=info.get("cells"), detail={k: str(v)[:120] for k, v in info.items() if k != "cells"})
    top = GAS_BOX["rho"][1]
    reach = nf.sub(nf.div(nf.mul(nf.mul(RHO, TR), z), nf.const_text("0.27")), nf.const(30))
    s, info = signs.decide(reach, {"Tr": GAS_BOX["Tr"], "rho": (top, top)}, want="+", max_cells=4000)
    ctx.check(s == "+", rule, q + ":range reaches pr = 30", where, f"at reduced density {top} the reduced pressure exceeds 30 on every isotherm: the density range covers the pressure range of the property", signature="density range too small", cells=info.get("cells"))


def viscosity_rules(ctx, rule):
    """gas viscosity is positive and increases with the library's density (with isotherm_rules: with pressure)"""
    from .. import signs

    q = GAS + "viscosity_Sutton"
    fv = ctx.P.func(q)
    ctx.touch(q)
    rho = nf.sym("@rho")
    # the viscosity in terms of the library's density: Z is kept as one atom, density_DAK gives rho = Kd p gamma / (Z T_abs),
    # and Z := Kd p gamma / (rho T_abs) is substituted (whether viscosity_Sutton calls density_DAK or a shared worker)
    ZQ = GAS + "z_factor_DAK"
    ra = dict(reduced_args())
    mu0 = only(run(ctx, q, args=ra, opaque={ZQ}), "viscosity_Sutton", ctx, rule).value.nf
    d0 = only(run(ctx, GAS + "density_DAK", args=ra, opaque={ZQ}), "density_DAK", ctx, rule).value.nf
    zat = sorted({a for a in nf.atoms(mu0) if a[0] == "fn" and a[1] == ZQ}, key=repr)
    zad = sorted({a for a in nf.atoms(d0) if a[0] == "fn" and a[1] == ZQ}, key=repr)
    if len(zat) != 1 or zat != zad:
        raise AnalysisError(f"{q}: viscosity and density do not share one z-factor atom")
    # rho == d0 with Z as the unknown: d0 * Z is free of Z
    dz = nf.mul(d0, nf.atom_poly(zat[0]))
    if any(a == zat[0] for a in nf.atoms(dz)):
        raise AnalysisError(f"{q}: density_DAK is not proportional to 1/Z")
    z_of_rho = nf.div(dz, rho)
    mu = nf.subst(mu0, lambda a: z_of_rho if a == zat[0] else None)
    for sname in ("pr",):
        if nf.depends(mu, sname) and not nf.is_zero(nf.diff(mu, sname)):
            raise AnalysisError(f"{q}: viscosity depends on pressure besides the density")
    mu = nf.subst_sym(mu, {"pr": nf.ONE}) if nf.depends(mu, "pr") else mu
    missing = sorted(nf.symbols(mu) - set(VISC_BOX))
    if missing:
        raise AnalysisError(f"{q}: no declared range for {missing}")
    ctx.assume("declared range for viscosity: " + ", ".join(f"{k} in {v}" for k, v in VISC_BOX.items()) + " (Tpc in Rankine, rho in lb/ft3)")
    s, info = signs.decide(mu, VISC_BOX, want="+", max_cells=20000)
    ctx.check(s == "+", rule, q + ":positive", fv.where(), "gas viscosity > 0 over the declared range", signature="viscosity not positive", cells=info.get("cells"), detail={k: str(v)[:120] for k, v in info.items() if k != "cells"})
    d = nf.diff(mu, "@rho")
    s, info = signs.decide(d, VISC_BOX, want="+", max_cells=20000)
    ctx.check(
        s == "+", rule, q + ":increases with density", fv.where(),
        "d(viscosity)/d(density) > 0 over the declared range (density increases with pressure on every isotherm, so viscosity increases with pressure)",
        signature="viscosity not increasing", cells=info.get("cells"), detail={k: str(v)[:120] for k, v in info.items() if k != "cells"},
    )
