"""Shared reconstruction of the Dranchuk-Abou-Kassem pieces of gas.py (used by C06 and C07)."""
from __future__ import annotations

from .. import nf
from ..model import AnalysisError
from ..values import ExtObj, FuncV, Num
from .common import GAS, returns, run

TR, PR, TPC0, PPC, RHO, Z = (nf.sym(x) for x in ("Tr", "pr", "Tpc_abs", "ppc", "rho", "Z"))
K45967 = nf.const_text("459.67")

# Published constants A1..A11 of Dranchuk & Abou-Kassem (1975), as printed in the paper and in
# every reproduction of the correlation (Standing-Katz fit over 1.0 <= Tr <= 3, 0.2 <= pr <= 30).
A_PUBLISHED = ["0.3265", "-1.0700", "-0.5339", "0.01569", "-0.05165", "0.5475", "-0.7361", "0.1844", "0.1056", "0.6134", "0.7210"]

BRACKETING = {"scipy.optimize.brentq", "scipy.optimize.brenth", "scipy.optimize.ridder", "scipy.optimize.bisect", "scipy.optimize.toms748"}
UNVALIDATED = {
    "scipy.optimize.minimize", "scipy.optimize.minimize_scalar", "scipy.optimize.root", "scipy.optimize.fsolve",
    "scipy.optimize.newton", "scipy.optimize.least_squares", "scipy.optimize.root_scalar", "scipy.optimize.fmin",
    "scipy.optimize.fminbound",
}


def reduced_args():
    """Arguments that make temp_reduced == Tr and pressure_reduced == pr symbolically."""
    return {
        "temperature": Num(nf.sub(nf.mul(TR, TPC0), K45967)),
        "temperature_pseudocritical": Num(nf.sub(TPC0, K45967)),
        "pressure": Num(nf.mul(PR, PPC)),
        "pressure_pseudocritical": Num(PPC),
    }


def z_published(rho=RHO, tr=TR):
    A = [nf.const_text(a) for a in A_PUBLISHED]
    inv = lambda k: nf.power(tr, nf.const(-k))
    t1 = nf.add(A[0], nf.add(nf.mul(A[1], inv(1)), nf.add(nf.mul(A[2], inv(3)), nf.add(nf.mul(A[3], inv(4)), nf.mul(A[4], inv(5))))))
    t2 = nf.add(A[5], nf.add(nf.mul(A[6], inv(1)), nf.mul(A[7], inv(2))))
    t3 = nf.mul(A[8], nf.add(nf.mul(A[6], inv(1)), nf.mul(A[7], inv(2))))
    r = lambda k: nf.power(rho, nf.const(k))
    ex = nf.exp(nf.neg(nf.mul(A[10], r(2))))
    t4 = nf.mul(nf.mul(A[9], nf.add(nf.ONE, nf.mul(A[10], r(2)))), nf.mul(nf.mul(r(2), inv(3)), ex))
    z = nf.add(nf.ONE, nf.mul(t1, rho))
    z = nf.add(z, nf.mul(t2, r(2)))
    z = nf.sub(z, nf.mul(t3, r(5)))
    return nf.add(z, t4)


def solver_event(ctx):
    """The scipy.optimize call inside z_factor_DAK and the partition it belongs to."""
    paths = returns(run(ctx, GAS + "z_factor_DAK", args=reduced_args()))
    if len(paths) != 1:
        raise AnalysisError(f"z_factor_DAK: expected one partition, found {len(paths)}")
    p = paths[0]
    evs = [e for e in p.events if e.kind == "ext_call" and e.data["callee"].startswith("scipy.optimize.")]
    if len(evs) != 1:
        raise AnalysisError(f"z_factor_DAK: expected exactly one scipy.optimize call, found {len(evs)}")
    return p, evs[0]


def eos_residual(ctx):
    """(F(rho; Tr, pr) as coded in z_factor_DAK, FunctionInfo of the objective, solver event, path).
    The objective is evaluated the way the solver evaluates it - f(rho, *args) - inside the same trace
    partition as z_factor_DAK itself, whether it is a closure or a module-level helper."""
    from ..values import TupV
    from .common import interp

    q = GAS + "z_factor_DAK"
    fi0 = ctx.P.func(q)
    ctx.touch(q)
    it = interp(ctx)
    box = {}

    def run(x):
        bound = {p: reduced_args().get(p, Num(nf.sym(p))) for p in fi0.params}
        val = x._exec_function(fi0, bound, None, None, None)
        evs = [e for e in x.events if e.kind == "ext_call" and e.data["callee"].startswith("scipy.optimize.")]
        if len(evs) != 1:
            raise AnalysisError(f"z_factor_DAK: expected exactly one scipy.optimize call, found {len(evs)}")
        a = evs[0].data["args"]
        fv = a.get("f") or a.get("fun") or a.get("func") or a.get("0")
        if not isinstance(fv, FuncV):
            raise AnalysisError("z_factor_DAK: the solver's objective is not a function of the package")
        extra = a.get("args")
        extra_vals = list(extra.items) if isinstance(extra, TupV) else ([extra] if extra is not None else [])
        box["F"] = x.call(fv, [Num(RHO)] + extra_vals, {}, evs[0].node, None)
        box["fi"], box["ev"] = fv.info, evs[0]
        return val

    paths = returns(it.explore(run))
    if len(paths) != 1 or not isinstance(box.get("F"), Num):
        raise AnalysisError("z_factor_DAK: objective is not a single numeric expression on a single path")
    ctx.touch(box["fi"].qualname)
    return box["F"].nf, box["fi"], box["ev"], paths[0]
