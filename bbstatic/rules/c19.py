"""C19 - Fluid facade and PVT-table builder reproduce the underlying correlations.

Decided: (a) every Fluid method calls its stand-alone correlation with the instance's fields in the
same-named slots and the method's pressure in the pressure slot, and returns that value;
(b) build_pvt_gas binds the Sutton point in the order it is returned, builds the 10-psi grid from 10
up to maximum_pressure and each column from its correlation at the row pressure; (c) with all
contaminant fractions zero the Sutton point reduces to the hydrocarbon-only correlation, and extra
components enter only through linear sums; (d) unknown fluid types raise.
"""
from __future__ import annotations

from .. import nf
from ..model import AnalysisError
from ..values import DictV, Inst, Num, TupV, Vec
from .common import FLUID, GAS, OIL, WATER, interp, returns

LEVEL = "other"

FIELDS = ["temperature", "api_gravity", "gas_specific_gravity", "solution_gor_initial", "salinity"]
ALIAS = {"specific_gravity": "gas_specific_gravity"}
METHODS = {
    "water_FVF": WATER + "b_water_McCain",
    "water_viscosity": WATER + "viscosity_water_McCain",
    "gas_FVF": GAS + "b_factor_DAK",
    "gas_viscosity": GAS + "viscosity_Sutton",
    "oil_FVF": OIL + "b_o_Standing",
    "oil_viscosity": OIL + "viscosity_beggs_robinson",
    "pressure_bubblepoint": OIL + "pressure_bubblepoint_Standing",
}
ARRAY_METHODS = {"water_FVF", "water_viscosity", "gas_FVF", "gas_viscosity", "oil_FVF", "oil_viscosity"}


def correlation_names(P):
    out = set()
    for mn in ("bluebonnet.fluids.gas", "bluebonnet.fluids.oil", "bluebonnet.fluids.water"):
        out |= {fi.qualname for fi in P.module(mn).functions.values()}
    return out


def check_delegation(ctx, rule, only_array=False, only=None):
    P = ctx.P
    ci = P.cls(FLUID + "Fluid")
    opaque = correlation_names(P)
    n = 0
    for mname, callee in METHODS.items():
        if only_array and mname not in ARRAY_METHODS:
            continue
        if only is not None and mname not in only:
            continue
        m = ci.lookup(mname)
        if m is None:
            ctx.bad(rule, FLUID + f"Fluid.{mname}", f"{ci.module.relpath}:{ci.node.lineno}", "the facade method exists", signature="method missing")
            continue
        ctx.touch(m.qualname)
        for array_mode in ((False, True) if mname in ARRAY_METHODS else (False,)):
            mode = " [array argument]" if array_mode else ""
            it = interp(ctx, array_mode=array_mode, opaque=opaque)

            def run(it_, m=m):
                sv = Inst(ci, {}, "self")
                bound = it_.symbolic_args(m)
                return it_.enter(m, bound, sv, None, ci)

            paths = [p for p in it.explore(run) if p.outcome == "return"]
            if len(paths) > 1:
                # partitions that return the same value (a logging-level test, a validation that did not fire) are one
                uniq = {}
                for p_ in paths:
                    uniq.setdefault(nf.key(it.to_nf(p_.value)) if p_.value is not None else None, p_)
                paths = list(uniq.values())
            if len(paths) != 1:
                if not paths:
                    raise AnalysisError(f"{m.qualname}: no returning path")
                ctx.bad(
                    rule, m.qualname + ":one evaluation path" + mode, m.where(),
                    "the facade method evaluates its correlation on a single path: it takes no decisions of its own on the arguments (a fast path, a whole-array test, a fallback)",
                    signature="paths " + str(len(paths)), decisions=sorted({("" if c else "not ") + d[:80] for p_ in paths for _k, c, d in p_.decisions})[:8],
                )
                continue
            p = paths[0]
            calls = [e for e in p.events if e.kind == "int_call" and e.data["callee"] in opaque]
            n += 0 if array_mode else 1
            if len(calls) != 1 or calls[0].data["callee"] != callee:
                ctx.bad(
                    rule, m.qualname + ":correlation" + mode, m.where(), f"the method evaluates exactly the stand-alone correlation {callee.split('.')[-1]}",
                    signature="callee " + ",".join(sorted(e.data["callee"].split(".")[-1] for e in calls)), found=[e.data["callee"] for e in calls],
                )
                continue
            a = calls[0].data["args"]
            fi = P.func(callee)
            probs = []
            defaults = fi.defaults()
            # what the *returned* value was evaluated at, when it is a single evaluation of the correlation (element i of
            # the result then belongs to element i of these arguments, however the evaluation was organised - per
            # element, once per distinct pressure and gathered back, ...); otherwise the arguments of the call itself
            rat = it.single_atom(it.to_nf(p.value)) if p.value is not None else None
            names_ = [x for x in fi.params + fi.kwonly if x in a]
            from_value = {}
            if rat is not None and rat[0] == "fn" and rat[1] == callee and len(rat[2]) == len(names_):
                from_value = {x: nf.unkey(k_) for x, k_ in zip(names_, rat[2])}
            for par in fi.params:
                got = from_value.get(par, it.to_nf(a[par]))
                field = ALIAS.get(par, par)
                if field in FIELDS:
                    want = nf.sym("self." + field)
                elif par == "pressure" or par in m.params:
                    want = nf.sym(par)
                elif par in defaults:
                    continue
                else:
                    probs.append(f"{par}: no rule for this parameter")
                    continue
                if got != want:
                    probs.append(f"{par} <- {nf.show(got, 60)} (expected {nf.show(want, 60)})")
            # options the pinned correlation does not have: the facade may only hand over what reproduces the default
            # (decided by interpreting the correlation both ways) - a value kept on the object since construction, a
            # flag, a tolerance make the method something else than the stand-alone correlation of the current fields
            for par in it._new_optional(fi, [x for x in fi.params + fi.kwonly if x in a]):
                try:
                    same = it._explicit_equals_default(fi, a, [par], None)
                except AnalysisError:
                    same = False
                if not same:
                    probs.append(f"{par} <- {nf.show(it.to_nf(a[par]), 60)} (an option the documented call does not set)")
            ctx.check(
                not probs, rule, m.qualname + ":arguments" + mode, f"{m.file}:{calls[0].line}",
                f"{callee.split('.')[-1]} receives self.<field> in every same-named slot and the method's own pressure / pseudocritical arguments",
                signature="; ".join(probs)[:200], problems=probs,
            )
            if mname in ARRAY_METHODS and "pressure" in a:
                # the method accepts an array of pressures: either it applies the correlation per element (a loop or
                # comprehension over `pressure`, np.vectorize) or the correlation itself must be safe for whole arrays
                k_call = p.events.index(calls[0])
                per_element = any(
                    (e.kind == "vectorized_call")
                    or (e.kind == "for_iter" and isinstance(e.data.get("iter"), Num) and e.data["iter"].nf == nf.sym("pressure"))
                    for e in p.events[:k_call]
                )
                if not per_element:
                    from .common import array_safe

                    ok_arr, why = array_safe(ctx, callee, "pressure")
                    ctx.check(
                        ok_arr, rule, m.qualname + ":whole array handed to the correlation" + mode, f"{m.file}:{calls[0].line}",
                        f"{callee.split('.')[-1]} receives the whole pressure array: none of its decisions may depend on pressure outside an explicit scalar branch (a scalar test of an array is an error or, under np.all / np.any, one decision for all elements)",
                        signature="array decisions " + "; ".join(why)[:160], decisions=why[:6],
                    )
            rv = it.to_nf(p.value)
            at = it.single_atom(rv)
            ctx.check(
                at is not None and at[0] == "fn" and at[1] == callee, rule, m.qualname + ":return" + mode, m.where(),
                "the method returns the correlation's value unchanged (per element for arrays)", signature="return", value=nf.show(rv, 200),
            )
    ctx.floor(rule, n, len(only) if only is not None else (6 if only_array else 7), "Fluid facade methods")


def col(t, k):
    return nf.fn("[]", nf.sym(t), nf.sym(repr(k)))


def check_builder(ctx, rule):
    P = ctx.P
    q = FLUID + "build_pvt_gas"
    f = P.func(q)
    opaque = correlation_names(P)
    it = interp(ctx, opaque=opaque)
    ctx.touch(q)
    paths = returns(it.run_function(q))
    # partitions that differ only in side conditions (a logging level test, say) and return the same table are one result
    distinct = {}
    for p_ in paths:
        distinct.setdefault(nf.key(it.to_nf(p_.value)) if p_.value is not None else None, p_)
    paths = list(distinct.values())
    if not paths or not all(isinstance(p_.value, DictV) for p_ in paths):
        raise AnalysisError(f"{q}: expected every path to return a table")
    # every distinct table (a branch on the composition, on the dryness, on the size of the grid) has to be the table
    # of the supplied inputs
    for p in paths:
        tag = "" if len(paths) == 1 else " [" + ", ".join(("" if c else "not ") + d[:60] for _k, c, d in p.decisions) + "]"
        _check_builder_table(ctx, rule, P, q, f, it, p, tag)
    # the row states (temperature, pressure) are stored in double precision: nothing allocated "like" the pressure grid
    # inherits an integer type from a grid written with integer literals (the default maximum pressure is an integer)
    from .dtypes import check_like_over_integer_grid

    check_like_over_integer_grid(ctx, rule, f)
    _check_sutton_order(ctx, rule, P)


def _check_builder_table(ctx, rule, P, q, f, it, p, tag):
    tbl = p.value
    calls = {}
    for e in p.events:
        if e.kind == "int_call":
            calls.setdefault(e.data["callee"], []).append(e)
    SQ, MQ = GAS + "pseudocritical_point_Sutton", GAS + "make_nonhydrocarbon_properties"
    gv = lambda k: col("gas_values", k)
    # Sutton point arguments
    ok = False
    probs = []
    if len(calls.get(SQ, [])) == 1 and len(calls.get(MQ, [])) == 1:
        a = calls[SQ][0].data["args"]
        ma = calls[MQ][0].data["args"]
        if it.to_nf(a["specific_gravity"]) != gv("Gas Specific Gravity"):
            probs.append("specific_gravity <- " + nf.show(it.to_nf(a["specific_gravity"]), 60))
        if it.to_nf(a["fluid"]) != nf.sym("gas_dryness"):
            probs.append("fluid <- " + nf.show(it.to_nf(a["fluid"]), 60))
        nh = it.single_atom(it.to_nf(a["non_hydrocarbon_properties"]))
        if not (nh is not None and nh[0] == "fn" and nh[1] == MQ):
            probs.append("non_hydrocarbon_properties is not the result of make_nonhydrocarbon_properties")
        for par, key in (("nitrogen", "N2"), ("hydrogen_sulfide", "H2S"), ("co2", "CO2")):
            if it.to_nf(ma[par]) != gv(key):
                probs.append(f"{par} <- {nf.show(it.to_nf(ma[par]), 60)}")
        ok = not probs
    else:
        probs.append("Sutton point / contaminant table not computed exactly once")
    ctx.check(ok, rule, q + ":Sutton point arguments" + tag, f.where(), "the pseudocritical point is Sutton's for the supplied gravity, N2/H2S/CO2 fractions (by key) and dryness", signature="; ".join(probs)[:200], problems=probs)
    satom = it.to_nf(calls[SQ][0].data["result"]) if False else None
    sut = nf.fn(SQ, *[it.to_nf(calls[SQ][0].data["args"][x]) for x in P.func(SQ).params]) if SQ in calls else {}
    tpc, ppc = nf.fn("item", sut, nf.const(0)), nf.fn("item", sut, nf.const(1))
    # grid
    grid = tbl.items.get("pressure")
    okg = isinstance(grid, Vec) and grid.gen == nf.add(nf.const(10), nf.mul(nf.const(10), nf.sym("@J"))) and grid.length == nf.fn("arange_len", nf.const(10), nf.sym("maximum_pressure"), nf.const(10)) and not grid.over
    ctx.check(
        okg, rule, q + ":pressure grid" + tag, f.where(),
        "the pressure column is np.arange(10, maximum_pressure, 10): 10 psi steps from 10 psi up to but excluding the maximum",
        signature="grid", grid=repr(grid)[:200],
    )
    T = gv("Reservoir Temperature (deg F)")
    want = {
        "z-factor": (GAS + "z_factor_DAK", False),
        "Density": (GAS + "density_DAK", True),
        "viscosity": (GAS + "viscosity_Sutton", True),
        "compressibility": (GAS + "compressibility_DAK", False),
    }
    if isinstance(grid, Vec):
        for colname, (callee, with_g) in want.items():
            v = tbl.items.get(colname)
            vn = it.to_nf(v) if v is not None else {}
            if isinstance(v, Vec):
                vn = v.gen
            args = [T, grid.gen, tpc, ppc] + ([gv("Gas Specific Gravity")] if with_g else [])
            ctx.identity(
                rule, q + f":column {colname}" + tag, f.where(),
                f"every row of '{colname}' is {callee.split('.')[-1]}(T, row pressure, Sutton Tpc, Sutton ppc{', gravity' if with_g else ''})",
                vn, nf.fn(callee, *args),
            )


def _check_sutton_order(ctx, rule, P):
    SQ = GAS + "pseudocritical_point_Sutton"
    # order of the returned pair
    its = interp(ctx)
    ctx.touch(SQ)
    sp = [x for x in its.run_function(SQ) if x.outcome == "return"]
    oko = bool(sp)
    for x in sp:
        v = x.value
        if not (isinstance(v, TupV) and len(v.items) == 2):
            oko = False
            continue
        e0, e1 = its.to_nf(v.items[0]), its.to_nf(v.items[1])
        has = lambda e, k: any(a == ("sym", repr(k)) for a in nf.atoms(e))
        if not (has(e0, "critical temperature") and not has(e0, "critical pressure") and has(e1, "critical pressure")):
            oko = False
    ctx.check(oko, rule, SQ + ":return order", P.func(SQ).where(), "the Sutton function returns (pseudocritical temperature, pseudocritical pressure) in the order build_pvt_gas unpacks them", signature="return order")


HC = {
    True: ("120.1", "429", "-62.9", "671.1", "-14", "-34.3"),  # dry gas (Sutton 2007)
    False: ("164.3", "357.7", "-67.7", "744", "-125.4", "5.9"),  # wet gas / condensate
}


def check_sutton(ctx, rule):
    P = ctx.P
    SQ = GAS + "pseudocritical_point_Sutton"
    f = P.func(SQ)
    it = interp(ctx)
    ctx.touch(SQ)
    from ..values import StrV

    # the guard, decided on concrete fluid names: the two documented ones return on every path, any other raises
    # ValueError on every path before any arithmetic (evaluation with a literal argument, so that a tuple test, a set
    # test and a dictionary lookup of the fluid type are all the same to the rule)
    by_fluid = {}
    for name in ("dry gas", "wet gas", "condensate", "dry", "Dry Gas", ""):
        by_fluid[name] = it.run_function(SQ, args={"fluid": StrV(name)})
    # (other validation of the arguments may raise on its own paths - it cannot depend on the literal fluid name)
    bad_accept = [
        n for n in ("condensate", "dry", "Dry Gas", "")
        if any(p.outcome != "raise" or any(e.kind in ("ext_call", "opaque_call") for e in p.events) for p in by_fluid[n]) or not any(p.exc == "ValueError" for p in by_fluid[n])
    ]
    bad_reject = [n for n in ("dry gas", "wet gas") if not any(p.outcome == "return" for p in by_fluid[n])]
    ctx.check(
        not bad_accept and not bad_reject, "C19-d", SQ + ":unknown fluid", f.where(),
        "ValueError is raised, before any arithmetic, exactly when the fluid type is not a member of the two-element collection {'dry gas', 'wet gas'}",
        signature="fluid guard", wrongly_accepted=bad_accept, wrongly_rejected=bad_reject,
    )
    rets = [(True, p) for p in by_fluid["dry gas"] if p.outcome == "return"] + [(False, p) for p in by_fluid["wet gas"] if p.outcome == "return"]
    frac = nf.fn("[]", nf.sym("non_hydrocarbon_properties"), nf.sym("'fraction'"))

    def zero(a):
        if nf.atom_poly(a) == frac:
            return {}
        if a[0] == "fn" and a[1] in ("bsum", "sum", "[]") and a[2] and not nf.unkey(a[2][0]):
            return {}
        return None

    g = nf.sym("specific_gravity")
    n = 0
    for dry, p in rets:
        v = p.value
        if not (isinstance(v, TupV) and len(v.items) == 2):
            raise AnalysisError(f"{SQ}: unexpected return shape")
        n += 1
        c = [nf.const_text(x) for x in HC[dry]]
        t_hc = nf.add(c[0], nf.add(nf.mul(c[1], g), nf.mul(c[2], nf.mul(g, g))))
        p_hc = nf.add(c[3], nf.add(nf.mul(c[4], g), nf.mul(c[5], nf.mul(g, g))))
        tag = "dry gas" if dry else "wet gas"
        try:
            e0 = nf.subst(it.to_nf(v.items[0]), zero)
            e1 = nf.subst(it.to_nf(v.items[1]), zero)
        except nf.NFError as e:
            raise AnalysisError(f"{SQ}: substitution fraction := 0 left the fragment: {e}")
        ctx.identity(rule, SQ + f":no contaminants, T_pc [{tag}]", f.where(), "with all contaminant fractions zero the pseudocritical temperature is Sutton's hydrocarbon correlation of the gas gravity (Wichert-Aziz correction vanishes)", nf.add(e0, nf.const_text("459.67")), t_hc)
        ctx.identity(rule, SQ + f":no contaminants, p_pc [{tag}]", f.where(), "with all contaminant fractions zero the pseudocritical pressure is Sutton's hydrocarbon correlation of the gas gravity", e1, p_hc)
        # extra components enter through linear reductions only; epsilon reads rows 1 (H2S) and 2 (CO2) by position
        bad = []
        for val in (it.to_nf(v.items[0]), it.to_nf(v.items[1])):
            for a in nf.atoms(val):
                if a[0] == "fn" and a[1] == "[]" and nf.unkey(a[2][0]) == frac:
                    k = nf.as_int(nf.unkey(a[2][1])) if len(a[2]) == 2 else None
                    if k not in (1, 2):
                        bad.append(nf.show(nf.atom_poly(a), 80))
        # nothing divides by a quantity that vanishes when there are no contaminants (a weighted average over the
        # contaminant fractions, a normalisation by their sum): 0 * (x / 0) is not 0 in floating point - it raises or is NaN
        vanishing = []
        for e in p.events:
            if e.kind == "ext_call" and e.data["callee"] in ("numpy.average", "numpy.ma.average") and e.data["args"].get("weights") is not None:
                w = it.to_nf(e.data["args"]["weights"])
                try:
                    if not nf.subst(w, zero):
                        vanishing.append(f"np.average(weights={nf.show(w, 60)}) at line {e.line}")
                except nf.NFError:
                    pass
            if e.kind == "weighted_average":
                try:
                    if not nf.subst(it.to_nf(e.data["weights_sum"]), zero):
                        vanishing.append(f"np.average: weights sum {nf.show(it.to_nf(e.data['weights_sum']), 60)} at line {e.line}")
                except nf.NFError:
                    pass
        for val in (it.to_nf(v.items[0]), it.to_nf(v.items[1])):
            for m_ in val:
                for atom, ex in m_:
                    exn = nf.unkey(ex)
                    if nf.is_const(exn) and nf.cval(exn) < 0:
                        try:
                            base0 = nf.subst(nf.atom_poly(atom), zero)
                        except nf.NFError:
                            continue
                        if not base0:
                            vanishing.append("division by " + nf.show(nf.atom_poly(atom), 60))
        ctx.check(
            not vanishing, rule, SQ + f":no division by the contaminant total [{tag}]", f.where(),
            "no denominator vanishes when all contaminant fractions are zero (the contaminant-free point must evaluate, and equal the hydrocarbon correlation)",
            signature="vanishing denominator " + "; ".join(sorted(set(vanishing)))[:120], denominators=sorted(set(vanishing)),
        )
        ctx.check(
            not bad, rule, SQ + f":contaminant rows [{tag}]", f.where(),
            "individual fractions are read only at the fixed rows 1 (H2S) and 2 (CO2); any further component enters through sums over all rows, so a zero-fraction extra row changes nothing",
            signature="rows " + ",".join(sorted(set(bad)))[:120], reads=sorted(set(bad)),
        )
    ctx.floor(rule, n, 2, "dryness arms of the Sutton point")


def check(ctx):
    check_delegation(ctx, "C19-a")
    check_builder(ctx, "C19-b")
    check_sutton(ctx, "C19-c")
    # the facade maps scalar correlations over arrays with np.vectorize: the output type is inferred from the first
    # element, or cast to a stated one - either way it has to be double for the facade to reproduce the correlation
    from .dtypes import check_vectorize

    check_vectorize(ctx, "C19-e", ["bluebonnet.fluids.fluid"])
    ctx.floor("C19", len(ctx.obligs), 25, "facade / builder obligations")
