"""C07 - density, formation volume factor and compressibility are mutually consistent.

All obligations are exact identities between library functions that share uninterpreted atoms
(Z = z_factor_DAK(T,p,Tpc,ppc), Bo = b_o_Standing(...), Rs = solution_gor_Standing(...),
Bw = b_water_McCain(T,p)).  Not decided: sign and pressure-monotonicity of gas viscosity.
"""
from __future__ import annotations

from .. import nf
from ..model import AnalysisError
from ..values import Num
from .common import each, GAS, OIL, POSITIVE, WATER, only, returns, run
from .gasdak import K45967, PPC, PR, RHO, TPC0, TR, Z, eos_residual, reduced_args

LEVEL = "other"


def _atoms_named(p, name):
    return sorted({a for a in nf.atoms(p) if a[0] == "fn" and a[1] == name}, key=repr)


def _expect_args(ctx, rule, construct, where, val, callee, names, what):
    ats = _atoms_named(val, callee)
    want = tuple(nf.key(nf.sym(n)) for n in names)
    ok = len(ats) == 1 and ats[0][2] == want
    ctx.check(ok, rule, construct, where, what, signature="arguments of " + callee.split(".")[-1], found=[nf.show(nf.atom_poly(a), 300) for a in ats])
    return nf.atom_poly(ats[0]) if ok else None


def check(ctx):
    P = ctx.P
    ctx.assume(POSITIVE)
    ZQ = GAS + "z_factor_DAK"

    # ---- C07-a gas: rho * Bg independent of pressure and Z; density is p*M/(Z*R*T)
    fd, fb = P.func(GAS + "density_DAK"), P.func(GAS + "b_factor_DAK")
    d = only(run(ctx, GAS + "density_DAK", opaque={ZQ}), "density_DAK", ctx, "C07-a").value.nf
    b = only(run(ctx, GAS + "b_factor_DAK", opaque={ZQ}), "b_factor_DAK", ctx, "C07-a").value.nf
    names = ("temperature", "pressure", "temperature_pseudocritical", "pressure_pseudocritical")
    zd = _expect_args(ctx, "C07-a", GAS + "density_DAK:Z arguments", fd.where(), d, ZQ, names, "density uses the library's Z at its own (T, p, Tpc, ppc)")
    zb = _expect_args(ctx, "C07-a", GAS + "b_factor_DAK:Z arguments", fb.where(), b, ZQ, names, "Bg uses the library's Z at its own (T, p, Tpc, ppc)")
    d_gas, zd_gas = d, zd
    prod = nf.mul(d, b)
    # independence is decided by differentiation (exact: the derivative must vanish identically), which is
    # insensitive to un-cancelled factors such as (T + 459.67)^-1 (T + 459.67)
    zsym = nf.sym("@Z")
    prod_s = nf.subst(prod, lambda a: zsym if a[0] == "fn" and a[1] == ZQ else None)
    allowed = {"specific_gravity", "pressure_standard", "temperature_standard"}
    dep = sorted(v for v in (nf.symbols(prod_s) - allowed) if not nf.is_zero(nf.diff(prod_s, v)))
    ctx.check(
        not dep, "C07-a", GAS + "density_DAK*b_factor_DAK", fd.where(),
        "gas density times Bg is the standard-condition mass content: it depends on the gas gravity and the standard conditions only - not on pressure, temperature or Z",
        signature="rho*Bg depends on " + ",".join(dep), product=nf.show(prod, 400),
    )
    if zd is not None:
        # density * Z * (T + 459.67) / (p * gamma) must be a positive constant (M_air / R)
        q = nf.div(nf.mul(nf.mul(d, zd), nf.add(nf.sym("temperature"), K45967)), nf.mul(nf.sym("pressure"), nf.sym("specific_gravity")))
        ctx.check(
            nf.is_const(q) and nf.cval(q) > 0, "C07-a", GAS + "density_DAK:real-gas law", fd.where(),
            "density == p * (M_air * gamma) / (Z * R * (T + 459.67)) for positive constants M_air, R",
            signature="real-gas law", ratio=nf.show(q, 200),
        )

    # ---- C07-b oil: rho_o * Bo == a*gamma_o + b*gamma_g*Rs  (on every trace partition of the function)
    fo = P.func(OIL + "density_Standing")
    BQ, RQ = OIL + "b_o_Standing", OIL + "solution_gor_Standing"
    own = ("temperature", "pressure", "api_gravity", "gas_specific_gravity", "solution_gor_initial")
    for tg, pth in each(run(ctx, OIL + "density_Standing", opaque={BQ, RQ}), "density_Standing"):
        rho_o = pth.value.nf if isinstance(pth.value, Num) else {}
        bo = _expect_args(ctx, "C07-b", OIL + "density_Standing:Bo arguments" + tg, fo.where(), rho_o, BQ, own, "oil density divides by the library's b_o_Standing at the function's own arguments")
        rs = _expect_args(ctx, "C07-b", OIL + "density_Standing:Rs arguments" + tg, fo.where(), rho_o, RQ, own, "oil density uses the library's solution_gor_Standing at the function's own arguments")
        if bo is not None and rs is not None:
            mass = nf.mul(rho_o, bo)
            gamma_o = nf.div(nf.const_text("141.5"), nf.add(nf.const_text("131.5"), nf.sym("api_gravity")))
            ref = nf.add(nf.mul(nf.const_text("62.37"), gamma_o), nf.mul(nf.mul(nf.const_text("0.0136"), nf.sym("gas_specific_gravity")), rs))
            ctx.identity(
                "C07-b", OIL + "density_Standing*b_o_Standing" + tg, fo.where(),
                "oil density times Bo == 62.37*gamma_o + 0.0136*gamma_g*Rs (stock-tank oil plus dissolved gas), gamma_o = 141.5/(131.5+API)",
                mass, ref,
            )

    # ---- C07-c water: rho_w * Bw == rho_stp(salinity)  (on every trace partition)
    fw = P.func(WATER + "density_water_McCain")
    WQ = WATER + "b_water_McCain"
    S = nf.sym("salinity")
    brine = nf.add(nf.add(nf.const_text("62.368"), nf.mul(nf.const_text("0.438603"), S)), nf.mul(nf.const_text("1.60074e-3"), nf.mul(S, S)))
    for tg, pth in each(run(ctx, WATER + "density_water_McCain", opaque={WQ}), "density_water_McCain"):
        rho_w = pth.value.nf if isinstance(pth.value, Num) else {}
        bw = _expect_args(ctx, "C07-c", WATER + "density_water_McCain:Bw arguments" + tg, fw.where(), rho_w, WQ, ("temperature", "pressure"), "water density divides by the library's b_water_McCain at its own (T, p)")
        if bw is not None:
            mass = nf.mul(rho_w, bw)
            ok = nf.symbols(mass) <= {"salinity"} and not _atoms_named(mass, WQ)
            ctx.check(
                ok, "C07-c", WATER + "density_water_McCain*b_water_McCain" + tg, fw.where(),
                "water density times Bw depends on salinity only (brine density at standard conditions)",
                signature="rho_w*Bw depends on p or T", product=nf.show(mass, 300),
            )
            ctx.identity(
                "C07-c", WATER + "density_water_McCain:brine density" + tg, fw.where(),
                "rho_w * Bw == 62.368 + 0.438603 S + 1.60074e-3 S^2 (McCain's brine density at standard conditions, S in weight percent of dissolved solids)",
                mass, brine,
            )

    # ---- C07-d gas compressibility == d ln(rho)/dp of the library's own equation of state
    # Parametrise the state by (Tr, rho, Z): pr := rho Tr Z / 0.27, and let z_factor_DAK(...) return the symbol Z,
    # so that the function's own reduced density is exactly the symbol rho.
    fc = P.func(GAS + "compressibility_DAK")
    k027 = nf.const_text("0.27")
    pr_of = nf.div(nf.mul(nf.mul(RHO, TR), Z), k027)
    args = dict(reduced_args())
    args["pressure"] = Num(nf.mul(pr_of, PPC))
    want = tuple(nf.key(args[n].nf) for n in names)
    seen = []

    def zstub(bound):
        seen.append(tuple(nf.key(bound[n].nf) if isinstance(bound.get(n), Num) else None for n in names))
        return Num(Z)

    c = only(run(ctx, GAS + "compressibility_DAK", args=args, stubs={ZQ: zstub}), "compressibility_DAK", ctx, "C07-d").value.nf
    ctx.check(
        bool(seen) and all(x == want for x in seen), "C07-d", GAS + "compressibility_DAK:Z arguments", fc.where(),
        "compressibility uses the library's Z at its own (T, p, Tpc, ppc)", signature="arguments of z_factor_DAK", calls=len(seen),
    )
    F, fi, _ev, _p = eos_residual(ctx)
    lead = nf.div(nf.mul(k027, PR), nf.mul(TR, RHO))
    z_eos = nf.sub(lead, F)  # Z(rho; Tr) as solved by z_factor_DAK
    dz_eos = nf.diff(z_eos, "rho")
    y = nf.mul(nf.mul(c, PPC), pr_of)  # c_g * p  ==  d ln rho / d ln p, claimed == 1 / (1 + (rho/Z) Z')
    sums = sorted({a for m in y for a, e in m if a[0] == "sum" and nf.as_int(nf.unkey(e)) == -1}, key=repr)
    decomposed = False
    if len(sums) == 1:
        S = nf.unkey(sums[0][1])
        t0 = [(m, cf) for m, cf in S.items() if not nf.depends({m: cf}, "rho")]
        if len(t0) == 1:
            S_true = nf.div(S, {t0[0][0]: t0[0][1]})  # 1 + rho * dZ_code / Z
            dz_code = nf.div(nf.mul(nf.sub(S_true, nf.ONE), Z), RHO)
            decomposed = True
            ctx.identity(
                "C07-d", GAS + "compressibility_DAK:assembly", fc.where(),
                "c_g * p == 1 / (1 + (rho/Z) * dZ/drho)  (d ln rho/d ln p for rho proportional to p/Z(rho)), with dZ/drho the function's own derivative term",
                nf.mul(y, S_true), nf.ONE,
            )
            d = nf.sub(dz_eos, dz_code)
            if nf.is_zero(d):
                ctx.ok(
                    "C07-d", GAS + "compressibility_DAK:dZ/drho vs z_factor_DAK", fc.where(),
                    "the dZ/drho used for compressibility is the rho-derivative of the equation solved in z_factor_DAK (sibling copies of the DAK constants agree)",
                    dZdrho=nf.show(dz_code, 400),
                )
            else:
                ctx.bad(
                    "C07-d", GAS + "compressibility_DAK:dZ/drho vs z_factor_DAK", fc.where(),
                    "the dZ/drho used for compressibility is the rho-derivative of the equation solved in z_factor_DAK (sibling copies of the DAK constants agree)",
                    signature=nf.show(d, 300), dZdrho_solved_minus_dZdrho_used=nf.show(d, 500),
                )
    if not decomposed:
        lhs = nf.mul(y, nf.add(nf.ONE, nf.div(nf.mul(RHO, dz_eos), Z)))
        r = nf.clear_denominators(nf.sub(lhs, nf.ONE))
        ctx.check(
            not r, "C07-d", GAS + "compressibility_DAK:dZ/drho vs z_factor_DAK", fc.where(),
            "c_g * p == 1 / (1 + (rho/Z) dZ/drho) with dZ/drho the derivative of the equation solved in z_factor_DAK",
            signature="combined: " + nf.show(r, 200),
        )

    # ---- C07-e viscosity depends on pressure only through the library's own density at the function's own arguments:
    # with Z the library's z-factor at (T, p, Tpc, ppc) and rho = density_DAK's own expression in Z, substituting
    # Z := (value of Z that gives density rho) makes the pressure disappear from the viscosity
    fv = P.func(GAS + "viscosity_Sutton")
    mu = only(run(ctx, GAS + "viscosity_Sutton", opaque={ZQ}), "viscosity_Sutton", ctx, "C07-e").value.nf
    zv = _expect_args(ctx, "C07-e", GAS + "viscosity_Sutton:Z arguments", fv.where(), mu, ZQ, names, "viscosity is computed from the library's Z at its own (T, p, Tpc, ppc)")
    if zv is not None and zd_gas is not None:
        # density_DAK: d == Kd * p * gamma / (Z * (T + 459.67))  =>  Z == Kd * p * gamma / (rho * (T + 459.67))
        Kd = nf.div(nf.mul(nf.mul(d_gas, zd_gas), nf.add(nf.sym("temperature"), K45967)), nf.mul(nf.sym("pressure"), nf.sym("specific_gravity")))
        rho_sym = nf.sym("@rho")
        z_of_rho = nf.div(nf.mul(nf.mul(Kd, nf.sym("pressure")), nf.sym("specific_gravity")), nf.mul(rho_sym, nf.add(nf.sym("temperature"), K45967)))
        zatom = _atoms_named(mu, ZQ)[0]
        mu_rho = nf.subst(mu, lambda a: z_of_rho if a == zatom else None)
        ctx.check(
            nf.is_const(Kd) and nf.is_zero(nf.diff(mu_rho, "pressure")), "C07-e", GAS + "viscosity_Sutton:density", fv.where(),
            "written in terms of the library's density rho = p M / (Z R T), the viscosity no longer depends on pressure: it uses that density (at its own arguments) and pressure in no other way",
            signature="viscosity depends on pressure besides density", derivative=nf.show(nf.diff(mu_rho, "pressure"), 200),
        )
    # ---- C07-f viscosity positive and increasing with pressure (sign decisions over the declared range)
    from .gasdak import isotherm_rules, viscosity_rules

    viscosity_rules(ctx, "C07-f")
    isotherm_rules(ctx, "C07-f")

    # ---- C07-g the Fluid facade hands these quantities out unchanged (users reach FVF and viscosity through it)
    from .c19 import check_delegation

    check_delegation(ctx, "C07-g", only={"gas_FVF", "gas_viscosity", "water_FVF", "oil_FVF"})

    # ---- C07-h the array form of the oil FVF is the scalar form per element (density x Bo is claimed at every pressure
    # of an array as well: element i of the result belongs to element i of the input) - the arm rules of C11
    from .c11 import check_split

    check_split(ctx, "C07-h", "C07-h", names=["b_o_Standing"])
    # ... and the array forms keep what they compute: a result buffer allocated like the caller's pressure array states a
    # float type (an integer pressure grid would truncate the dissolved-gas ratio that density and FVF are both built on,
    # and the array path would leave the scalar one) - the buffer rule of C11-a / C12-e over the oil correlations
    from .dtypes import check_module_buffers

    check_module_buffers(ctx, "C07-h", "bluebonnet.fluids.oil", floor=2)

    # ---- C07-i the gas PVT table hands these quantities on column by column: each column is its own correlation at the row's
    # pressure (density, viscosity and compressibility of the *same* gas; a pair of exchanged columns leaves every single
    # formula intact) - the builder rule of C19-b
    from .c19 import check_builder

    check_builder(ctx, "C07-i")
    ctx.floor("C07", len(ctx.obligs), 11, "consistency obligations")
