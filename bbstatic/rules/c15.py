"""C15 - multiphase pseudopressure is the pressure integral of total mobility.

Decided: (a) at the cumulative-trapezoid call the abscissa is the pressure grid and the ordinate is
not (argument roles bound through the resolved signature), initial=0; (b) the ordinate is exactly
the documented total mass mobility and equals the sibling lambda_combined_func; (c) from_table
hands the computed pseudopressure / diffusivity / pressure column to the wrapper, built from
interpolators keyed by the column they interpolate.
Not decided: positivity of mobility on a given table, trapezoid error.
"""
from __future__ import annotations

from .. import nf
from ..model import AnalysisError
from ..values import ClassV, DictV, ExtObj, Num
from .common import FP, QUADRATURE, check_quadrature, interp, only, returns, run
from .multiphase import mobility

LEVEL = "other"

PVT_KEYS = ("Bo", "Bg", "Bw", "Rs", "Rv", "mu_o", "mu_g", "mu_w")
KR_KEYS = ("kro", "krg", "krw")


def col(table, key):
    return nf.fn("[]", nf.sym(table), nf.sym(repr(key)))


def check(ctx):
    P = ctx.P
    ctx.assume("oracle: total mobility of docs/background.md with k/rho_ref == 1")
    q = FP + "pseudopressure_threephase"
    f = P.func(q)
    ctx.touch(q)
    it = interp(ctx)
    from .common import each, handwritten_quadrature

    ql = FP + "lambda_combined_func"
    L = only(run(ctx, ql), ql, ctx, "C15-b").value
    results = each(it.run_function(q), q)
    n_quad = 0
    # every distinct result (a fast path written out by hand next to the library call, say) has to be the integral
    for tag, p in results:
        evs = [e for e in p.events if e.kind == "ext_call" and e.data["callee"] in QUADRATURE]
        if len(evs) > 1:
            raise AnalysisError(f"{q}: expected exactly one quadrature call, found {len(evs)}{tag}")
        rv = it.to_nf(p.value)
        if evs:
            n_quad += 1
            ev = evs[0]
            where = f"{f.file}:{ev.line}"
            y = check_quadrature(ctx, "C15-a", ev, it, {"pressure"}, q + ":cumulative_trapezoid" + tag, where)
            # the function returns the quadrature result itself (times a constant at most)
            ratio = nf.div(rv, it.to_nf(ev.data["result"]))
            ctx.check(
                nf.is_const(ratio) and nf.cval(ratio) > 0, "C15-a", q + ":return" + tag, f.where(),
                "the function returns the cumulative integral (times a positive constant)", signature="return value", ratio=nf.show(ratio, 200),
            )
            ynf = y if y is not None else it.to_nf(ev.data["args"].get("y") if y is None and not _is_root(it, ev.data["args"].get("y")) else ev.data["args"].get("x"))
        else:
            where = f.where()
            n_quad += 1
            ynf = handwritten_quadrature(ctx, "C15-a", it, rv, {"pressure"}, q + ":hand-written trapezoid" + tag, where)
            if ynf is None:
                continue
            # returned as it is: value == concat(0, cumsum(panels)) with no further factor
            cat = [a_ for a_ in nf.atoms(rv) if a_[0] == "fn" and a_[1].split("{")[0] in ("numpy.concatenate", "numpy.hstack", "numpy.append", "numpy.r_", "numpy.insert")]
            ratio = nf.div(rv, nf.atom_poly(cat[0])) if cat else {}
            ctx.check(
                bool(ratio) and nf.is_const(ratio) and nf.cval(ratio) > 0, "C15-a", q + ":return" + tag, f.where(),
                "the function returns the cumulative integral (times a positive constant)", signature="return value", ratio=nf.show(ratio, 200),
            )
        # ---- C15-b integrand == documented mobility == sibling
        ctx.identity(
            "C15-b", q + ":integrand" + tag, where,
            "the integrated quantity is rho_o(Rv krg/(mu_g Bg) + kro/(mu_o Bo)) + rho_g(Rs kro/(mu_o Bo) + krg/(mu_g Bg)) + rho_w krw/(mu_w Bw)",
            ynf, mobility(),
        )
        ctx.identity(
            "C15-b", q + ":integrand vs lambda_combined_func" + tag, where,
            "the integrand equals the library's own total mobility lambda_combined_func (sibling copies agree)",
            ynf, L.nf if isinstance(L, Num) else nf.sym("?"),
        )
    ctx.floor("C15-a", n_quad, 1, "quadrature in pseudopressure_threephase")

    check_from_table(ctx, "C15-c", q)
    from .common import check_interp_options

    check_interp_options(ctx, "C15-d", ["bluebonnet.flow.flowproperties"], 5)
    # C15-e: "scaled pseudopressure is 1 at the initial pressure": the wrapper's scaling factor is interpolated at p_i and
    # m_i is the scaled column interpolated at p_i (shared with C03-a / C09-c)
    from .c03 import scaling_factor
    from .c09 import check_initial_value

    scaling_factor(ctx, "C15-e")
    check_initial_value(ctx, "C15-e", "C15-e", classes=("FlowProperties",))
    ctx.floor("C15", len(ctx.obligs), 10, "multiphase pseudopressure obligations")


def check_from_table(ctx, rule, q=None):
    """from_table wiring (shared with C16: the diffusivity it tabulates is alpha_multiphase's, i.e. mobility over storage)"""
    P = ctx.P
    q = q or FP + "pseudopressure_threephase"
    # ---- C15-c from_table wiring
    qf = FP + "FlowPropertiesTwoPhase.from_table"
    ff = P.func(qf)
    qa = FP + "alpha_multiphase"
    cls = P.cls(FP + "FlowPropertiesTwoPhase")
    it2 = interp(ctx, opaque={qa, q})
    ctx.touch(qf)
    fpaths = returns(it2.run_function(qf, args={"cls": ClassV(cls)}))
    if not fpaths:
        raise AnalysisError(f"{qf}: no returning partition")
    pcol, socol = col("pvt_props", "pressure"), col("pvt_props", "So")
    direct = all(any(e.kind == "int_call" and e.data["callee"] == c and e.func == qf for e in fp_.events) for fp_ in fpaths for c in (q, qa))
    if direct:
        for pi, fp_ in enumerate(fpaths):
            tag = "" if len(fpaths) == 1 else f" [path {pi + 1}: " + ", ".join(("" if c else "not ") + d[:60] for _k, c, d in fp_.decisions) + "]"
            _from_table_path(ctx, it2, fp_, qf, ff, q, qa, pcol, socol, tag, rule)
    else:
        _from_table_by_value(ctx, qf, ff, q, qa, cls, pcol, socol, rule)


def _from_table_path(ctx, it2, fp_, qf, ff, q, qa, pcol, socol, tag, rule="C15-c"):
    calls = {e.data["callee"]: e for e in fp_.events if e.kind == "int_call" and e.func == qf}

    def table_ok(d, keys, table, xkey):
        bad = []
        if not isinstance(d, DictV):
            return ["not a dict of interpolators"]
        for k in keys:
            v = d.items.get(k)
            if not (isinstance(v, ExtObj) and v.qual == "scipy.interpolate.interp1d"):
                bad.append(f"{k}: not an interp1d")
                continue
            x, yv = v.args.get("x"), v.args.get("y")
            if it2.to_nf(x) != col(table, xkey):
                bad.append(f"{k}: abscissa is {nf.show(it2.to_nf(x), 80)}")
            if it2.to_nf(yv) != col(table, k):
                bad.append(f"{k}: ordinate is {nf.show(it2.to_nf(yv), 80)}")
        return bad

    for callee, argnames in ((q, ("pressure", "So", "pvt", "kr")), (qa, ("pressure", "So", "phi", "Sw", "pvt", "kr"))):
        e = calls.get(callee)
        if e is None:
            ctx.bad(rule, qf + ":" + callee.split(".")[-1] + tag, ff.where(), f"from_table computes {callee.split('.')[-1]}", signature="call missing")
            continue
        a = e.data["args"]
        where = f"{ff.file}:{e.line}"
        probs = []
        if it2.to_nf(a["pressure"]) != pcol:
            probs.append("pressure <- " + nf.show(it2.to_nf(a["pressure"]), 80))
        if it2.to_nf(a["So"]) != socol:
            probs.append("So <- " + nf.show(it2.to_nf(a["So"]), 80))
        for nm in ("phi", "Sw"):
            if nm in argnames and it2.to_nf(a[nm]) != nf.sym(nm):
                probs.append(f"{nm} <- " + nf.show(it2.to_nf(a[nm]), 80))
        probs += ["pvt " + x for x in table_ok(a["pvt"], PVT_KEYS, "pvt_props", "pressure")]
        probs += ["kr " + x for x in table_ok(a["kr"], KR_KEYS, "kr_props", "So")]
        if isinstance(a["pvt"], DictV):
            fb = [it2.to_nf(x) for x in a["pvt"].fallback]
            if fb != [nf.sym("reference_densities")] and not all(k in a["pvt"].items for k in ("rho_o0", "rho_g0", "rho_w0")):
                probs.append("reference densities are not merged into pvt")
            for k_ in ("rho_o0", "rho_g0", "rho_w0"):
                # ... each under its own name, read by that name (a labelled container - a dict, a pandas Series - that is
                # unpacked by position gives oil the density of whatever comes first)
                if k_ in a["pvt"].items:
                    got_ = it2.to_nf(a["pvt"].items[k_])
                    if got_ != col("reference_densities", k_):
                        probs.append(f"{k_} <- " + nf.show(got_, 80))
        ctx.check(
            not probs, rule, qf + ":" + callee.split(".")[-1] + " arguments" + tag, where,
            f"{callee.split('.')[-1]} receives the table's pressure and So columns and interpolators keyed by the column they interpolate (x = pressure / So)",
            signature="; ".join(probs)[:200], problems=probs,
        )
    cons = [e for e in fp_.events if e.kind == "construct" and e.func == qf]
    if len(cons) != 1:
        raise AnalysisError(f"{qf}: expected one constructor call")
    a = cons[0].data["args"]
    d = a.get("pvt_props")
    where = f"{ff.file}:{cons[0].line}"
    if not isinstance(d, DictV):
        from ..values import ExtObj as _ExtObj

        if isinstance(d, _ExtObj) and d.qual.startswith("pandas."):
            # a frame assembled by pandas (concat / Series / join) pairs its pieces by index label, not by position: the
            # caller's pressure column keeps the caller's labels, the columns computed here get 0..n-1
            ctx.bad(
                rule, qf + ":wrapper table" + tag, where,
                "the wrapper is given a mapping of column name -> array built here, so that row i of every column belongs to row i of the caller's table (a pandas object assembled with concat / Series aligns the pieces on their index labels instead)",
                signature="wrapper table " + d.qual, built_by=d.qual,
            )
            return
        raise AnalysisError(f"{qf}: the wrapper is not given a literal table")
    want = {"pressure": ("column", pcol), "pseudopressure": ("call", q), "alpha": ("call", qa)}
    for k, (kind, w) in want.items():
        v = d.items.get(k)
        vn = it2.to_nf(v) if v is not None else None
        if kind == "column":
            ok = vn == w
        else:
            at = it2.single_atom(vn) if vn is not None else None
            ok = at is not None and at[0] == "fn" and at[1] == w
        ctx.check(
            ok, rule, qf + f":wrapper['{k}']" + tag, where,
            f"the wrapper's '{k}' column is " + ("the table's pressure column" if kind == "column" else f"the result of {w.split('.')[-1]}"),
            signature=f"wrapper {k}", found=nf.show(vn, 160) if vn is not None else "missing",
        )
    ctx.check(
        it2.to_nf(a.get("p_i")) == nf.sym("p_i"), rule, qf + ":wrapper p_i" + tag, where,
        "the wrapper is built at the caller's initial pressure", signature="p_i",
    )


def _from_table_by_value(ctx, qf, ff, q, qa, cls, pcol, socol, rule="C15-c"):
    """from_table does not call pseudopressure_threephase / alpha_multiphase itself (it shares intermediate results,
    say): the columns it hands to the wrapper must then *equal* what those two functions return for the table's
    pressure and So columns and the interpolator tables it built - evaluated in the same trace partition."""
    from ..values import FuncV, Inst

    P = ctx.P
    ql, qc = FP + "lambda_combined_func", FP + "compressibility_combined_func"
    it3 = interp(ctx)

    def table_problems(d, keys, table, xkey):
        bad = []
        if not isinstance(d, DictV):
            return ["not a dict of interpolators"]
        for k in keys:
            v = d.items.get(k)
            if not (isinstance(v, ExtObj) and v.qual == "scipy.interpolate.interp1d"):
                bad.append(f"{k}: not an interp1d")
                continue
            if it3.to_nf(v.args.get("x")) != col(table, xkey):
                bad.append(f"{k}: abscissa is {nf.show(it3.to_nf(v.args.get('x')), 80)}")
            if it3.to_nf(v.args.get("y")) != col(table, k):
                bad.append(f"{k}: ordinate is {nf.show(it3.to_nf(v.args.get('y')), 80)}")
        return bad

    def runner(x):
        fi = P.func(qf)
        bound = x.symbolic_args(fi)
        bound["cls"] = ClassV(cls)
        val = x.enter(fi, {k: v for k, v in bound.items()}, None, None, fi.cls)
        src = [e for e in x.events if e.kind == "int_call" and e.data["callee"] in (q, qa, ql, qc) and "pvt" in e.data["args"]]
        pvt = next((e.data["args"]["pvt"] for e in src), None)
        kr = next((e.data["args"]["kr"] for e in src if "kr" in e.data["args"]), None)
        if pvt is None or kr is None:
            return val
        pr = next(e.data["args"]["pressure"] for e in src)
        so = next(e.data["args"]["So"] for e in src)
        x.log("marker", ff.node, name="reference")
        ref_m = x.call(FuncV(P.func(q), None), [pr, so, pvt, kr], {}, ff.node, None)
        ref_a = x.call(FuncV(P.func(qa), None), [pr, so, Num(nf.sym("phi")), Num(nf.sym("Sw")), pvt, kr], {}, ff.node, None)
        x.log("reference", ff.node, m=ref_m, alpha=ref_a, pvt=pvt, kr=kr, pressure=pr, So=so)
        return val

    n = 0
    for fp_ in returns(it3.explore(runner)):
        ref = [e for e in fp_.events if e.kind == "reference"]
        mark = next((k for k, e in enumerate(fp_.events) if e.kind == "marker" and e.data.get("name") == "reference"), len(fp_.events))
        cons = [e for e in fp_.events[:mark] if e.kind == "construct" and isinstance(e.data["args"].get("pvt_props"), DictV)]
        if len(ref) != 1 or len(cons) != 1:
            ctx.bad(rule, qf + ":wiring", ff.where(), "from_table builds interpolator tables, evaluates mobility / diffusivity / pseudopressure on the table's columns and hands them to one wrapper", signature="from_table shape", references=len(ref), constructions=len(cons))
            continue
        r = ref[0].data
        n += 1
        probs = []
        if it3.to_nf(r["pressure"]) != pcol:
            probs.append("pressure <- " + nf.show(it3.to_nf(r["pressure"]), 80))
        if it3.to_nf(r["So"]) != socol:
            probs.append("So <- " + nf.show(it3.to_nf(r["So"]), 80))
        probs += ["pvt " + x for x in table_problems(r["pvt"], PVT_KEYS, "pvt_props", "pressure")]
        probs += ["kr " + x for x in table_problems(r["kr"], KR_KEYS, "kr_props", "So")]
        ctx.check(not probs, rule, qf + ":interpolator tables", ff.where(), "the functions are evaluated on the table's pressure and So columns with interpolators keyed by the column they interpolate (x = pressure / So)", signature="; ".join(probs)[:200], problems=probs)
        d = cons[0].data["args"]["pvt_props"]
        where = f"{ff.file}:{cons[0].line}"
        for k, want, what in (("pressure", pcol, "the table's pressure column"), ("pseudopressure", it3.to_nf(r["m"]), "what pseudopressure_threephase returns for these columns and tables"), ("alpha", it3.to_nf(r["alpha"]), "what alpha_multiphase returns for these columns and tables")):
            v = d.items.get(k)
            vn = it3.to_nf(v) if v is not None else None
            ctx.check(vn is not None and nf.equal(vn, want), rule, qf + f":wrapper['{k}']", where, f"the wrapper's '{k}' column is " + what, signature=f"wrapper {k}", found=nf.show(vn, 160) if vn is not None else "missing")
        ctx.check(it3.to_nf(cons[0].data["args"].get("p_i")) == nf.sym("p_i"), rule, qf + ":wrapper p_i", where, "the wrapper is built at the caller's initial pressure", signature="p_i")
    ctx.floor(rule, n, 1, "from_table partitions")


def _is_root(it, v):
    from .common import is_root_variable

    return v is not None and is_root_variable(it, v, {"pressure"})
