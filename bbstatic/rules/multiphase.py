"""Shared oracles for the multiphase functions of flowproperties.py (C15, C16): the documented
total mobility and storage of docs/background.md, over uninterpreted table interpolators."""
from __future__ import annotations

from .. import nf

P_ = nf.sym("pressure")
SO, SW, PHI = nf.sym("So"), nf.sym("Sw"), nf.sym("phi")


def tab(table, key, arg):
    """pvt["key"](arg) as the interpreter names it."""
    return nf.fn(f"[]({table}, '{key}')", arg)


def const_of(table, key):
    return nf.fn("[]", nf.sym(table), nf.sym(repr(key)))


def mobility(p=P_, so=SO, pvt="pvt", kr="kr"):
    X = lambda k: tab(pvt, k, p)
    K = lambda k: tab(kr, k, so)
    oil_m = nf.div(K("kro"), nf.mul(X("mu_o"), X("Bo")))
    gas_m = nf.div(K("krg"), nf.mul(X("mu_g"), X("Bg")))
    wat_m = nf.div(K("krw"), nf.mul(X("mu_w"), X("Bw")))
    lam_o = nf.mul(const_of(pvt, "rho_o0"), nf.add(nf.mul(X("Rv"), gas_m), oil_m))
    lam_g = nf.mul(const_of(pvt, "rho_g0"), nf.add(nf.mul(X("Rs"), oil_m), gas_m))
    lam_w = nf.mul(const_of(pvt, "rho_w0"), wat_m)
    return nf.add(lam_o, nf.add(lam_g, lam_w))


def storage(p, so=SO, sw=SW, phi=PHI, pvt="pvt"):
    X = lambda k: tab(pvt, k, p)
    sg = nf.sub(nf.sub(nf.ONE, so), sw)
    s_o = nf.mul(const_of(pvt, "rho_o0"), nf.add(nf.div(nf.mul(X("Rv"), sg), X("Bg")), nf.div(so, X("Bo"))))
    s_g = nf.mul(const_of(pvt, "rho_g0"), nf.add(nf.div(nf.mul(X("Rs"), so), X("Bo")), nf.div(sg, X("Bg"))))
    s_w = nf.mul(const_of(pvt, "rho_w0"), nf.div(sw, X("Bw")))
    return nf.mul(phi, nf.add(s_o, nf.add(s_g, s_w)))
