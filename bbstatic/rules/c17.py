"""C17 - simulation is invariant to time-origin shifts and equivalent schedule forms.

Decided: (a) everything that reaches the linear solve, and the recovery expression, is invariant
under time[k] -> time[k] + c; recovery uses the time grid only as quadrature abscissa / through
differences; (b) a constant schedule and the scalar setting feed identical terms to the solver;
(c) a schedule of the wrong length raises before the first solve; (d) recovery before any
simulation raises RuntimeError; (e) the recovery interpolator is built on (time, recovery) with
fill values (0, last recovery).
"""
from __future__ import annotations

import ast

from .. import nf
from ..model import AnalysisError
from ..values import BoolV, ExtObj, Inst, Num, TupV, Vec
from .c01 import _step
from .c10 import FAMILY, cache_attribute, method_paths
from .common import QUADRATURE, RES, interp, returns
from .reservoir import SIM_CLASSES, rows_of

LEVEL = "other"
C = nf.sym("@shift")


def shift(p, names=("time", "self.time")):
    def f(a):
        if a[0] == "fn" and a[1] == "[]" and len(a[2]) == 2:
            base = nf.unkey(a[2][0])
            if base in [nf.sym(n) for n in names]:
                return nf.add(nf.atom_poly(a), C)
        return None

    return nf.subst(p, f)


TRANSPARENT = {"[]", "len", "vec", "abs", "log", "minimum", "maximum", "cumsum", "diff", "numpy.diff", "tuple", "list"}


def _whole_shift_changes(p, names=("time", "self.time")):
    """True when (a) the whole time array occurs only under constructs whose meaning is element-wise arithmetic
    (polynomial structure, powers, exp / log, indexing, quadrature slots) and (b) replacing every time t by t + c changes
    the term.  Then the dependence on the time origin is proved, not merely undecided."""
    syms = [("sym", n) for n in names]
    opaque = []

    def walk(q, inside):
        for m_ in q:
            for atom, e in m_:
                if atom in syms and inside:
                    opaque.append(inside)
                walk(nf.unkey(e), inside)
                if atom[0] == "sum":
                    walk(nf.unkey(atom[1]), inside)
                elif atom[0] == "fn":
                    nm = atom[1].split("{")[0]
                    ok = nm in TRANSPARENT or nm.startswith("scipy.integrate.") or nm.startswith("numpy.trapz") or nm.startswith("numpy.trapezoid")
                    for a in atom[2]:
                        walk(nf.unkey(a), inside if ok else (inside or nm))

    walk(p, None)
    if opaque:
        return None  # undecided: the grid is handed to something whose dependence on the origin is not known

    def f(a):
        if a in syms:
            return nf.add(nf.atom_poly(a), C)
        if a[0] == "fn" and a[1] == "[]" and len(a[2]) == 2:
            base = nf.unkey(a[2][0])
            for s_ in syms:
                if base == nf.add(nf.atom_poly(s_), C):
                    return nf.add(nf.fn("[]", nf.atom_poly(s_), nf.unkey(a[2][1])), C)
        return None

    try:
        return not nf.is_zero(nf.sub(nf.subst(p, f), p))
    except nf.NFError:
        return None


def bare_time_uses(p, names=("time", "self.time")):
    """occurrences of the whole time array outside `time[k]` and len(time)"""
    out = []
    syms = [("sym", n) for n in names]

    def walk(q, ctx_ok):
        for m in q:
            for atom, e in m:
                if atom in syms and not ctx_ok:
                    out.append(atom[1])
                walk(nf.unkey(e), False)
                if atom[0] == "sum":
                    walk(nf.unkey(atom[1]), False)
                elif atom[0] == "fn":
                    for k, a in enumerate(atom[2]):
                        ok = (atom[1] == "[]" and k == 0) or atom[1] == "len"
                        walk(nf.unkey(a), ok)

    walk(p, False)
    return out


def check(ctx):
    P = ctx.P
    # ---- C17-a shift invariance of the solver inputs
    for cls in SIM_CLASSES:
        it, f, parts = _step(ctx, cls)
        q = RES + cls + ".simulate"
        seen = set()
        for p, ev, A, b in parts:
            rows = rows_of(A, b.length)
            terms = {"b": b.gen}
            for _k, (pos, v) in b.over.items():
                terms[f"b[{nf.show(pos)}]"] = v
            for lab, row in rows.items():
                for off, v in row.items():
                    terms[f"A[{lab},{off:+d}]"] = v
            sig = tuple(sorted((k, nf.key(v)) for k, v in terms.items()))
            if sig in seen:
                continue
            seen.add(sig)
            where = f"{f.file}:{ev.line}"
            moved = [k for k, v in terms.items() if not nf.is_zero(nf.sub(shift(v), v))]
            bare = sorted({u for v in terms.values() for u in bare_time_uses(v)})
            ctx.check(
                not moved and not bare, "C17-a", q + ":solver inputs", where,
                "the matrix and right-hand side of every step are unchanged when all times are shifted by a constant (only differences of times occur)",
                signature="depends on absolute time", changed=moved[:6], whole_array_uses=bare,
            )
    # recovery: time only as abscissa / differences
    for cls in SIM_CLASSES:
        it, m, paths = method_paths(ctx, cls, "recovery_factor")
        q = RES + cls + ".recovery_factor"
        done = set()
        for p in returns(paths):
            v = it.to_nf(p.value)
            if nf.key(v) in done:
                continue
            done.add(nf.key(v))
            tag = ", ".join(("" if c else "not ") + d[:40] for _k, c, d in p.decisions)
            # abscissa slots of quadrature atoms are differences by the library's contract
            allowed = set()
            for e in p.events:
                if e.kind == "ext_call" and e.data["callee"] in QUADRATURE:
                    x = e.data["args"].get(QUADRATURE[e.data["callee"]][1])
                    if x is not None and it.to_nf(x) in (nf.sym("self.time"), nf.sym("time")):
                        allowed.add(nf.key(it.to_nf(e.data["result"])))
            marker = nf.sym("@abscissa")

            def hide(a):
                ap = nf.atom_poly(a)
                if a[0] == "fn" and nf.key(ap) in allowed:
                    # keep the ordinate (it may still depend on time), drop the abscissa slot
                    args = [nf.unkey(x) for x in a[2]]
                    args = [marker if x in (nf.sym("self.time"), nf.sym("time")) else x for x in args]
                    return nf.fn(a[1], *args)
                return None

            vh = nf.subst(v, hide)
            bare = bare_time_uses(vh)
            verdict = _whole_shift_changes(vh) if bare else None
            if bare and verdict is False:
                ctx.ok("C17-a", q + f":recovery [{tag}]", m.where(), "recovery depends on the time grid only through differences: the whole grid enters through element-wise arithmetic that is unchanged when every time is shifted by a constant", recovery=nf.show(vh, 400))
                continue
            if bare and verdict:
                # the whole grid enters through arithmetic only (powers, sums, indexing, quadrature slots): shifting every
                # time by a constant provably changes the term - e.g. np.sqrt(self.time) as an abscissa or a weight
                ctx.bad(
                    "C17-a", q + f":recovery [{tag}]", m.where(),
                    "recovery depends on the time grid only through differences (quadrature abscissa), not on the time origin",
                    signature="recovery depends on absolute time", recovery=nf.show(vh, 400), whole_grid_uses=sorted(set(bare)),
                )
                continue
            if bare:
                raise AnalysisError(f"{q}: the time grid is used as a whole outside a quadrature abscissa ({bare}) - cannot decide shift invariance")
            ctx.check(
                nf.is_zero(nf.sub(shift(vh), vh)), "C17-a", q + f":recovery [{tag}]", m.where(),
                "recovery depends on the time grid only through differences (quadrature abscissa), not on the time origin",
                signature="recovery depends on absolute time", recovery=nf.show(vh, 400),
            )

    # ---- C17-b constant schedule == scalar setting
    it, f, parts = _step(ctx, "SinglePhaseReservoir")
    q = RES + "SinglePhaseReservoir.simulate"
    M = nf.sym("@m_f")

    def norm(p):
        def g(a):
            if a[0] == "fn" and a[1].endswith("m_scaled_func"):
                arg = nf.unkey(a[2][0])
                if arg == nf.sym("self.pressure_fracface"):
                    return M
            if a[0] == "fn" and a[1] == "[]" and len(a[2]) == 2:
                base = it.single_atom(nf.unkey(a[2][0]))
                if base is not None and base[0] == "fn" and base[1].endswith("m_scaled_func") and nf.unkey(base[2][0]) == nf.sym("pressure_fracface"):
                    return M
            return None

        return nf.subst(p, g)

    sigs = {}
    for p, ev, A, b in parts:
        arm = next((c for _k, c, d in p.decisions if "pressure_fracface is None" in d), None)
        if arm is None:
            continue
        rows = rows_of(A, b.length)
        raw = [b.gen] + [v for _k, (_pos, v) in sorted(b.over.items(), key=repr)]
        for lab in sorted(rows):
            for off in sorted(rows[lab]):
                raw.append(rows[lab][off])
        from .reservoir import initial_row

        row0 = initial_row(p)
        if row0 is not None:
            raw.append(row0.gen)
            raw += [v for _k, (_pos, v) in sorted(row0.over.items(), key=repr)]
        terms = [norm(t) for t in raw]
        # the scalar may only enter as m_scaled_func(self.pressure_fracface) on the scalar arm, and not at all on the schedule arm
        leftover = any(nf.depends(t, "self.pressure_fracface") for t in (terms if arm else raw))
        sigs.setdefault(arm, []).append((tuple(nf.key(t) for t in terms), leftover, ev.line))
    ok = True in sigs and False in sigs and {s[0] for s in sigs[True]} == {s[0] for s in sigs[False]} and not any(s[1] for s in sigs[True] + sigs[False])
    ctx.check(
        ok, "C17-b", q + ":schedule forms", f.where(),
        "with the frac-face value written m_f, the scalar setting and a schedule feed identical initial state, matrix and right-hand side to the solver, and nothing else reads self.pressure_fracface",
        signature="schedule arms differ", arms=sorted(str(k) for k in sigs),
    )

    # ---- C17-c wrong-length schedule raises before any solve
    ctx.touch(q)
    it2 = interp(ctx)
    allp = it2.run_function(q)
    lenkey = None
    bad_ret, good_raise = [], []
    for p in allp:
        for k, c, d in p.decisions:
            if k[0] == "eq" and "len(pressure_fracface)" in d and "len(time)" in d:
                if not c:
                    if p.outcome == "raise" and p.exc == "ValueError" and not any(e.kind == "ext_call" and "linalg" in e.data["callee"] for e in p.events):
                        good_raise.append(p)
                    else:
                        bad_ret.append(p)
    ctx.check(
        bool(good_raise) and not bad_ret, "C17-c", q + ":length guard", f.where(),
        "a schedule whose length differs from the time grid raises ValueError before the first linear solve",
        signature="length guard", raising_paths=len(good_raise), accepting_paths=len(bad_ret),
    )

    # ---- C17-d recovery before simulate raises RuntimeError
    for cls in SIM_CLASSES:
        for name in ("recovery_factor", "recovery_factor_interpolator"):
            it3, m, paths = method_paths(ctx, cls, name)
            probes = _time_probes(m.node, m.module.tree)
            found = False
            okp = True
            for p in paths:
                for k, c, d in p.decisions:
                    if k[0] == "exc" and k[1] == "AttributeError" and k[2] in probes and c:
                        found = True
                        if not (p.outcome == "raise" and p.exc == "RuntimeError"):
                            okp = False
            ctx.check(
                found and okp, "C17-d", f"{RES}{cls}.{name}:before simulate", m.where(),
                "when self.time does not exist yet (no simulation) the AttributeError is turned into RuntimeError",
                signature="no RuntimeError", probe_lines=sorted(probes),
            )
        ci = P.cls(RES + cls)
        pre = "time" in ci.all_fields() or any("time" in c.class_attrs for c in ci.mro())
        ctx.check(not pre, "C17-d", f"{RES}{cls}:time not pre-assigned", f"{ci.module.relpath}:{ci.node.lineno}", "no class attribute or dataclass field pre-assigns `time`", signature="time pre-assigned")

    # ---- C17-h a rejected simulate() leaves no field behind: on every raising path of simulate nothing has been
    # published as self.pseudopressure (otherwise "recovery requested before any simulation" no longer raises but is
    # computed from an unwritten buffer)
    for cls in SIM_CLASSES:
        it5, m5, paths5 = method_paths(ctx, cls, "simulate")
        leaked = []
        n_raise = 0
        for p in paths5:
            if p.outcome != "raise":
                continue
            n_raise += 1
            for e in p.events:
                if e.kind == "store_attr" and e.data["attr"] == "pseudopressure" and getattr(e.data.get("base"), "name", None) == "self":
                    leaked.append(f"line {e.line} before {p.exc} [{', '.join(('' if c else 'not ') + d[:40] for _k, c, d in p.decisions)}]")
        ctx.check(
            not leaked, "C17-h", f"{RES}{cls}.simulate:nothing published when rejected", m5.where(),
            "on every path of simulate that ends in an exception, self.pseudopressure has not been assigned (the result array is published only after the run)",
            signature="pseudopressure published before a raise", stores=leaked[:3], nontrivial=n_raise > 0,
        )

    # ---- C17-e interpolator contract
    for cls in SIM_CLASSES:
        it4, m, paths = method_paths(ctx, cls, "recovery_factor_interpolator")
        cache_attr = cache_attribute(ctx) or "recovery"
        n = 0
        for p in returns(paths):
            v = p.value
            n += 1
            tag = ", ".join(("" if c else "not ") + d[:45] for _k, c, d in p.decisions)
            probs = []
            if not (isinstance(v, ExtObj) and v.qual == "scipy.interpolate.interp1d"):
                probs.append("does not return an interp1d")
            else:
                a = v.args
                x, y = it4.to_nf(a.get("x")), a.get("y")
                if x != nf.sym("self.time"):
                    probs.append("abscissa is " + nf.show(x, 80))
                ynf = it4.to_nf(y)
                cached = ynf == nf.sym("self." + cache_attr)
                computed = any(e.kind == "store_attr" and e.data["attr"] == cache_attr and it4.to_nf(e.data["value"]) == ynf for e in p.events)
                if not (cached or computed):
                    probs.append("ordinate is not the (cached or freshly computed) recovery: " + nf.show(ynf, 100))
                be = a.get("bounds_error")
                if not (isinstance(be, BoolV) and be.kind == "const" and be.a is False):
                    probs.append("bounds_error is not False")
                fv = a.get("fill_value")
                if not (isinstance(fv, TupV) and len(fv.items) == 2):
                    probs.append("fill_value is not a (before, after) pair")
                else:
                    lo, hi = it4.to_nf(fv.items[0]), it4.to_nf(fv.items[1])
                    if lo:
                        probs.append("value before the first time is " + nf.show(lo, 60) + ", not 0")
                    last = nf.fn("[]", ynf, nf.const(-1))
                    if hi != last:
                        probs.append("value after the last time is " + nf.show(hi, 80) + ", not the last recovery")
            ctx.check(
                not probs, "C17-e", f"{RES}{cls}.recovery_factor_interpolator [{tag}]", m.where(),
                "interp1d(x = self.time, y = recovery, bounds_error=False, fill_value=(0, recovery[-1]))", signature="; ".join(probs)[:160], problems=probs,
            )
        ctx.floor("C17-e", n, 1, "interpolator partitions")
    # C17-f: the recovery the interpolator may reuse belongs to the current simulation (shared effect rule of C10)
    from .c10 import family_rules

    family_rules(ctx, {"a": "C17-f", "c": "C17-i", "b": "C17-j"})  # j: the scalar setting is configuration - no run rewrites it
    from .c04 import check_all_steps_and_storage

    check_all_steps_and_storage(ctx, "C17-g", None)
    ctx.floor("C17", len(ctx.obligs), 14, "shift / schedule / guard obligations")


def _time_probes(fnode, module_tree=None):
    """line numbers of try statements (anywhere in the module: the probe may live in a helper) whose body reads self.time"""
    out = set()
    for n in ast.walk(module_tree if module_tree is not None else fnode):
        if isinstance(n, ast.Try):
            for st in n.body:
                for x in ast.walk(st):
                    if isinstance(x, ast.Attribute) and x.attr == "time" and isinstance(x.value, ast.Name) and isinstance(x.ctx, ast.Load):
                        out.add(n.lineno)  # self.time, or <parameter>.time in a helper the reservoir is handed to
    return out
