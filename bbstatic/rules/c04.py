"""C04 - each time level is the implicit backward-Euler update of the previous one.

Decided: (a) the matrix assembly is exactly the backward-Euler stencil with a no-flow outer row;
(b) index discipline of every reachable simulate loop: the level written is i+1, the right-hand
side and the diffusivity argument derive from level i (and m_f[i]), the mesh ratio is
(time[i+1] - time[i]) * const with one loop-invariant mesh constant 1/dx^2; (c) the diffusivity
never depends on the time step; (e) the linear solve is direct, or iterative with a checked status
flag and a tight relative tolerance; (f) the level storage is float64 and does not inherit a dtype.
"""
from __future__ import annotations

import ast

from .. import nf
from ..model import AnalysisError, unreachable_after_raise
from ..values import Arr2, BoolV, ExtObj, Num, StrV, TupV, Vec
from .c01 import _step, check_assembly
from .common import RES, returns
from .reservoir import DIRECT_SOLVERS, ITERATIVE_SOLVERS, SIM_CLASSES, rows_of

LEVEL = "other"
DT = nf.sym("@dt")


def time_atoms(p):
    return sorted({a for a in nf.atoms(p) if a[0] == "fn" and a[1] == "[]" and nf.unkey(a[2][0]) == nf.sym("time")}, key=repr)


def shift_next(p):
    """time[i+1] := time[i] + @dt"""
    i = nf.sym("i")

    def f(a):
        if a[0] == "fn" and a[1] == "[]" and len(a[2]) == 2 and nf.unkey(a[2][0]) == nf.sym("time"):
            if nf.unkey(a[2][1]) == nf.add(i, nf.ONE):
                return nf.add(nf.fn("[]", nf.sym("time"), i), DT)
        return None

    return nf.subst(p, f)


def check_field_owner(ctx, rule):
    """Ownership of the stored run: `pseudopressure` (of any object) and `time` (of a reservoir) are written only by the
    `simulate` methods, by a constructor, or by a helper that is called from nowhere else.  A report, plot or fit routine
    that re-grids, trims or overwrites the stored field leaves levels behind that are no longer the implicit update of
    their predecessors (the property speaks about the *stored* profile of every step)."""
    P = ctx.P
    family = {c.qualname for c in P.classes.values() if any("simulate" in k.methods for k in c.mro())}
    FIELDS = {"pseudopressure": True, "time": False}  # name -> also on receivers other than self

    def written(fi):
        out = []
        in_family = fi.cls is not None and fi.cls.qualname in family

        def target(t, line):
            while isinstance(t, ast.Subscript):
                t = t.value
            if isinstance(t, ast.Attribute) and t.attr in FIELDS:
                is_self = isinstance(t.value, ast.Name) and t.value.id == "self"
                if (is_self and in_family) or (FIELDS[t.attr] and not is_self) or (is_self and FIELDS[t.attr] and fi.cls is None):
                    out.append((t.attr, line))
            elif isinstance(t, (ast.Tuple, ast.List)):
                for e in t.elts:
                    target(e, line)

        for n in ast.walk(fi.node):
            if isinstance(n, ast.Assign):
                for t in n.targets:
                    target(t, n.lineno)
            elif isinstance(n, (ast.AugAssign, ast.AnnAssign)) and getattr(n, "value", True) is not None:
                target(n.target, n.lineno)
            elif isinstance(n, ast.Delete):
                for t in n.targets:
                    target(t, n.lineno)
            elif isinstance(n, ast.Call) and isinstance(n.func, ast.Name) and n.func.id in ("setattr", "delattr") and len(n.args) >= 2:
                a1 = n.args[1]
                if isinstance(a1, ast.Constant) and a1.value in FIELDS:
                    out.append((a1.value, n.lineno))
        return out

    funcs = [fi for fi in P.functions.values()]
    callers = {}
    for fi in funcs:
        for n in ast.walk(fi.node):
            if isinstance(n, ast.Call):
                nm = n.func.id if isinstance(n.func, ast.Name) else n.func.attr if isinstance(n.func, ast.Attribute) else None
                if nm:
                    callers.setdefault(nm, set()).add(fi.qualname)

    def owner(fi, seen=()):
        if fi.name == "simulate" and fi.cls is not None and fi.cls.qualname in family:
            return True
        if fi.name in ("__init__", "__post_init__"):
            return True
        if fi.parent is not None:
            return owner(fi.parent, seen)
        if fi.qualname in seen:
            return False
        cs = callers.get(fi.name, set()) - {fi.qualname}
        return bool(cs) and all(owner(P.functions[c], seen + (fi.qualname,)) for c in cs)

    n = 0
    for fi in funcs:
        w = written(fi)
        if not w:
            continue
        n += len(w)
        ctx.touch(fi.qualname)
        ok = owner(fi)
        ctx.check(
            ok, rule, fi.qualname + ":writes " + "/".join(sorted({a for a, _l in w})), f"{fi.file}:{w[0][1]}",
            "the stored time grid and pseudopressure field are written by simulate (or its private helpers / a constructor) only",
            signature="writer " + fi.qualname.split(".")[-1], lines=[l for _a, l in w],
        )
    ctx.floor(rule, n, 2, "stores of the simulated field")


def check(ctx):
    check_assembly(ctx, "C04-a", exact=True)
    n_loops = 0
    for cls in SIM_CLASSES:
        n_loops += check_step(ctx, cls)
    ctx.floor("C04-b", n_loops, 2, "reachable simulate loops")
    # C04-g: "the scaled diffusivity at the previous profile": what each concrete class's alpha_scaled returns (through its
    # MRO and its decorators) is alpha(m) / alpha(m_i) of the fluid, resp. 1 for the ideal reservoir
    from .recovery import fvf_and_alpha

    fvf_and_alpha(ctx, "C04-g")
    check_all_steps_and_storage(ctx, None, "C04-f")
    check_field_owner(ctx, "C04-h")
    check_solver_sites(ctx)
    f = ctx.P.func(RES + "MultiPhaseReservoir.simulate")
    if unreachable_after_raise(f.node):
        ctx.skipped.append(f"{f.qualname}: body after the initial `raise NotImplementedError` is unreachable (contains a third solver call) - skipped")
    ctx.floor("C04", len(ctx.obligs), 20, "time-step obligations")


def _arr_levels(p, arr_name):
    """level indices of the 2-D array atoms [](arr, level, J) occurring in p"""
    out = []
    for a in nf.atoms(p):
        if a[0] == "fn" and a[1] == "[]" and nf.unkey(a[2][0]) == nf.sym(arr_name) and len(a[2]) >= 2:
            out.append(nf.unkey(a[2][1]))
    return out


def _stepping_loop(p, ev):
    """the index loop the solve of this path runs in: the last `for ... in range(...)` entered before the solve, whether
    loop and solve sit in simulate itself, in a private stepping helper, or one in each"""
    from ..values import RangeV

    before = []
    for e in p.events:
        if e is ev:
            break
        if e.kind == "for_iter" and isinstance(e.data["iter"], RangeV):
            before.append(e)
    return before[-1:]


def check_step(ctx, cls):
    it, f, parts = _step(ctx, cls)
    q = RES + cls + ".simulate"
    done = set()
    i = nf.sym("i")
    for p, ev, A, b in parts:
        tag = (nf.key(it.to_nf(A)), nf.key(it.to_nf(b)))
        if tag in done:
            continue
        done.add(tag)
        where = f"{f.file}:{ev.line}"
        # the level that receives the solution
        res = ev.data.get("result")

        def is_solution(v):
            # the solver's result, or the first element of an (x, info) pair returned by an iterative solver
            return v is res or (isinstance(v, ExtObj) and v.qual.endswith("[0]") and v.args.get("of") is res)

        stores = [e for e in p.events if e.kind == "store_sub" and isinstance(e.data["base"], Arr2) and is_solution(e.data["value"])]
        arr = stores[0].data["base"] if stores else None
        ok = len(stores) == 1 and isinstance(stores[0].data["index"], Num) and stores[0].data["index"].nf == nf.add(i, nf.ONE)
        ctx.check(ok, "C04-b", q + ":level written", where, "the solution of step i is stored as level i+1", signature="level index", index=str(stores[0].data["index"]) if stores else "none")
        if arr is None:
            continue
        # every step of the loop is taken: the loop runs over all len(time)-1 increments, never leaves early, and
        # nothing but the solve writes a level
        others = [e for e in p.events if e.kind == "store_sub" and e.data["base"] is arr and e not in stores and not (isinstance(e.data["index"], TupV) and isinstance(e.data["index"].items[0], Num) and not e.data["index"].items[0].nf)]
        from ..values import RangeV

        loops = _stepping_loop(p, ev)

        okloop = False
        exits = []
        if len(loops) == 1 and isinstance(loops[0].data["iter"], RangeV):
            ra = [it.to_nf(x) for x in loops[0].data["iter"].args]
            stop = ra[0] if len(ra) == 1 else (ra[1] if len(ra) == 2 and not ra[0] else None)
            nsteps = [nf.sub(nf.fn("len", nf.sym("time")), nf.ONE), nf.sub(nf.fn("[]", nf.sym("time.shape"), nf.const(0)), nf.ONE)]
            okloop = stop in nsteps
            exits = [n.lineno for st in loops[0].node.body for n in ast.walk(st) if isinstance(n, (ast.Break, ast.Return))]
        ctx.check(
            okloop and not exits and not others, "C04-b", q + ":all steps taken", where,
            "the time loop runs over all len(time) - 1 increments, has no early exit, and no statement other than the solve writes a time level",
            signature="steps skipped", early_exit_lines=exits, other_level_stores=[f"line {e.line}" for e in others],
        )
        final = [e for e in p.events if e.kind == "store_attr" and e.data["attr"] == "pseudopressure" and e.data["value"] is arr]
        ctx.check(bool(final), "C04-b", q + ":stored field", f.where(), "self.pseudopressure is the array the levels were written to", signature="stored field")
        # right-hand side from level i
        lv = _arr_levels(b.gen, arr.name) + [x for _k, (_p, v) in b.over.items() for x in _arr_levels(v, arr.name)]
        ok = bool(lv) and all(x == i for x in lv)
        ctx.check(ok, "C04-b", q + ":right-hand side level", where, "the right-hand side derives from level i only", signature="rhs level", levels=[nf.show(x) for x in lv])
        check_rhs_is_previous_level(ctx, "C04-b", q, where, b, arr, it)
        # matrix: mesh ratio and diffusivity argument
        rows = rows_of(A, b.length)
        gen_row = rows["r"]
        kgen = nf.neg(gen_row.get(1, {}))  # k_r of a generic interior row (upper coefficient is -k_r)
        pieces = {"generic row": kgen, "frac-face row": nf.neg(rows["r=0"].get(1, {})), "outer row": nf.neg(rows["r=n-1"].get(-1, {}))}
        for lab, k in pieces.items():
            ks = shift_next(k)
            left = time_atoms(ks)
            ratio = nf.div(ks, DT)
            ok = bool(k) and not left and not nf.depends(ratio, "@dt")
            ctx.check(
                ok, "C04-b", q + f":mesh ratio ({lab})", where,
                "k == (time[i+1] - time[i]) * R with R free of the time grid: only the step's own increment enters, linearly",
                signature="mesh ratio", k=nf.show(k, 300),
            )
            if not ok:
                continue
            # diffusivity argument: levels and frac-face index
            lv = _arr_levels(ratio, arr.name)
            idx = [nf.unkey(a[2][1]) for a in nf.atoms(ratio) if a[0] == "fn" and a[1] == "[]" and len(a[2]) == 2 and nf.unkey(a[2][0]) != nf.sym("time")]
            ok = all(x == i for x in lv) and all(x == i for x in idx)
            ctx.check(
                ok, "C04-c", q + f":diffusivity level ({lab})", where,
                "the scaled diffusivity is evaluated at the previous level i (frac-face entry: at m_f[i]) and does not depend on the step size",
                signature="diffusivity level", levels=[nf.show(x) for x in lv + idx],
            )
            # one mesh constant: strip the diffusivity atoms and require a loop-invariant constant in nx
            mesh = _strip_alpha(ratio)
            inv = not nf.depends(mesh, "i") and not nf.depends(mesh, "@J") and nf.symbols(mesh) <= {"self.nx"}
            ctx.check(
                bool(mesh) and inv, "C04-d", q + f":mesh constant ({lab})", where,
                "R / alpha_scaled is one loop-invariant constant 1/dx^2 depending on nx only", signature="mesh constant", mesh=nf.show(mesh, 200),
            )
        # dtype of the level storage
        kw = arr.kwargs or {}
        inherits = arr.creator.endswith("_like")
        dt = kw.get("dtype")
        dt_s = nf.show(it.to_nf(dt), 60) if dt is not None else ""
        float_dt = dt is not None and any(t in dt_s for t in ("float64", "<ext float>", "numpy.double", "'f8'", "'float64'", "'d'"))
        okd = (not inherits and (dt is None or float_dt)) or (inherits and float_dt)
        ctx.check(
            okd, "C04-f", q + ":level storage dtype", f"{f.file}:{getattr(arr.node, 'lineno', 0)}",
            "the array of levels is allocated as float64 (it does not inherit the dtype of the time grid or another argument)",
            signature="storage dtype", creator=arr.creator, dtype=dt_s or "default",
        )
    return 1


def check_rhs_is_previous_level(ctx, rule, q, where, b, arr, it):
    """interior entries of the right-hand side are the previous level, at most clipped from above at
    the initial pseudopressure (an identity for exact solves by the maximum principle)"""
    i = nf.sym("i")
    U = nf.fn("[]", nf.sym(arr.name), i, nf.sym("@J"))
    mi = nf.sym("self.fluid.m_i")
    allowed = [U, nf.fn("minimum", *sorted([U, mi], key=repr))]
    ok = any(b.gen == a for a in allowed)
    extra = [nf.show(pos) for _k, (pos, _v) in b.over.items() if nf.as_int(pos) != 0]
    ctx.check(
        ok and not extra, rule, q + ":right-hand side values", where,
        "away from the frac-face node the right-hand side is the stored previous level itself (optionally min(level, m_i)); it is not clipped from below, clipped at constants, or otherwise altered",
        signature="rhs altered", rhs=nf.show(b.gen, 200), other_overrides=extra,
    )


def _strip_alpha(ratio):
    """divide out the diffusivity interpolator atoms alpha(...) (any power)"""
    def f(a):
        if a[0] == "fn" and a[1].endswith(".alpha"):
            return nf.ONE
        return None

    return nf.subst(ratio, f)


def check_solver_sites(ctx, rule="C04-e"):
    """C04-e (shared with C01-C03): every reachable linear solve is direct, or iterative + checked + tight."""
    P = ctx.P
    n = 0
    for cls in SIM_CLASSES:
        it, f, parts = _step(ctx, cls)
        q = RES + cls + ".simulate"
        seen = set()
        for p, ev, A, b in parts:
            if ev.node in seen:
                continue
            seen.add(ev.node)
            n += 1
            callee = ev.data["callee"]
            where = f"{f.file}:{ev.line}"
            if callee in DIRECT_SOLVERS:
                # a dense / banded direct solver that is told the matrix is symmetric or positive definite reads one
                # triangle only: the step matrix is symmetric only for a constant diffusivity
                a_ = ev.data["args"] if isinstance(ev.data["args"], dict) else {}
                assume = a_.get("assume_a")
                symflag = a_.get("sym_pos")
                structured = (assume is not None and not (hasattr(assume, "s") and assume.s in ("gen", "general"))) or (symflag is not None and not (getattr(symflag, "kind", "") == "const" and not symflag.a)) or callee.endswith("solveh_banded")
                if structured:
                    try:
                        rws = rows_of(A, b.length)
                        up, lo = rws["r"].get(1), rws["r"].get(-1)
                        rsym = [x for x in nf.symbols(lo or {}) | nf.symbols(up or {}) if x.startswith("@r") or x == "@R"]
                        sym_ok = up is not None and lo is not None and all(not nf.depends(up, x) and not nf.depends(lo, x) for x in rsym) and nf.equal(up, lo)
                    except AnalysisError:
                        sym_ok = False
                    if sym_ok:
                        ctx.ok(rule, q + ":linear solve", where, "a symmetric-matrix solver is used where the step matrix is symmetric (constant coefficients: equal, row-independent off-diagonals)", solver=callee)
                        continue
                    ctx.bad(
                        rule, q + ":linear solve", where,
                        "the step matrix is handed to the solver as a general matrix (its off-diagonals differ when the diffusivity varies in space): no symmetric / positive-definite shortcut",
                        signature="structure assumed " + (getattr(assume, "s", "") or callee.split(".")[-1]), solver=callee,
                    )
                    continue
                ctx.ok(rule, q + ":linear solve", where, "the step is solved with a direct solver (exact to rounding, cannot fail silently)", solver=callee)
                continue
            a = ev.data["args"]
            tol = a.get("rtol", a.get("tol"))
            tight = isinstance(tol, Num) and nf.is_const(tol.nf) and 0 < nf.cval(tol.nf) <= nf.cval(nf.const_text("1e-10"))
            holder = ctx.P.functions.get(ev.func)
            checked = _flag_checked(holder.node if holder is not None else f.node, ev.node)
            ctx.check(
                tight and checked, rule, q + ":linear solve", where,
                "an iterative solve has an explicit relative tolerance <= 1e-10 and its status flag is tested with a raising arm",
                signature=("loose tolerance" if not tight else "") + ("; " if not tight and not checked else "") + ("status flag ignored" if not checked else ""),
                solver=callee, rtol=str(tol),
            )
    ctx.floor(rule, n, 2, "linear-solve call sites")


def _flag_checked(fnode, call):
    """`x, info = solver(...)` followed by `if <test on info>: raise`."""
    flag = None
    for n in ast.walk(fnode):
        if isinstance(n, ast.Assign) and n.value is call and isinstance(n.targets[0], ast.Tuple) and len(n.targets[0].elts) == 2:
            t = n.targets[0].elts[1]
            if isinstance(t, ast.Name) and t.id != "_":
                flag = t.id
    if flag is None:
        return False
    for n in ast.walk(fnode):
        if isinstance(n, ast.If) and any(isinstance(x, ast.Name) and x.id == flag for x in ast.walk(n.test)):
            if any(isinstance(s, ast.Raise) for st in n.body + n.orelse for s in ast.walk(st)):
                return True
    return False


def check_all_steps_and_storage(ctx, rule_steps, rule_dtype):
    """shared (C01 C02 C03 C17): every increment of the time grid is solved for, nothing else writes a level, and
    the buffers allocated from caller arrays do not inherit their dtype"""
    from ..values import RangeV

    for cls in SIM_CLASSES:
        it, f, parts = _step(ctx, cls)
        q = RES + cls + ".simulate"
        seen = set()
        for p, ev, A, b in parts:
            res = ev.data.get("result")
            is_sol = lambda v: v is res or (isinstance(v, ExtObj) and v.qual.endswith("[0]") and v.args.get("of") is res)
            stores = [e for e in p.events if e.kind == "store_sub" and isinstance(e.data["base"], Arr2) and is_sol(e.data["value"])]
            arr = stores[0].data["base"] if stores else None
            loops = _stepping_loop(p, ev)
            others = [e for e in p.events if e.kind == "store_sub" and arr is not None and e.data["base"] is arr and e not in stores and not (isinstance(e.data["index"], TupV) and isinstance(e.data["index"].items[0], Num) and not e.data["index"].items[0].nf)]
            okloop, exits = False, []
            if len(loops) == 1 and isinstance(loops[0].data["iter"], RangeV):
                ra = [it.to_nf(x) for x in loops[0].data["iter"].args]
                stop = ra[0] if len(ra) == 1 else (ra[1] if len(ra) == 2 and not ra[0] else None)
                okloop = stop in [nf.sub(nf.fn("len", nf.sym("time")), nf.ONE), nf.sub(nf.fn("[]", nf.sym("time.shape"), nf.const(0)), nf.ONE)]
                exits = [n.lineno for st in loops[0].node.body for n in ast.walk(st) if isinstance(n, (ast.Break, ast.Return))]
            sig = (okloop, tuple(exits), len(others))
            if rule_steps and sig not in seen:
                seen.add(sig)
                ctx.check(
                    okloop and not exits and not others and arr is not None, rule_steps, q + ":all steps taken", f"{f.file}:{ev.line}",
                    "the time loop runs over all len(time) - 1 increments, has no early exit, and no statement other than the solve writes a time level",
                    signature="steps skipped", early_exit_lines=exits, other_level_stores=[f"line {e.line}" for e in others],
                )
            if not rule_dtype:
                continue
            # np.full(shape, fill) without dtype takes the dtype of the fill value: when the fill is a raw input (a
            # parameter or a configuration field, which a user may well give as an int) and the array is written to
            # afterwards, the values written are cast to that dtype (a float schedule truncated to integers)
            fields = set(ctx.P.cls(RES + cls).all_fields())
            params = set(ctx.P.func(q).params)
            for e in p.events:
                if e.kind != "alloc_full" or (e.node, "f") in seen:
                    continue
                a = e.data["args"]
                if "dtype" in a or a.get("fill_value") is None:
                    continue
                at = it.single_atom(it.to_nf(a["fill_value"]))
                raw = at is not None and at[0] == "sym" and (at[1] in params or (at[1].startswith("self.") and at[1][5:] in fields))
                res_v = e.data.get("result")
                written = [s for s in p.events if s.kind == "store_sub" and s.data["base"] is res_v and s is not e]
                if raw and written:
                    seen.add((e.node, "f"))
                    ctx.bad(
                        rule_dtype, q + ":full dtype", f"{f.file}:{e.line}",
                        "arrays allocated during the simulation are float64: they neither inherit the dtype of a caller's array or scalar nor narrow the values stored in them",
                        signature="dtype of fill value " + at[1], fill=at[1], stores=[f"line {s.line}" for s in written[:3]],
                    )
            for e in p.events:
                if e.kind != "alloc" or (e.node, "d") in seen:
                    continue
                seen.add((e.node, "d"))
                buf = e.data["buf"]
                kw = getattr(buf, "kwargs", None) or {}
                dt = kw.get("dtype")
                dts = nf.show(it.to_nf(dt), 60) if dt is not None else ""
                f64 = any(t in dts for t in ("float64", "<ext float>", "numpy.double", "'f8'", "'float64'", "'d'"))
                like = e.data["callee"].endswith("_like")
                proto = getattr(buf, "proto", None)
                from_arg = like and proto is not None and bool(nf.symbols(it.to_nf(proto)) & set(ctx.P.func(q).params))
                if from_arg:
                    # an index array (argsort / searchsorted / arange / nonzero ...) has the platform's index type whatever
                    # the dtype of the data it was computed from
                    pa = it.single_atom(it.to_nf(proto))
                    if pa is not None and pa[0] == "fn" and pa[1].split("{")[0].split(".")[-1] in ("argsort", "lexsort", "searchsorted", "arange", "flatnonzero", "nonzero", "argmax", "argmin", "argwhere"):
                        from_arg = False
                ok = (dt is None and not from_arg) or f64
                ctx.check(
                    ok, rule_dtype, q + f":{e.data['callee'].split('.')[-1]} dtype", f"{f.file}:{e.line}",
                    "arrays allocated during the simulation are float64: they neither inherit the dtype of a caller's array (integer time grid!) nor narrow the stored levels",
                    signature="dtype " + (dts or ("inherited" if from_arg else "default")), dtype=dts or ("inherited from " + nf.show(it.to_nf(proto), 40) if from_arg else "default float64"),
                )
