"""C10 - results always reflect the most recent simulation, never stale state.

Typestate / effect analysis over the reservoir class family, for every call history:
(a) a method that overwrites a source of the cached recovery leaves no stale cache on any path;
(b) configuration fields are written by construction only;
(c) simulate overwrites time and pseudopressure on every normal path and reads nothing left by a
    previous run; (d) the readers write nothing but the cache itself.
"""
from __future__ import annotations

from .. import nf
from ..model import AnalysisError, unreachable_after_raise
from ..values import Inst, Num
from .common import RES, interp, returns

LEVEL = "other"

FAMILY = ["IdealReservoir", "SinglePhaseReservoir", "TwoPhaseReservoir"]
OUTPUTS = ("time", "pseudopressure")
READERS = ["recovery_factor", "recovery_factor_interpolator", "alpha_scaled", "fvf_scale"]
CTOR = ("__init__", "__post_init__")


def method_paths(ctx, cls, name):
    ci = ctx.P.cls(RES + cls)
    m = ci.lookup(name)
    if m is None:
        raise AnalysisError(f"{cls}.{name} not found")
    ctx.touch(m.qualname)
    it = interp(ctx)
    inst = lambda: Inst(ci, {}, "self")
    paths = it.run_function(m.qualname, self_val=None, args={"self": inst}) if False else None
    # run with a fresh symbolic instance of the *concrete* class so that self.method resolves through its MRO
    def run(it_):
        sv = Inst(ci, {}, "self")
        bound = it_.symbolic_args(m)
        return it_.enter(m, bound, sv, None, m.cls)

    return it, m, it.explore(run)


def self_events(p, kinds):
    return [e for e in p.events if e.kind in kinds and isinstance(e.data.get("base"), Inst) and e.data["base"].name == "self"]


def cache_attribute(ctx):
    """the attribute under which recovery_factor keeps the result it returns (today: `recovery`); discovered from the
    code - the stored value is the returned value - so that a consistent rename is not an alarm and a partial one is"""
    found = set()
    for cls in FAMILY:
        it, m, paths = method_paths(ctx, cls, "recovery_factor")
        for p in returns(paths):
            rv = it.to_nf(p.value)
            for e in self_events(p, ("store_attr",)):
                if it.to_nf(e.data["value"]) == rv:
                    found.add(e.data["attr"])
    if len(found) > 1:
        raise AnalysisError(f"recovery_factor keeps its result under several attributes: {sorted(found)}")
    return next(iter(found), None)


def cache_sources(ctx, cache):
    """top-level self attributes the cached recovery is computed from"""
    src = set()
    for cls in FAMILY:
        it, m, paths = method_paths(ctx, cls, "recovery_factor")
        for p in returns(paths):
            for e in self_events(p, ("store_attr",)):
                if e.data["attr"] == cache:
                    for s in nf.symbols(it.to_nf(e.data["value"])):
                        if s.startswith("self."):
                            src.add(s.split(".")[1])
    return src


def check(ctx):
    n_methods = family_rules(ctx, {"a": "C10-a", "b": "C10-b", "c": "C10-c", "d": "C10-d"})
    ctx.floor("C10", n_methods, 12, "methods of the reservoir family")
    # C10-s: every level of the freshly allocated (np.empty) field is written on every path of the time loop - a level
    # that is skipped keeps whatever memory the allocator hands back, i.e. the result depends on earlier calls
    from .c01 import _step

    for cls in ("IdealReservoir", "SinglePhaseReservoir"):
        _step(ctx, cls)
    returned_callables(ctx, "C10-e")
    # C10-f: what recovery_factor keeps on the object is what it returns (the interpolator takes the kept curve when there
    # is one and the returned one otherwise: the two must be the same curve) - the scale / stored-value rule of C02-g
    from .recovery import scale_rule

    for cls in ("IdealReservoir", "SinglePhaseReservoir", "TwoPhaseReservoir"):
        scale_rule(ctx, "C10-f", cls)


def returned_callables(ctx, rule):
    """C10-e: a callable handed out by a method (the recovery interpolator) is a self-contained object: it does not read
    the reservoir's attributes when it is *called* - otherwise what it returns changes with every later simulate /
    recovery call (or fails once the cache is dropped), instead of reflecting the simulation it was built for."""
    import ast

    from ..values import FuncV, LambdaV, PartialV

    P = ctx.P
    n = 0
    for cls in FAMILY:
        ci = P.cls(RES + cls)
        for name in ("recovery_factor_interpolator",):
            if ci.lookup(name) is None:
                continue
            it, m, paths = method_paths(ctx, cls, name)
            seen = set()
            for p in returns(paths):
                v = p.value
                while isinstance(v, PartialV):
                    v = v.func
                node = v.info.node if isinstance(v, FuncV) else (v.node if isinstance(v, LambdaV) else None)
                key = id(node) if node is not None else "object"
                if key in seen:
                    continue
                seen.add(key)
                n += 1
                live = []
                if node is not None:
                    first = m.params[0] if m.params else "self"
                    for x in ast.walk(node):
                        if isinstance(x, ast.Attribute) and isinstance(x.value, ast.Name) and x.value.id == first:
                            live.append(f"{first}.{x.attr} (line {x.lineno})")
                    if isinstance(v, FuncV) and v.self_val is not None and not live:
                        live.append("bound method of the reservoir")
                ctx.check(
                    not live, rule, f"{RES}{cls}.{name}:returned callable is self-contained", m.where(),
                    "the callable that is handed out does not read attributes of the reservoir at call time (it is built from the values of the simulation it belongs to)",
                    signature="late reads " + ",".join(sorted({t.split(' ')[0] for t in live}))[:120], reads=sorted(set(live))[:6],
                )
    ctx.floor(rule, n, 2, "returned interpolators")


def constructor_rule(ctx, rule):
    # C10-b (constructors): __init__ / __post_init__ leave the configuration as it was given - whatever they store into a
    # configuration field is that field's own value (the analysis of the other methods starts from a symbolic object and
    # does not run constructors, so this is the clause that covers them)
    P = ctx.P
    for cls in FAMILY:
        ci = P.cls(RES + cls)
        fields = set(ci.all_fields())
        for name in CTOR:
            m = ci.lookup(name)
            if m is None:
                continue
            it, m, paths = method_paths(ctx, cls, name)
            altered = []
            for p in paths:
                for e in self_events(p, ("store_attr",)):
                    a = e.data["attr"]
                    if a in fields and it.to_nf(e.data["value"]) != nf.sym("self." + a) and it.to_nf(e.data["value"]) != nf.sym(a):
                        altered.append(f"self.{a} = {nf.show(it.to_nf(e.data['value']), 60)} (line {e.line})")
            ctx.check(
                not altered, rule, f"{RES}{cls}.{name}:configuration as given", m.where(),
                "the constructor stores nothing into a configuration field but the value it was given",
                signature="constructor alters " + ",".join(sorted({x.split(' ')[0] for x in altered})), stores=altered[:4],
            )


def family_rules(ctx, ids):
    """Typestate / effect rules over the reservoir family; `ids` maps clause letters to the rule ids to
    report under (a clause mapped to None is skipped) - C01 and C17 reuse clauses b and a."""
    P = ctx.P
    if ids.get("b"):
        constructor_rule(ctx, ids["b"])
    CACHE = cache_attribute(ctx)
    if CACHE is None:
        raise AnalysisError("recovery_factor no longer keeps its result on the object: the cache state machine has no cache")
    sources = cache_sources(ctx, CACHE)
    if not {"time", "pseudopressure"} <= sources:
        raise AnalysisError(f"cached recovery does not depend on time/pseudopressure any more: {sorted(sources)}")
    ctx.notes.append("sources of the cached recovery: " + ", ".join(sorted(sources)))
    fields = set()
    for cls in FAMILY:
        fields |= set(P.cls(RES + cls).all_fields())
        # plain class attributes (`dt_min = None` in the class body) are configuration too: an instance store shadows them
        for c in P.cls(RES + cls).mro():
            fields |= {a for a in c.class_attrs if not a.startswith("__")}
    n_methods = 0
    # private helpers that are only ever called from inside the package are not entry points of a call history:
    # they are analysed, inlined, as part of the public methods that call them
    from ..views import internal_only_names

    internal = internal_only_names({mn: mi.tree for mn, mi in P.modules.items()})
    for cls in FAMILY:
        ci = P.cls(RES + cls)
        names = sorted({n for c in ci.mro() for n in c.methods if n not in CTOR and not n.startswith("__") and n not in internal})
        # alternative constructors and static helpers are not calls *on* an object: they are not part of its history
        import ast as _ast

        names = [n for n in names if not any(_ast.unparse(d.func if isinstance(d, _ast.Call) else d).split(".")[-1] in ("classmethod", "staticmethod") for d in ci.lookup(n).node.decorator_list)]
        for name in names:
            m = ci.lookup(name)
            if unreachable_after_raise(m.node):
                continue
            it, m, paths = method_paths(ctx, cls, name)
            n_methods += 1
            where = m.where()
            cons = f"{RES}{cls}.{name}"
            stale_paths, cfg_writes, bad_reads, missing_out, altered_time = [], [], [], [], []
            foreign_writes = []
            for p in returns(paths):
                tag = ", ".join(("" if c else "not ") + d[:70] for _k, c, d in p.decisions) or "straight"
                absent = any(d.startswith(f"hasattr(self, '{CACHE}')") and not c for _k, c, d in p.decisions)
                state = "absent" if absent else "present-old"
                written = set()
                for e in self_events(p, ("store_attr", "del_attr")):
                    a = e.data["attr"]
                    if e.kind == "del_attr":
                        if a == CACHE:
                            state = "absent"
                        continue
                    written.add(a)
                    if a == CACHE:
                        state = "fresh"
                    elif a in sources and state in ("present-old", "fresh", "stale"):
                        state = "stale"
                    if a in fields:
                        cfg_writes.append((a, e.line, tag))
                    if name in READERS and a != CACHE:
                        foreign_writes.append((a, e.line, tag))
                if state == "stale":
                    stale_paths.append(tag)
                if name == "simulate":
                    for o in OUTPUTS:
                        if o not in written:
                            missing_out.append((o, tag))
                    # what is kept as self.time is the caller's grid itself (not a shifted, sorted or re-based copy)
                    for e in self_events(p, ("store_attr",)):
                        if e.data["attr"] == "time" and it.to_nf(e.data["value"]) != nf.sym("time"):
                            altered_time.append((nf.show(it.to_nf(e.data["value"]), 80), tag))
                    # reads of a previous run's results (symbols self.time / self.pseudopressure / self.recovery survive only if read before being written)
                    leftovers = set()
                    for e in p.events:
                        for v in list((e.data.get("args") or {}).values()) if isinstance(e.data.get("args"), dict) else []:
                            leftovers |= {s for s in nf.symbols(it.to_nf(v)) if s in ("self.time", "self.pseudopressure", "self." + CACHE)}
                        if "value" in e.data:
                            leftovers |= {s for s in nf.symbols(it.to_nf(e.data["value"])) if s in ("self.time", "self.pseudopressure", "self." + CACHE)}
                    for _k, _c, d in p.decisions:
                        for s in ("self.time", "self.pseudopressure", "self." + CACHE):
                            if s in d:
                                leftovers.add(s)
                    if leftovers:
                        bad_reads.append((sorted(leftovers), tag))
            if ids.get("a"):
              ctx.check(
                not stale_paths, ids["a"], cons + ":cache invalidation", where,
                f"on every normal path that overwrites a source of self.{CACHE} ({', '.join(sorted(sources))}) the cache is deleted or recomputed afterwards",
                signature="stale cache", stale_on_paths=stale_paths[:4],
            )
            if ids.get("b"):
              ctx.check(
                not cfg_writes, ids["b"], cons + ":configuration", where,
                "no method other than the constructor assigns a configuration field (" + ", ".join(sorted(fields)) + ")",
                signature="config write " + ",".join(sorted({a for a, _l, _t in cfg_writes})), writes=[f"self.{a} at line {l} [{t}]" for a, l, t in cfg_writes[:4]],
            )
            if name == "simulate" and ids.get("c"):
                ctx.check(
                    not missing_out, ids["c"], cons + ":outputs overwritten", where,
                    "every normal path assigns both self.time and self.pseudopressure", signature="output not overwritten", missing=[f"{o} [{t}]" for o, t in missing_out[:4]],
                )
                ctx.check(
                    not altered_time, ids["c"], cons + ":time stored as given", where,
                    "self.time is the time grid that was simulated (the recovery interpolator and the plots pair it with the results)",
                    signature="time altered", stored=[f"{v} [{t}]" for v, t in altered_time[:3]],
                )
                ctx.check(
                    not bad_reads, ids["c"], cons + ":no leftover state read", where,
                    "simulate computes from its arguments and the configuration only: nothing of a previous run (time, pseudopressure, recovery) is read",
                    signature="reads previous run", reads=[f"{r} [{t}]" for r, t in bad_reads[:4]],
                )
            if name in READERS and ids.get("d"):
                ctx.check(
                    not foreign_writes, ids["d"], cons + ":pure reader", where,
                    f"the reader stores nothing on the object except the cache self.{CACHE}",
                    signature="reader writes " + ",".join(sorted({a for a, _l, _t in foreign_writes})), writes=[f"self.{a} at line {l} [{t}]" for a, l, t in foreign_writes[:4]],
                )
    return n_methods
