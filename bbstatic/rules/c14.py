"""C14 - Brooks-Corey relative permeabilities are finite, within [0, k_max] and monotone.

Decided: (a) each listed rejection exists with the right aggregate, fields, comparison and bound;
(b) each phase's permeability is k_max * B^n where the base B is the phase's normalised saturation
(S - S_r)/(1 - S_or - S_wc - S_gc) confined to [0,1] by an explicit clamp *before* the power - for
every admissible parameter set this gives finiteness (no negative base under a fractional
exponent), the k_max ceiling and exact zero at or below residual, and monotonicity; (d) the
two-phase helper's saturations sum to one and Sw > S_wc raises.
"""
from __future__ import annotations

from fractions import Fraction as F

from .. import nf
from ..model import AnalysisError
from ..values import DictV, ExtObj, Num, Vec
from .common import FP, interp, returns

LEVEL = "other"

P_ = lambda n: nf.sym("params." + n)
GROUPS = {
    "exponents": ("n_o", "n_g", "n_w"),
    "residuals": ("S_or", "S_wc", "S_gc"),
    "end-points": ("k_ro_max", "k_rw_max", "k_rg_max"),
}
WANT = [
    ("exponents", "max", ">", 6), ("exponents", "min", "<", 1),
    ("residuals", "min", "<", 0), ("residuals", "max", ">", 1),
    ("end-points", "min", "<", 0), ("end-points", "max", ">", 1),
]
PHASES = {"o": ("So", "S_or", "n_o", "k_ro_max"), "w": ("Sw", "S_wc", "n_w", "k_rw_max"), "g": ("Sg", "S_gc", "n_g", "k_rg_max")}


def _guard_of(p):
    """(aggregate, fieldset, relation, bound) of the comparison whose outcome made this path raise"""
    if not p.decisions:
        return None
    k, c, d = p.decisions[-1]
    if k[0] not in ("ge", "gt"):
        return ("opaque", d)
    dnf = nf.unkey(k[1])
    rel = {("gt", True): ">", ("gt", False): "<=", ("ge", True): ">=", ("ge", False): "<"}[(k[0], c)]
    # dnf = agg(fields...) - bound
    bound = -nf.cval(dnf)
    rest = nf.sub(dnf, nf.const(nf.cval(dnf)))
    at = None
    if len(rest) == 1:
        ((m, cf),) = rest.items()
        if cf == 1 and len(m) == 1 and m[0][1] == nf.KONE:
            at = m[0][0]
    if at is None or at[0] != "fn" or at[1] not in ("max", "min"):
        return ("other", d)
    fields = frozenset(nf.show(nf.unkey(a), 60) for a in at[2])
    return (at[1], fields, rel, bound)


def check(ctx):
    P = ctx.P
    q = FP + "relative_permeabilities"
    f = P.func(q)
    it = interp(ctx)
    ctx.touch(q)
    paths = it.run_function(q)
    raises = [p for p in paths if p.outcome == "raise" and p.exc == "ValueError"]
    guards = [_guard_of(p) for p in raises]
    # ---- C14-a the six range rejections
    for grp, agg, rel, bound in WANT:
        fields = frozenset("params." + x for x in GROUPS[grp])
        ok = (agg, fields, rel, F(bound)) in [g for g in guards if g and len(g) == 4]
        near = [g for g in guards if g and len(g) == 4 and g[0] == agg and g[3] == F(bound) and (g[1] & fields)]
        ctx.check(
            ok, "C14-a", q + f":reject {agg}({grp}) {rel} {bound}", f.where(),
            f"a ValueError is raised exactly when {agg} of all three {grp} is {rel} {bound}",
            signature="guard " + (str([(g[0], sorted(g[1]), g[2], str(g[3])) for g in near]) if near else "missing"),
        )
    # saturation sum guard
    sg = [g for g in guards if g and g[0] == "opaque"]
    oks = False
    found = [g[1] for g in sg]
    for p in raises:
        k, c, d = p.decisions[-1]
        if k[0] != "opaque" or not c:
            continue
        oks = oks or _sum_guard_ok(d)
    ctx.check(
        oks, "C14-a", q + ":reject saturations not summing to one", f.where(),
        "a ValueError is raised when ANY record has |So + Sg + Sw - 1| above a small tolerance (absolute value taken per record, before any reduction over records)",
        signature="sum guard " + "; ".join(x[:80] for x in found)[:160], found=found,
    )
    # ---- C14-b structure of each permeability
    rets = returns(paths)
    distinct = {}
    for rp in rets:
        distinct.setdefault(nf.key(it.to_nf(rp.value)), rp)
    if not distinct:
        raise AnalysisError(f"{q}: no returning partition")
    # every distinct result (a type-guarded fast path next to the general one, say) has to be the Corey record
    for idx, p in enumerate(distinct.values()):
        vtag = "" if len(distinct) == 1 else " [" + ", ".join(("" if c else "not ") + d[:40] for _k, c, d in p.decisions[-3:]) + "]"
        val = it.to_nf(p.value)
        den = nf.sub(nf.sub(nf.sub(nf.ONE, P_("S_or")), P_("S_wc")), P_("S_gc"))
        found_phase = set()
        for mono_atom, base_atom, expo, cofactor, wrappers in _powers(val, it):
            ph = next((k for k, (_s, _r, n, _km) in PHASES.items() if expo == P_(n)), None)
            if ph is None:
                continue
            s, r, n, km = PHASES[ph]
            found_phase.add(ph)
            where = f.where()
            # clamp to [0,1] before the power
            lo, hi, inner = _clamp_of(base_atom)
            okc = lo is not None and hi is not None and lo >= 0 and hi <= 1
            ctx.check(
                okc, "C14-b", q + f":k_r{ph} base clamped" + vtag, where,
                "the base of the Corey power is confined to [0, 1] by an explicit clamp before exponentiation (finite, <= k_max, exactly 0 at or below residual)",
                signature=f"clamp [{lo},{hi}]", base=nf.show(nf.atom_poly(base_atom), 200),
            )
            if inner is not None:
                want = nf.div(nf.sub(nf.fn("[]", nf.sym("saturations"), nf.sym(repr(s))), P_(r)), den)
                ctx.identity("C14-b", q + f":k_r{ph} normalised saturation" + vtag, where, f"the clamped quantity is ({s} - {r}) / (1 - S_or - S_wc - S_gc)", inner, want)
            opaque_wrappers = [w for w in wrappers if not _transparent(w)]
            ctx.check(
                not opaque_wrappers, "C14-b", q + f":k_r{ph} returned as computed" + vtag, where,
                "between the Corey power and the returned record there is nothing but containers and, at most, a clamp from below at exactly 0 (no offset, no scaling, no other clamp)",
                signature="wrapped by " + ",".join(str(w[1]) for w in opaque_wrappers)[:120], wrappers=[str(w) for w in wrappers],
            )
            ctx.identity("C14-b", q + f":k_r{ph} end-point" + vtag, where, f"k_r{ph} == {km} * base ** {n} (ceiling is the declared maximum)", cofactor, P_(km))
        ctx.check(found_phase == set(PHASES), "C14-b", q + ":three phases" + vtag, f.where(), "oil, water and gas permeabilities are each a Corey power with their own exponent", signature="phases " + ",".join(sorted(found_phase)))

    # ---- C14-d two-phase helper
    q2 = FP + "relative_permeabilities_twophase"
    f2 = P.func(q2)
    it2 = interp(ctx, opaque={q}, erase_masks=False)  # a row selection of the sweep is a different table
    ctx.touch(q2)
    paths2 = it2.run_function(q2)
    okr = any(p.outcome == "raise" and p.exc == "ValueError" and p.decisions and p.decisions[-1][0][0] == "gt" and p.decisions[-1][1] and nf.unkey(p.decisions[-1][0][1]) == nf.sub(nf.sym("Sw"), P_("S_wc")) for p in paths2)
    ctx.check(okr, "C14-d", q2 + ":mobile water rejected", f2.where(), "Sw > S_wc raises ValueError (the helper is for immobile water only)", signature="Sw guard")
    for p in returns(paths2):
        calls = [e for e in p.events if e.kind == "int_call" and e.data["callee"] == q]
        if len(calls) != 1:
            ctx.bad(
                "C14-d", q2 + ":evaluates relative_permeabilities", f2.where(),
                "the two-phase helper obtains its curves from relative_permeabilities itself, once - so that the same admissibility checks (exponents, residuals, end-points, saturations summing to one) and the same formula apply on both entry points",
                signature=f"calls {len(calls)}", calls=len(calls),
            )
            continue
        # the records handed over are built from a table {So, Sw, Sg}
        # follow the argument back to the table through content-preserving conversions only
        arg = calls[0].data["args"]["saturations"]
        via = []
        while isinstance(arg, ExtObj) and "recv" in arg.args:
            via.append(arg.qual.rsplit(".", 1)[-1])
            arg = arg.args["recv"]
        changed = [m for m in via if m not in ("to_records", "copy", "to_dict", "reset_index")]
        at_ = it2.single_atom(it2.to_nf(arg)) if not isinstance(arg, DictV) else None
        if at_ is not None and at_[0] == "fn" and at_[1] == "rows":
            # frame[mask]: fewer rows, and the rows kept keep their labels - the curves computed from the records get
            # fresh ones, so that pasting the two side by side pairs row i with another row (or with nothing)
            changed.append("row selection")
        if changed:
            ctx.bad(
                "C14-d", q2 + ":records handed over", f2.where(),
                "the records evaluated are the saturation table itself (converted, not transformed): So + Sw + Sg == 1 and Sw as supplied",
                signature="table transformed by " + ",".join(changed), conversions=via,
            )
            break
        tables = [arg] if isinstance(arg, DictV) and {"So", "Sw", "Sg"} <= set(arg.items) else [v for v in p.env.vars.values() if isinstance(v, DictV) and {"So", "Sw", "Sg"} <= set(v.items)]
        if not tables:
            raise AnalysisError(f"{q2}: saturation table not found")
        t = tables[0]
        vs = [t.items[k] for k in ("So", "Sw", "Sg")]
        hz = [e for e in p.events if e.kind == "arange_hazard"]
        if hz:
            ctx.bad(
                "C14-d", q2 + ":sweep has a definite number of rows", f"{f2.file}:{hz[0].line}",
                "the saturation sweep is built with a definite number of points (np.linspace): np.arange with a non-integer step whose stop is an exact multiple of the step yields n or n + 1 points depending on rounding - the extra point breaks So + Sw + Sg == 1",
                signature="arange with float step", step=nf.show(it2.to_nf(hz[0].data["step"]), 60), count=nf.show(it2.to_nf(hz[0].data["count"]), 20),
            )
            break
        if not all(isinstance(v, Vec) for v in vs):
            raise AnalysisError(f"{q2}: saturation columns are not explicit grids")
        total = nf.add(vs[0].gen, nf.add(vs[1].gen, vs[2].gen))
        same_len = nf.equal(vs[0].length, vs[1].length) and nf.equal(vs[1].length, vs[2].length)
        ctx.check(same_len, "C14-d", q2 + ":column lengths", f2.where(), "the three saturation columns have the same length", signature="lengths")
        ctx.identity("C14-d", q2 + ":saturations sum to one", f2.where(), "So + Sw + Sg == 1 at every row of the sweep", total, nf.ONE)
        ctx.identity("C14-d", q2 + ":water saturation", f2.where(), "the water column is the supplied (immobile) Sw", vs[1].gen, nf.sym("Sw"))
        rec = it2.to_nf(calls[0].data["args"]["saturations"])
        ctx.check(it2.to_nf(calls[0].data["args"]["params"]) == nf.sym("params"), "C14-d", q2 + ":params forwarded", f2.where(), "the caller's parameter set is forwarded unchanged", signature="params")
        break
    from .common import check_errstate

    check_errstate(ctx, "C14-e", ["bluebonnet.flow.flowproperties"])
    ctx.floor("C14", len(ctx.obligs), 20, "relative-permeability obligations")


def _sum_guard_ok(d):
    """syntactic shape any(cmp:>(abs(<per-record total> - 1), tol)) of the raising decision"""
    d = d.replace(" ", "")
    if not d.startswith("any(cmp:>(abs("):
        return False
    inner = d[len("any(cmp:>(abs("):]
    per_record = inner.startswith("bsum(saturations)-1)") or all(k in inner.split(")")[0] for k in ("'So'", "'Sg'", "'Sw'"))
    tail = inner.split("),")[-1].rstrip(")")
    try:
        tol = F(tail)
    except (ValueError, ZeroDivisionError):
        return False
    return per_record and 0 < tol <= F(1, 100)


def _powers(val, it):
    """yield (monomial, base atom, exponent NF, cofactor NF, wrappers) for every atom raised to a non-constant power;
    wrappers is the list of constructs between the returned value and the monomial: ('fn', name, const args) for an
    enclosing function atom, ('sum', n) for an enclosing sum of n > 1 terms"""
    seen = set()

    def walk(p, chain):
        here = chain + ([("sum", len(p))] if len(p) > 1 else [])
        for m, c in p.items():
            for i, (atom, e) in enumerate(m):
                ev = nf.unkey(e)
                if not nf.is_const(ev):
                    rest = {m[:i] + m[i + 1 :]: c}
                    key = (atom, e)
                    if key not in seen:
                        seen.add(key)
                        yield m, atom, ev, rest, here
                if atom[0] == "fn":
                    consts = tuple(str(nf.cval(nf.unkey(a))) for a in atom[2] if nf.is_const(nf.unkey(a)))
                    for a in atom[2]:
                        yield from walk(nf.unkey(a), here + [("fn", atom[1], consts)])
                elif atom[0] == "sum":
                    yield from walk(nf.unkey(atom[1]), here)

    yield from walk(val, [])


def _transparent(w):
    """a construct that hands a value in [0, k_max] through unchanged: containers, and a clamp from below at exactly 0"""
    if w[0] == "sum":
        return False
    name = w[1].split("{")[0].split(".")[-1].split(":")[0]
    if name in ("zip", "tuple", "list", "array", "asarray", "rec", "fromarrays", "column_stack", "stack", "buf", "dict", "record", "item", "[]", "store", "vec"):
        return True
    if name == "maximum" and w[2] == ("0",):
        return True
    if name == "clip" and w[2] and w[2][0] == "0" and (len(w[2]) == 1 or F(w[2][1]) >= 1):
        return True
    return False


def _clamp_of(atom):
    """(lo, hi, inner NF) for clip(x, lo, hi) / minimum(maximum(x, lo), hi) forms, else (None, None, None)"""
    if atom[0] != "fn":
        return None, None, None
    name, args = atom[1], [nf.unkey(a) for a in atom[2]]
    if name == "clip" and len(args) == 3:
        lo = nf.cval(args[1]) if nf.is_const(args[1]) and args[1] is not None and not _is_none(args[1]) else None
        hi = nf.cval(args[2]) if nf.is_const(args[2]) and not _is_none(args[2]) else None
        return lo, hi, args[0]
    if name in ("minimum", "maximum") and len(args) == 2:
        consts = [a for a in args if nf.is_const(a)]
        others = [a for a in args if not nf.is_const(a)]
        if len(consts) == 1 and len(others) == 1:
            c = nf.cval(consts[0])
            inner = others[0]
            at = None
            if len(inner) == 1:
                ((m, cf),) = inner.items()
                if cf == 1 and len(m) == 1 and m[0][1] == nf.KONE:
                    at = m[0][0]
            lo2, hi2, inner2 = _clamp_of(at) if at is not None else (None, None, None)
            if name == "minimum":
                return lo2, c if hi2 is None else min(c, hi2), inner2 if inner2 is not None else inner
            return c if lo2 is None else max(c, lo2), hi2, inner2 if inner2 is not None else inner
    return None, None, None


def _is_none(p):
    return p == nf.sym("None")
