"""C20 - plots carry the simulated data and the square-root axis is a true bijection.

Decided: (a) forward transform a -> a^(1/2), inverse a -> a^2, exact mutual inverses on non-negative
values, inverted() returns the other class, the scale is registered under the name used at every
`xscale=` site; (b) every Axes.plot call draws the stated (x, y): recovery vs time, gradient of
recovery over time, every `every`-th stored profile vs node position with the affine rescale,
production-comparison curves over time/tau.  Not decided: what matplotlib renders.
"""
from __future__ import annotations

import ast

from .. import nf
from ..model import AnalysisError
from ..values import EnumV, ExtObj, GenV, Inst, Num, RangeV, StrV, Vec
from .common import FCP, PLOT, POSITIVE, check_quadrature, interp, returns

LEVEL = "other"


class _Call:
    """uniform view of `recv.meth(...)` whether the receiver is an external object or an opaque parameter"""

    def __init__(self, e, meth, args):
        self.e, self.meth, self.args, self.line = e, meth, args, e.line
        self.data = {"args": args, "meth": meth}


def method_calls(p, func, meth):
    out = []
    for e in p.events:
        if e.kind == "method_call" and e.data["meth"] == meth:
            out.append(_Call(e, meth, e.data["args"]))
        elif e.kind == "opaque_call" and e.data["name"].endswith("." + meth):
            a = {str(i): v for i, v in enumerate(e.data["args"])}
            a.update(e.data["kwargs"])
            out.append(_Call(e, meth, a))
    return out


def plots(p, func):
    return method_calls(p, func, "plot")


def tag(p, skip=("ax is None", "plot_kwargs is None", "change_ticks")):
    return "[" + ", ".join(("" if c else "not ") + d[:40] for _k, c, d in p.decisions if d not in skip) + "]"


def _range_over_rows(it, itv, PP):
    """range(len(PP)) / range(0, len(PP)) / range(PP.shape[0]): one iteration per stored row, in order"""
    from ..values import RangeV

    if not isinstance(itv, RangeV) or len(itv.args) not in (1, 2):
        return False
    if len(itv.args) == 2 and it.to_nf(itv.args[0]):
        return False
    stop = it.to_nf(itv.args[-1])
    return stop in (nf.fn("len", PP), nf.fn("[]", nf.fn("shape", PP), nf.const(0)), nf.fn("[]", nf.sym("reservoir.pseudopressure.shape"), nf.const(0)))


def check(ctx):
    P = ctx.P
    ctx.assume(POSITIVE)
    SC = PLOT + "SquareRootScale"
    sc = P.cls(SC)
    fwd, inv = sc.nested.get("SquareRootTransform"), sc.nested.get("InvertedSquareRootTransform")
    if fwd is None or inv is None:
        # not nested in the scale class: module-level classes the scale refers to (by class attribute or directly)
        def module_class(name):
            v = next((c.class_attrs[name] for c in sc.mro() if name in c.class_attrs), None)
            target = v.id if isinstance(v, ast.Name) else name
            return sc.module.classes.get(target)

        fwd, inv = fwd or module_class("SquareRootTransform"), inv or module_class("InvertedSquareRootTransform")
    if fwd is None or inv is None:
        raise AnalysisError("square-root transform classes not found")
    it = interp(ctx)

    def meth(ci, name, args=None):
        m = ci.lookup(name)
        if m is None:
            raise AnalysisError(f"{ci.qualname}.{name} not found")
        ctx.touch(m.qualname)

        def run(x):
            return x.enter(m, dict(args or x.symbolic_args(m)), Inst(ci, {}, "self"), None, ci)

        ps = [p for p in it.explore(run) if p.outcome == "return"]
        # partitions that return the same term (the equivalent arms of a version gate) are one result; a partition that
        # returns something else is a transform that is not the documented one there
        uniq = {}
        for p_ in ps:
            uniq.setdefault(nf.key(it.to_nf(p_.value)) if p_.value is not None else None, p_)
        if len(uniq) > 1:
            ctx.bad("C20-a", m.qualname + ":one transform", m.where(), "the transform is one function of its argument on every partition (version gates, options)", signature="transform partitions " + str(len(uniq)), decisions=sorted({d for p_ in ps for _k, _c, d in p_.decisions})[:6])
        if not uniq:
            raise AnalysisError(f"{m.qualname}: no returning path")
        return m, max(uniq.values(), key=lambda p_: nf.size(it.to_nf(p_.value)) if p_.value is not None else 0)

    a = nf.sym("a")
    mf, pf = meth(fwd, "transform_non_affine")
    mi, pi = meth(inv, "transform" if inv.lookup("transform") is not None and "transform" in inv.methods else "transform_non_affine")
    F_, I_ = it.to_nf(pf.value), it.to_nf(pi.value)
    ctx.identity("C20-a", mf.qualname, mf.where(), "the forward transform is the square root", F_, nf.sqrt(a))
    ctx.identity("C20-a", mi.qualname, mi.where(), "the inverse transform is the square", I_, nf.mul(a, a))
    ctx.identity("C20-a", SC + ":inverse(forward(a))", mi.where(), "inverse(forward(a)) == a on non-negative values", nf.subst_sym(I_, {"a": F_}), a)
    ctx.identity("C20-a", SC + ":forward(inverse(a))", mf.where(), "forward(inverse(a)) == a on non-negative values", nf.subst_sym(F_, {"a": I_}), a)
    for ci, other, nm in ((fwd, inv, "forward"), (inv, fwd, "inverse")):
        m, p = meth(ci, "inverted")
        ctx.check(isinstance(p.value, Inst) and p.value.cls is other, "C20-a", m.qualname, m.where(), f"inverted() of the {nm} transform returns an instance of the other transform", signature="inverted()", got=getattr(getattr(p.value, "cls", None), "name", str(p.value)[:40]))
    m, p = meth(sc, "get_transform")
    ctx.check(isinstance(p.value, Inst) and p.value.cls is fwd, "C20-a", m.qualname, m.where(), "the scale's transform is the forward (square-root) transform", signature="get_transform")
    # the class attribute `name`, evaluated (a literal, a module constant, an enumeration member's value, ...)
    from ..values import ClassV

    nvals = [p.value for p in it.explore(lambda x: x.getattr(ClassV(sc), "name")) if p.outcome == "return"]
    scale_name = nvals[0].s if len(nvals) == 1 and isinstance(nvals[0], StrV) else None
    mod = P.module("bluebonnet.plotting")
    registered = any(
        isinstance(st, ast.Expr) and isinstance(st.value, ast.Call) and ast.unparse(st.value.func).endswith("register_scale") and st.value.args and isinstance(st.value.args[0], ast.Name) and st.value.args[0].id == "SquareRootScale"
        for st in mod.tree.body
    )
    ctx.check(registered and isinstance(scale_name, str), "C20-a", SC + ":registered", f"{mod.relpath}:{sc.node.lineno}", "the scale class is registered with matplotlib under its `name`", signature="registration", name=scale_name)

    # ---- C20-b plot calls
    n_plot = 0
    uses = 0

    def scale_uses(p, func):
        k = 0
        bad = []
        # ax.set(xscale=name) and ax.set_xscale(name) are the same request
        vals = [e.data["args"].get("xscale") for e in method_calls(p, func, "set")]
        vals += [e.data["args"].get("0", e.data["args"].get("value")) for e in method_calls(p, func, "set_xscale")]
        for v in vals:
            if isinstance(v, StrV) and v.s not in ("log", "linear", "symlog", "logit"):
                k += 1
                if v.s != scale_name:
                    bad.append(v.s)
        return k, bad

    # recovery factor
    q = PLOT + "plot_recovery_factor"
    f = P.func(q)
    ctx.touch(q)
    seen = set()
    for p in returns(it.run_function(q)):
        pl = plots(p, q)
        sig = tuple(nf.key(it.to_nf(e.data["args"].get(k))) for e in pl for k in ("0", "1") if e.data["args"].get(k) is not None) + (tag(p),)
        if sig in seen:
            continue
        seen.add(sig)
        n_plot += len(pl)
        ok = len(pl) == 1 and it.to_nf(pl[0].data["args"].get("0")) == nf.sym("reservoir.time") and it.to_nf(pl[0].data["args"].get("1")) == nf.fn("reservoir.recovery_factor")
        ctx.check(ok, "C20-b", q + ":curve " + tag(p), f.where(), "one curve: x = reservoir.time, y = reservoir.recovery_factor() computed for this call", signature="recovery curve", got=[nf.show(it.to_nf(e.data["args"].get(k)), 80) for e in pl for k in ("0", "1") if e.data["args"].get(k) is not None])
        k, bad = scale_uses(p, q)
        uses = max(uses, 0) + 0
        ctx.check(k >= 1 and not bad, "C20-a", q + ":xscale " + tag(p), f.where(), "the time axis uses the registered square-root scale name", signature="xscale " + ",".join(bad), nontrivial=False)
    # recovery rate
    q = PLOT + "plot_recovery_rate"
    f = P.func(q)
    ctx.touch(q)
    seen = set()
    for p in returns(it.run_function(q)):
        pl = plots(p, q)
        gr = [e for e in p.events if e.kind == "ext_call" and e.data["callee"] == "numpy.gradient"]
        sig = tuple(nf.key(it.to_nf(e.data["args"].get(k))) for e in pl for k in ("0", "1") if e.data["args"].get(k) is not None) + (tag(p),)
        if sig in seen:
            continue
        seen.add(sig)
        n_plot += len(pl)
        if len(gr) != 1 or len(pl) != 1:
            ctx.bad("C20-b", q + ":curve " + tag(p), f.where(), "one curve whose ordinate is np.gradient of the recovery over time", signature="rate curve shape", plots=len(pl), gradients=len(gr))
            continue
        y = check_quadrature(ctx, "C20-b", gr[0], it, {"time"}, q + ":gradient " + tag(p), f"{f.file}:{gr[0].line}", need_initial=False)
        ok = y is not None and y == nf.fn("reservoir.recovery_factor") and it.to_nf(pl[0].data["args"].get("0")) == nf.sym("reservoir.time") and pl[0].data["args"].get("1") is gr[0].data["result"]
        ctx.check(ok, "C20-b", q + ":curve " + tag(p), f.where(), "x = reservoir.time, y = d(recovery_factor())/d(time)", signature="rate curve")
    # pseudopressure profiles
    q = PLOT + "plot_pseudopressure"
    f = P.func(q)
    ctx.touch(q)
    PP = nf.sym("reservoir.pseudopressure")
    nx = nf.sym("reservoir.nx")
    seen = set()
    for p in returns(it.run_function(q)):
        pl = plots(p, q)
        # the index loop over the stored rows (in the function itself or in a generator helper it consumes)
        loops = [e for e in p.events if e.kind == "for_iter" and isinstance(e.data["iter"], EnumV) and it.to_nf(e.data["iter"].inner) == PP]
        if not loops:
            loops = [e for e in p.events if e.kind == "for_iter" and e.func == q and not isinstance(e.data["iter"], GenV) and not e.data.get("comprehension")]
        # the selection predicate <index> % every == 0, whatever the index variable is called
        sel, ivar = None, None
        for k, c, d in p.decisions:
            if k[0] == "eq":
                at = it.single_atom(nf.unkey(k[1]))
                if at is not None and at[0] == "fn" and at[1] == "op:Mod" and len(at[2]) == 2 and nf.unkey(at[2][1]) == nf.sym("every"):
                    iv = it.single_atom(nf.unkey(at[2][0]))
                    if iv is not None and iv[0] == "sym":
                        sel, ivar = c, iv[1]
        sig = tuple(nf.key(it.to_nf(e.data["args"].get(k))) for e in pl for k in ("0", "1") if e.data["args"].get(k) is not None) + (tag(p),)
        if sig in seen:
            continue
        seen.add(sig)
        n_plot += len(pl)
        okl = len(loops) == 1
        row = None
        # the same selection written as a mask: the rows of the stored field at the positions j with j % every == 0
        want_mask = nf.fn("cmp:==", nf.fn("op:Mod", nf.sym("@J"), nf.sym("every")), {})
        masked = [e for e in p.events if e.kind == "for_iter" and isinstance(e.data["iter"], Num) and e.data["iter"].nf == nf.fn("rows", PP, want_mask)]
        if len(masked) != 1:
            # ... or as a strided view: rows 0, every, 2 every, ... of the stored field, on a partition where `every` is known
            # to be a positive step (a zero step raises, a negative one walks backwards from the last row)
            pos_step = any(c and d.replace(" ", "") in ("every>0", "every>=1", "0<every", "1<=every") for _k, c, d in p.decisions)
            masked = [e for e in p.events if pos_step and e.kind == "for_iter" and isinstance(e.data["iter"], Num) and nf.show(e.data["iter"].nf, 200) == "[](reservoir.pseudopressure, slice(None, None, every))"]
        if len(masked) == 1:
            okl, row = True, masked[0].data["iter"].nf
            ctx.check(okl, "C20-b", q + ":profile selection " + tag(p), f.where(), "the loop runs over every stored row of reservoir.pseudopressure and draws those with index % every == 0 (first and last eligible rows included)", signature="profile selection", loops=1)
            okl = False  # reported; continue below with `row`
        if okl:
            itv = loops[0].data["iter"]
            if isinstance(itv, EnumV) and it.to_nf(itv.inner) == PP:
                row = nf.fn("[]", PP, nf.sym(ivar)) if ivar else None
                okl = sel is not None
                if sel is False:
                    ctx.check(not pl, "C20-b", q + ":skipped profiles " + tag(p), f.where(), "profiles whose index is not a multiple of `every` are not drawn", signature="extra profile")
                    continue
            elif _range_over_rows(it, itv, PP):
                # for i in range(len(profiles)): p = profiles[i]  - the index loop over every stored row
                row = nf.fn("[]", PP, nf.sym(ivar)) if ivar else None
                okl = sel is not None
                if sel is False:
                    ctx.check(not pl, "C20-b", q + ":skipped profiles " + tag(p), f.where(), "profiles whose index is not a multiple of `every` are not drawn", signature="extra profile")
                    continue
            else:
                okl = False
        if len(masked) != 1:
            ctx.check(okl, "C20-b", q + ":profile selection " + tag(p), f.where(), "the loop runs over every stored row of reservoir.pseudopressure and draws those with index % every == 0 (first and last eligible rows included)", signature="profile selection", loop=str(loops[0].data["iter"])[:100] if loops else "none")
        if (not okl and len(masked) != 1) or row is None:
            continue
        resc = next((c for _k, c, d in p.decisions if d == "rescale"), None)
        if len(pl) != 1:
            ctx.bad("C20-b", q + ":curve " + tag(p), f.where(), "each selected profile is drawn once", signature="profile count", plots=len(pl))
            continue
        x, y = pl[0].data["args"].get("0"), it.to_nf(pl[0].data["args"].get("1"))
        okx = isinstance(x, Vec) and nf.equal(x.gen, nf.div(nf.add(nf.sym("@J"), nf.ONE), nx)) and nf.equal(x.length, nx) and not x.over
        ctx.check(okx, "C20-b", q + ":node positions " + tag(p), f"{f.file}:{pl[0].line}", "x is the node position (j + 1) / nx, j = 0..nx-1", signature="node positions", x=repr(x)[:160])
        if resc:
            p0 = nf.fn("[]", row, nf.const(0))
            pinit = nf.fn("[]", PP, nf.const(0), nf.const(-1))
            ctx.identity("C20-b", q + ":rescaled profile " + tag(p), f"{f.file}:{pl[0].line}", "y = (p - p[0]) / (p_initial - p[0]): 0 at the fracture, 1 at the initial value", y, nf.div(nf.sub(row, p0), nf.sub(pinit, p0)))
        else:
            ctx.identity("C20-b", q + ":profile " + tag(p), f"{f.file}:{pl[0].line}", "y is the stored profile itself", y, row)
    # production comparison
    q = FCP + "plot_production_comparison"
    f = P.func(q)
    ctx.touch(q)
    from .common import FP

    it2 = interp(ctx, opaque={FP + "FlowProperties.__init__"}, opaque_methods={"bluebonnet.flow.reservoir:simulate", "bluebonnet.flow.reservoir:recovery_factor"}, erase_masks=False)
    val = lambda k: nf.fn(".value", nf.fn("[]", nf.sym("params"), nf.sym(repr(k))))
    seen = set()
    for p in returns(it2.run_function(q)):
        pl = plots(p, q)
        sig = tuple(nf.key(it2.to_nf(e.data["args"].get(k))) for e in pl for k in ("0", "1"))
        if sig in seen:
            continue
        seen.add(sig)
        n_plot += len(pl)
        recs = [e for e in p.events if e.kind == "int_call" and e.data["callee"].startswith("bluebonnet.flow.reservoir.") and e.data["callee"].endswith(".recovery_factor")]
        sims = [e for e in p.events if e.kind == "int_call" and e.data["callee"].startswith("bluebonnet.flow.reservoir.") and e.data["callee"].endswith(".simulate")]
        if len(pl) != 3 or len(recs) != 1 or len(sims) != 1:
            ctx.bad("C20-b", q + ":curves " + tag(p, ()), f.where(), "three curves (simulated recovery, scaled production, frac-face pressure) from one simulation", signature="comparison shape", plots=len(pl))
            continue
        tsim = it2.to_nf(sims[0].data["args"]["time"])
        pf = it2.to_nf(sims[0].data["args"]["pressure_fracface"])
        xs = [it2.to_nf(e.data["args"]["0"]) for e in pl]
        ys = [it2.to_nf(e.data["args"]["1"]) for e in pl]
        rfa = [x for x in nf.atoms(ys[0]) if x[0] == "fn" and x[1] == recs[0].data["callee"]]
        tau, M = val("tau"), val("M")
        okx = all(x == tsim for x in xs) and nf.equal(nf.mul(tsim, tau), nf.div(nf.mul(tsim, tau), nf.ONE)) and not nf.depends(nf.mul(tsim, tau), "params") if False else all(x == tsim for x in xs)
        t_over_tau = nf.is_zero(nf.sub(nf.mul(tsim, tau), nf.mul(nf.mul(tsim, tau), nf.ONE))) and any(a == ("fn", ".value", (nf.key(nf.fn("[]", nf.sym("params"), nf.sym("'tau'"))),)) for a in nf.atoms(tsim))
        ctx.check(okx and t_over_tau, "C20-b", q + ":abscissa " + tag(p, ()), f.where(), "all three curves are drawn against the simulated time axis time / tau", signature="comparison abscissa", x=[nf.show(x, 80) for x in xs])
        # the time axis itself: the Days column when every row is kept, the index of the productive days when filtered
        targ = sims[0].data["args"]["time"]
        filt = next((c for _k, c, d in p.decisions if d == "filter_zero_prod_days"), None)
        if filt:
            okt = isinstance(targ, Vec) and not targ.over and nf.equal(nf.mul(targ.gen, tau), nf.sym("@J"))
            want_t = "the running index 0..n-1 of the productive days, divided by tau"
        else:
            days = nf.fn("[]", nf.fn("[]", nf.sym("prod_data"), nf.sym("'Days'"), nf.sym("'Gas'"), nf.sym("'Pressure'")), nf.sym("'Days'"))
            okt = nf.equal(nf.mul(tsim, tau), days)
            want_t = "the Days column of the table, divided by tau"
        ctx.check(okt, "C20-b", q + ":time axis " + tag(p, ()), f.where(), "the simulated and plotted time is " + want_t, signature="comparison time axis", time=nf.show(tsim, 160))
        ctx.check(len(rfa) == 1 and ys[0] == nf.atom_poly(rfa[0]), "C20-b", q + ":simulated recovery " + tag(p, ()), f.where(), "curve 1 is the recovery factor of the simulation just run", signature="comparison recovery", y=nf.show(ys[0], 120))
        cum = nf.mul(ys[1], M)
        okc = any(a[0] == "fn" and a[1] == "cumsum" for a in nf.atoms(cum)) and it2.single_atom(cum) is not None
        ctx.check(okc, "C20-b", q + ":scaled production " + tag(p, ()), f.where(), "curve 2 is cumulative production divided by M", signature="comparison production", y=nf.show(ys[1], 160))
        # ... of the documented rows: with filtering exactly those with Gas > 0 and a pressure reading, else all rows
        # (the selection fit_production_pressure makes, C18-d: the figure compares what was fitted)
        base_ = nf.sym("prod_data")
        colf = lambda t_, k_: nf.fn("[]", t_, nf.sym(repr(k_)))
        if filt:
            mask_ = nf.fn("bool:and", *sorted([nf.fn("cmp:>", colf(base_, "Gas"), {}), nf.fn("pandas.notna{0}", colf(base_, "Pressure"))], key=repr))
            rows_ = nf.fn("rows", base_, mask_)
        else:
            rows_ = base_
        frame_ = nf.fn("[]", rows_, nf.sym("'Days'"), nf.sym("'Gas'"), nf.sym("'Pressure'"))
        ctx.identity("C20-b", q + ":rows plotted " + tag(p, ()), f.where(), "the production curve is the running sum of the Gas column of exactly the documented rows (Gas > 0 and a pressure reading when filtering, all rows otherwise)", cum, nf.fn("cumsum", colf(frame_, "Gas")))
        # ... and that history is the table's own: the Pressure column of those rows, smoothed by the boxcar filter when a
        # window is given - not moved, clipped or re-sampled on the way to the simulation (the selection C18-d checks for the fit)
        raw_p_ = colf(frame_, "Pressure")
        nowin_ = next((c for _k, c, d in p.decisions if d == "filter_window_size is None"), None)
        pfv_ = sims[0].data["args"]["pressure_fracface"]
        if nowin_:
            ctx.identity("C20-b", q + ":pressure history " + tag(p, ()), f.where(), "without a window the frac-face history simulated and drawn is the Pressure column unchanged", pf, raw_p_)
        else:
            from ..values import Buf as _Buf, ExtObj as _Ext

            okw_ = isinstance(pfv_, _Ext) and pfv_.qual == "scipy.ndimage.uniform_filter1d" and it2.to_nf(pfv_.args.get("input")) == raw_p_ and it2.to_nf(pfv_.args.get("size")) == nf.sym("filter_window_size") and set(pfv_.args) <= {"input", "size", "output"} and ("output" not in pfv_.args or isinstance(pfv_.args["output"], _Buf))
            ctx.check(okw_, "C20-b", q + ":pressure smoothing " + tag(p, ()), f.where(), "with a window the frac-face history simulated and drawn is the boxcar filter of the Pressure column with size = filter_window_size", signature="comparison smoothing", got=str(pfv_)[:200])
        ctx.check(ys[2] == pf, "C20-b", q + ":frac-face pressure " + tag(p, ()), f.where(), "curve 3 is the frac-face pressure history handed to the simulation", signature="comparison pressure", y=nf.show(ys[2], 120))
        k, bad = scale_uses(p, q)
        ctx.check(k >= 2 and not bad, "C20-a", q + ":xscale " + tag(p, ()), f.where(), "both axes use the registered square-root scale name", signature="xscale " + ",".join(bad), nontrivial=False)
    ctx.floor("C20-b", n_plot, 7, "Axes.plot call sites")
    ctx.floor("C20", len(ctx.obligs), 25, "plot obligations")
