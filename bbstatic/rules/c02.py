"""C02 - solver converges to the solution of the documented diffusion problem.

Convergence is a limit statement and is not decided.  Decided: consistency of the scheme with the
documented boundary-value problem (u_t = alpha u_xx, fixed value at the fracture face, no-flow
outer boundary, uniform initial state) - with stability (the C01 assembly clauses, repeated here)
the classical sufficient pair for the linear scheme and the necessary pair for the lagged one.
"""
from __future__ import annotations

from .. import nf
from ..model import AnalysisError
from ..values import Arr2, Num, TupV, Vec
from .c01 import _step, check_assembly, check_boundary_row, check_ideal
from .c04 import DT, _strip_alpha, shift_next
from .common import RES
from .recovery import NX, flux_mode, fvf_and_alpha
from .reservoir import N, R, SIM_CLASSES, build_matrix_rows, k_atom, rows_of

LEVEL = "other"


def rhs_rule(ctx, rule):
    from ..values import Arr2
    from .c04 import check_rhs_is_previous_level

    for cls in SIM_CLASSES:
        it, fc, parts = _step(ctx, cls)
        seen = set()
        for p, ev, A, b in parts:
            res = ev.data.get("result")
            st = [e for e in p.events if e.kind == "store_sub" and isinstance(e.data["base"], Arr2) and (e.data["value"] is res or (hasattr(e.data["value"], "qual") and e.data["value"].qual.endswith("[0]") and e.data["value"].args.get("of") is res))]
            if not st or nf.key(b.gen) in seen:
                continue
            seen.add(nf.key(b.gen))
            check_rhs_is_previous_level(ctx, rule, RES + cls + ".simulate", f"{fc.file}:{ev.line}", b, st[0].data["base"], it)


def check(ctx):
    P = ctx.P
    f = P.func(RES + "_build_matrix")
    # ---- C02-m the configuration (p_frac, p_initial, nx, fluid) is not rewritten by simulate / recovery calls: the
    # problem a run converges to is the documented one for the object's settings, whatever was run on it before
    from .c10 import family_rules

    try:
        family_rules(ctx, {"b": "C02-m"})
    except AnalysisError as e:  # the clause cannot be evaluated on this tree: the property's own rules still run
        ctx.notes.append(f"C02-m not evaluated: {e}")
    # ---- C02-a interior stencil: moment conditions
    rows, _ = build_matrix_rows(ctx)
    row = rows["r"]
    l, d, u = row.get(-1, {}), row.get(0, {}), row.get(1, {})
    kr = k_atom(R)
    ctx.identity("C02-a", RES + "_build_matrix:time consistency", f.where(), "interior row: coefficients sum to 1 (backward Euler with the old value on the right-hand side)", nf.add(l, nf.add(d, u)), nf.ONE)
    ctx.identity("C02-a", RES + "_build_matrix:no first-derivative term", f.where(), "interior row: upper - lower == 0 (no advection term, first moment vanishes)", nf.sub(u, l), {})
    ctx.identity("C02-a", RES + "_build_matrix:second moment", f.where(), "interior row: lower + upper == -2 k_r, i.e. the row is u_r - k_r (u_(r-1) - 2 u_r + u_(r+1)): second-order centred -alpha dt d2/dx2", nf.add(l, u), nf.mul(nf.const(-2), kr))
    ctx.check(set(row) == {-1, 0, 1}, "C02-a", RES + "_build_matrix:three-point stencil", f.where(), "interior rows couple exactly the two neighbours", signature="stencil width", offsets=sorted(row))
    # ---- C02-b closures and stability
    check_assembly(ctx, "C02-b")
    last = rows["r=n-1"]
    ctx.check(set(last) == {-1, 0}, "C02-b", RES + "_build_matrix:outer closure", f.where(), "the outer row couples only its inner neighbour (no-flow mirror closure)", signature="outer closure", offsets=sorted(last))
    check_boundary_row(ctx, "C02-b")
    check_ideal(ctx, "C02-b")
    # ---- C02-c initial state of the single-phase run
    it, fs, parts = _step(ctx, "SinglePhaseReservoir")
    seen = set()
    for p, ev, A, b in parts:
        from .reservoir import initial_row

        arm = next((c for _k, c, d in p.decisions if "pressure_fracface is None" in d), None)
        if arm in seen:
            continue
        seen.add(arm)
        ok = False
        det = {}
        v = initial_row(p)
        if v is not None:
            over0 = v.over.get(nf.key(nf.const(0)))
            others = [k for k in v.over if k != nf.key(nf.const(0))]
            det = {"generic": nf.show(v.gen, 100), "node0": nf.show(over0[1], 160) if over0 else "-"}
            ok = v.gen == nf.sym("self.fluid.m_i") and over0 is not None and "m_scaled_func" in nf.show(over0[1], 300) and not others and nf.equal(v.length, NX)
        ctx.check(
            ok, "C02-c", RES + f"SinglePhaseReservoir.simulate:initial state [schedule given={arm is False}]", fs.where(),
            "level 0 is uniformly m_i with the frac-face node set to the first frac-face value", signature="initial state", **det,
        )
    # right-hand side of each step is the previous level (no extra clipping)
    rhs_rule(ctx, "C02-b")
    # ---- C02-d/e flux stencil and time quadrature
    from .recovery import scale_rule

    n = 0
    for cls in ("IdealReservoir", "SinglePhaseReservoir", "TwoPhaseReservoir"):
        n += flux_mode(ctx, "C02-d", cls)
        scale_rule(ctx, "C02-g", cls)
    ctx.floor("C02-d", n, 1, "flux-mode recovery paths")
    # ---- C02-f/g scales
    fvf_and_alpha(ctx, "C02-f")
    # ---- C02-h mesh ratio is dt / dx^2 with dx = 1/(nx + c)
    for cls in SIM_CLASSES:
        it, fc, parts = _step(ctx, cls)
        done = set()
        for p, ev, A, b in parts:
            rows_ = rows_of(A, b.length)
            k = nf.neg(rows_["r"].get(1, {}))
            if nf.key(k) in done:
                continue
            done.add(nf.key(k))
            ks = shift_next(k)
            mesh = _strip_alpha(nf.div(ks, DT))
            cands = {"nx": nf.mul(NX, NX), "nx-1": nf.mul(nf.sub(NX, nf.ONE), nf.sub(NX, nf.ONE))}
            hit = next((nm for nm, c in cands.items() if nf.equal(mesh, c)), None)
            ctx.check(
                hit is not None, "C02-h", RES + cls + ".simulate:mesh ratio", f"{fc.file}:{ev.line}",
                "k / (dt * alpha_scaled) == 1/dx^2 with dx = 1/nx or 1/(nx-1) (the two node conventions of the code)", signature="mesh constant", mesh=nf.show(mesh, 120), convention=hit,
            )
    from .c04 import check_all_steps_and_storage

    check_all_steps_and_storage(ctx, "C02-i", None)
    # C02-i: initial value and scaled pseudopressure of the wrapper; C02-j: interpolator options (no assume_sorted,
    # no silent fill) in the modules the solver reads diffusivity and pseudopressure from
    from .c09 import check_initial_value
    from .common import check_interp_options

    check_initial_value(ctx, "C02-i", "C02-i", classes=("FlowProperties",))
    check_interp_options(ctx, "C02-j", ["bluebonnet.flow.reservoir", "bluebonnet.flow.flowproperties"], 6)
    from .c01 import check_alpha_lookup

    check_alpha_lookup(ctx, "C02-l")  # the diffusivity the solver reads is the table's, looked up by a sorting, clamped, linear interpolator
    from .c04 import check_solver_sites

    check_solver_sites(ctx, "C02-k")  # solver error must not compete with discretisation error
    ctx.floor("C02", len(ctx.obligs), 30, "consistency obligations")
