"""C01 - simulated pseudopressure obeys the maximum principle and the frac-face value.

Decided (for every k >= 0, every n, every table): (a) _build_matrix assembles an M-matrix with unit
row sums (interior, outer row) and a frac-face row whose sum exceeds one by a non-negative amount;
(b) in SinglePhaseReservoir.simulate the frac-face row is consistent: the constant profile at the
current frac-face value is a fixed point of the boundary row, i.e. right-hand side and matrix
coefficient use one diffusivity and the value relaxed to does not depend on the step size;
(c) diffusivity lookups are linear interpolators clamped to the column's own min/max;
(d) the ideal reservoir starts at 1 with a zero ghost node.
"""
from __future__ import annotations

from .. import nf
from ..model import AnalysisError
from ..values import Arr2, BoolV, ExtObj, Num, StrV, TupV, Vec
from .common import FP, RES, interp, positive, returns
from .reservoir import N, R, build_matrix_rows, k_atom, rows_of, sim_step, solver_inputs

LEVEL = "other"


def check(ctx):
    check_assembly(ctx, "C01-a")
    check_boundary_row(ctx, "C01-b")
    check_alpha_lookup(ctx, "C01-c")
    check_ideal(ctx, "C01-d")
    # C01-e: the frac-face value applied is the configured one: a simulate() that rewrites the configuration makes a later
    # run relax to a stale schedule (shared effect rule of C10)
    from .c10 import family_rules

    family_rules(ctx, {"b": "C01-e"})
    from .c04 import check_all_steps_and_storage

    check_all_steps_and_storage(ctx, "C01-g", "C01-f")
    # C01-h: the initial value the solver starts from and clips to is m_scaled_func(p_i) (a sorted, raising lookup);
    # C01-i: no interpolator of the flow-property wrapper assumes a sorted table
    from .c09 import check_initial_value
    from .common import check_interp_options

    check_initial_value(ctx, "C01-h", "C01-h", classes=("FlowProperties",))
    check_interp_options(ctx, "C01-i", ["bluebonnet.flow.flowproperties"], 5)
    from .recovery import fvf_and_alpha

    fvf_and_alpha(ctx, "C01-k")  # positive diffusivity ratio alpha(m)/alpha(m_i) for every concrete class (MRO, decorators)
    # C01-j: "up to rounding-level error of the linear solve": the solve is direct, or iterative with a checked flag and
    # a tight relative tolerance (shared with C04-e)
    from .c04 import check_solver_sites

    check_solver_sites(ctx, "C01-j")
    ctx.floor("C01", len(ctx.obligs), 12, "maximum-principle obligations")


def check_assembly(ctx, rule, exact=False):
    """M-matrix structure of _build_matrix; with exact=True also the exact backward-Euler stencil (C04-a)."""
    P = ctx.P
    f = P.func(RES + "_build_matrix")
    rows, _ = build_matrix_rows(ctx)
    ctx.assume("mesh ratios k = alpha*dt/dx^2 are non-negative (positive diffusivity, non-decreasing time grid)")
    for lab, row in rows.items():
        r = {"r=0": nf.const(0), "r=1": nf.const(1), "r": R, "r=n-2": nf.sub(N, nf.const(2)), "r=n-1": nf.sub(N, nf.const(1))}[lab]
        where = f.where()
        offs = {k: v for k, v in row.items() if k != 0}
        ok_off = all(positive(nf.neg(v), pos_fns={"k"}) or not v for v in offs.values())
        ok_diag = 0 in row and positive(row[0], pos_fns={"k"})
        ctx.check(
            ok_off and ok_diag, rule, RES + f"_build_matrix:row {lab} signs", where,
            "positive diagonal and non-positive off-diagonals for every k >= 0 (M-matrix)",
            signature="sign", row={str(k): nf.show(v, 120) for k, v in sorted(row.items())},
        )
        total = {}
        for v in row.values():
            total = nf.add(total, v)
        if lab == "r=0":
            extra = nf.sub(total, nf.ONE)
            ctx.check(
                positive(extra, pos_fns={"k"}), rule, RES + f"_build_matrix:row {lab} sum", where,
                "frac-face row sum is 1 + (non-negative ghost-node coefficient)", signature="row sum", row_sum=nf.show(total, 200),
            )
        else:
            ctx.identity(rule, RES + f"_build_matrix:row {lab} sum", where, "row sum == 1 (new value is a convex combination of the old value and the neighbours)", total, nf.ONE)
        if exact:
            kr = k_atom(r)
            want = {-1: nf.neg(kr), 0: nf.add(nf.ONE, nf.mul(nf.const(2), kr)), 1: nf.neg(kr)}
            if lab == "r=0":
                want.pop(-1)
            if lab == "r=n-1":
                want = {-1: nf.neg(kr), 0: nf.add(nf.ONE, kr)}
            same = set(row) == set(want) and all(nf.equal(row[k], want[k]) for k in want)
            ctx.check(
                same, "C04-a", RES + f"_build_matrix:row {lab} stencil", where,
                "row r is the backward-Euler update (1 + 2k_r) u_r - k_r u_(r-1) - k_r u_(r+1) (outer row: (1 + k) u - k u_(r-1), no-flow)",
                signature="stencil", row={str(k): nf.show(v, 120) for k, v in sorted(row.items())},
            )
    # last: a reference of an unexpected shape ends the analysis here, after the structure rules above have reported
    check_solved_is_assembly(ctx, rule, rows)


def check_solved_is_assembly(ctx, rule, ref_rows):
    """The system each simulate hands to the solver is the library's assembly for *some* coefficient vector k:
    row by row (first two, generic, last two), one value k_r reproduces every coefficient of that row through the
    formulas of _build_matrix.  (The structure rules above are statements about _build_matrix; this clause ties the
    matrix actually solved - however it is stored: diags, banded, assembled in place - to them.)"""
    from .reservoir import SIM_CLASSES

    for cls in SIM_CLASSES:
        it, f, parts = _step(ctx, cls)
        seen = set()
        for p, ev, A, b in parts:
            rows = rows_of(A, b.length)
            sig = tuple(sorted((lab, off, nf.key(v)) for lab, row in rows.items() for off, v in row.items()))
            if sig in seen:
                continue
            seen.add(sig)
            where = f"{f.file}:{ev.line}"
            probs = []
            for lab, ref in ref_rows.items():
                row = {k: v for k, v in rows.get(lab, {}).items() if v}
                ref = {k: nf.subst_sym(v, {"@N": b.length}) for k, v in ref.items() if v}
                if set(row) != set(ref):
                    probs.append(f"row {lab}: offsets {sorted(row)} instead of {sorted(ref)}")
                    continue
                katoms = {a for v in ref.values() for a in nf.atoms(v) if a[0] == "fn" and a[1] == "k"}
                if len(katoms) > 1:
                    raise AnalysisError("_build_matrix: a row depends on more than one coefficient")
                if not katoms:
                    if any(not nf.equal(row[k], ref[k]) for k in ref):
                        probs.append(f"row {lab}: constant coefficients differ")
                    continue
                (ka,) = katoms
                lin = {}
                for off, v in ref.items():
                    a0 = nf.subst(v, lambda a: {} if a == ka else None)
                    b0 = nf.sub(nf.subst(v, lambda a: nf.ONE if a == ka else None), a0)
                    if not nf.equal(v, nf.add(a0, nf.mul(b0, nf.atom_poly(ka)))):
                        raise AnalysisError("_build_matrix: a coefficient is not linear in k")
                    lin[off] = (a0, b0)
                x = next((nf.div(nf.sub(row[off], a0), b0) for off, (a0, b0) in sorted(lin.items()) if b0), None)
                if x is None:
                    continue
                bad = [off for off, (a0, b0) in sorted(lin.items()) if not nf.equal(row[off], nf.add(a0, nf.mul(b0, x)))]
                if bad:
                    probs.append(f"row {lab}: no single k_r gives the coefficients at offsets {bad}")
            tag = _path_tag(p) if len(parts) > 1 else ""
            ctx.check(
                not probs, rule, RES + cls + ".simulate:solved matrix is the assembly", where,
                "every row of the matrix handed to the solver is the corresponding row of _build_matrix for one coefficient k_r (interior: -k, 1 + 2k, -k; outer: -k, 1 + k)",
                signature="solved matrix: " + "; ".join(probs)[:140], problems=probs,
            )


def _zero_increment(poly):
    """poly is +-(time[a] - time[b]): an exact test of a zero time increment"""
    if len(poly) != 2:
        return False
    (m1, c1), (m2, c2) = poly.items()
    if {c1, c2} != {1, -1}:
        return False
    for m in (m1, m2):
        if len(m) != 1 or m[0][0][0] != "fn" or m[0][0][1] != "[]" or nf.unkey(m[0][0][2][0]) != nf.sym("time") or m[0][1] != nf.KONE:
            return False
    return True


def _unsolved_step(ctx, it, f, cls, p):
    """a partition of the time loop that stores a level without solving the step's system: admissible only under an
    exact test that the step's increment is zero (backward Euler with dt == 0 is the identity)"""
    tag = ", ".join(("" if c else "not ") + d[:60] for _k, c, d in p.decisions if not d.startswith("hasattr"))
    exact = False
    for k, c, _d in p.decisions:
        if isinstance(k, tuple) and len(k) == 2 and k[0] == "eq" and c:
            poly = nf.unkey(k[1])
            # time[i+1] - time[i] == 0, or a positive multiple of it (the mesh ratio dt / dx^2)
            times = [a for a in nf.atoms(poly) if a[0] == "fn" and a[1] == "[]" and nf.unkey(a[2][0]) == nf.sym("time")]
            if len(set(times)) == 2:
                t1, t2 = sorted(set(times), key=repr)
                quotient = nf.div(poly, nf.sub(nf.atom_poly(t1), nf.atom_poly(t2)))
                if _zero_increment(poly) or (not nf.depends(quotient, "time") and not any(a[0] == "fn" and a[1] == "[]" and nf.unkey(a[2][0]) == nf.sym("time") for a in nf.atoms(quotient))):
                    exact = True
    # ... and the skipped level must be written: level i+1 := level i of the same array
    copied = False
    for e in p.events:
        if e.kind == "store_sub" and isinstance(e.data["base"], Arr2) and isinstance(e.data["index"], Num) and e.data["index"].nf == nf.add(nf.sym("i"), nf.ONE):
            v = e.data["value"]
            if isinstance(v, Vec) and not v.over and nf.equal(v.gen, nf.fn("[]", nf.sym(e.data["base"].name), nf.sym("i"), nf.sym("@J"))):
                copied = True
    exact = exact and copied
    key = (cls, tag)
    seen = ctx.__dict__.setdefault("_unsolved_seen", set())
    if key in seen:
        return
    seen.add(key)
    ctx.check(
        exact, f"{ctx.prop}-s", RES + f"{cls}.simulate:step without a solve [{tag}]", f.where(),
        "every time level is the solution of that step's backward-Euler system; a level is *copied* from the previous one without a solve only under an exact test that the step's increment is zero (a tolerance test such as np.isclose depends on the absolute time and drops small steps; a skipped level that is not written keeps uninitialised memory)",
        signature="step not solved", decisions=[d for _k, _c, d in p.decisions],
    )


def _paired_exact_reuse(ctx, it, f, stale, p, parts):
    """Memo pair kept across iterations: every assignment `M = F(X)` of the carried system M inside the time loop stands
    next to `K = X.copy()` (or `K = X`, `np.copy(X)`, `... if ... else None`) for one carried key K, and the partition
    that reuses M is selected by an exact equality between this step's X and K (`X.tobytes() == K.tobytes()`,
    np.array_equal(X, K)).  Then M == F(K) == F(X): the reused system is this step's."""
    import ast as _ast

    from .. import loops

    names = {s_.split("@")[0] for s_ in stale}
    loops_ = [n for n in _ast.walk(f.node) if isinstance(n, _ast.For)]
    pairs = {}  # M -> (F name, K)
    for lp in loops_:
        carried = loops.carried(lp)
        blocks = [lp.body] + [b for n in _ast.walk(lp) for b in (getattr(n, "body", None), getattr(n, "orelse", None)) if isinstance(b, list) and n is not lp]
        for blk in blocks:
            for st in blk:
                if not (isinstance(st, _ast.Assign) and len(st.targets) == 1 and isinstance(st.targets[0], _ast.Name) and st.targets[0].id in names):
                    continue
                M = st.targets[0].id
                v = st.value
                if not (isinstance(v, _ast.Call) and len(v.args) == 1 and not v.keywords and isinstance(v.args[0], _ast.Name)):
                    return False
                X = v.args[0].id
                key = None
                for st2 in blk:
                    if isinstance(st2, _ast.Assign) and len(st2.targets) == 1 and isinstance(st2.targets[0], _ast.Name) and st2.targets[0].id in carried and st2 is not st:
                        e = st2.value
                        if isinstance(e, _ast.IfExp) and isinstance(e.orelse, _ast.Constant) and e.orelse.value is None:
                            e = e.body
                        txt = _ast.unparse(e)
                        if txt in (X, f"{X}.copy()", f"np.copy({X})", f"np.array({X})", f"numpy.copy({X})", f"numpy.array({X})"):
                            key = st2.targets[0].id
                if key is None:
                    return False
                fname = _ast.unparse(v.func).split(".")[-1]
                if M in pairs and pairs[M] != (fname, key):
                    return False
                pairs[M] = (fname, key)
    if set(pairs) != names:
        return False
    for M, (fname, K) in pairs.items():
        # this step's X: the argument F receives on the partitions that do assemble the system
        xkeys = set()
        for q, _sol in parts:
            for e in q.events:
                if e.kind == "int_call" and e.data["callee"].split(".")[-1] == fname:
                    args = list(e.data["args"].values())
                    if args:
                        xkeys.add(nf.key(it.to_nf(args[0])))
        ok = False
        for k, c, _d in p.decisions:
            if k[0] != "eq" or not c:
                continue
            d = nf.unkey(k[1])
            if len(d) != 2 or sorted(d.values()) != [-1, 1]:
                continue
            atoms_ = []
            for m in d:
                if len(m) != 1 or m[0][1] != nf.KONE:
                    atoms_ = []
                    break
                atoms_.append(m[0][0])
            if len(atoms_) != 2:
                continue
            kept = [a for a in atoms_ if a[0] == "fn" and a[1].startswith(f"{K}@carried.")]
            cur = [a for a in atoms_ if a not in kept]
            if len(kept) == 1 and len(cur) == 1 and cur[0][0] == "fn" and len(cur[0][2]) == 1:
                meth_k = kept[0][1].split(".")[-1].replace("{recv}", "")
                meth_c = cur[0][1].split(".")[-1].replace("{recv}", "")
                if meth_k == meth_c == "tobytes" and cur[0][2][0] in xkeys:
                    ok = True
        if not ok:
            return False
    return True


def _uniform_and_linear(ctx, cls, p):
    """the partition is selected by an exact test `all(diff(time) == one value)` and cls.alpha_scaled is level-independent"""
    import re

    from ..values import Inst

    exact = any(
        k[0] == "opaque" and c and re.match(r"all\(cmp:==\(vec\(\[\]\(time, @J \+ 1\) - \[\]\(time, @J\), ", str(k[1])) and "@J" not in str(k[1]).split("), ", 1)[-1]
        for k, c, _d in p.decisions
    )
    if not exact:
        return False
    ci = ctx.P.cls(RES + cls)
    m = ci.lookup("alpha_scaled")
    if m is None:
        return False
    it = interp(ctx)
    paths = returns(it.explore(lambda x: x.enter(m, x.symbolic_args(m), Inst(ci, {}, "self"), None, ci)))
    vals = {nf.key(it.to_nf(q.value)) for q in paths}
    if len(vals) != 1:
        return False
    v = nf.unkey(next(iter(vals)))
    return not nf.symbols(v)  # a constant (np.ones_like(level) has generic element 1)


_SELECTORS = ("numpy.flatnonzero", "numpy.nonzero", "numpy.argwhere", "numpy.where")


def _selection_iter(it, v):
    """name of the selecting routine if the loop iterable is the (possibly indexed / converted) result of one, else ''"""
    seen = 0
    while v is not None and seen < 6:
        seen += 1
        q = getattr(v, "qual", None)
        if isinstance(q, str):
            for s_ in _SELECTORS:
                if q == s_ or q.startswith(s_ + "["):
                    a = getattr(v, "args", None) or {}
                    if s_ == "numpy.where" and len([k for k in a if k != "of"]) > 1 and not q.startswith(s_ + "["):
                        return ""  # three-argument where is an element-wise choice, not a selection
                    return s_
            v = (getattr(v, "args", None) or {}).get("of")
            continue
        try:
            txt = nf.show(it.to_nf(v), 400)
        except Exception:
            return ""
        for s_ in _SELECTORS[:3]:
            if s_ + "(" in txt:
                return s_
        return ""
    return ""


def _step(ctx, cls):
    it, f, parts = sim_step(ctx, cls)
    parts = list(parts)
    out = []
    for p, sol in parts:
        # the time loop visits every step: a loop over a data-dependent *selection* of the step indices (np.flatnonzero,
        # np.nonzero, one-argument np.where, np.argwhere of a test on the data) leaves the levels it skips unwritten - or
        # holding whatever the array was created with - and the next visited step starts from such a level
        sel = [e for e in p.events if e.kind == "for_iter" and not e.data.get("comprehension") and _selection_iter(it, e.data.get("iter"))]
        if sel and sol:
            key = (cls, "selection", sel[0].line)
            seen = ctx.__dict__.setdefault("_unsolved_seen", set())
            if key not in seen:
                seen.add(key)
                ctx.bad(
                    f"{ctx.prop}-s", RES + f"{cls}.simulate:time loop over a selection of steps", f"{f.file}:{sel[0].line}",
                    "the time loop visits every step i -> i+1 (a skipped step is admissible only as an explicit copy of the previous level under an exact zero-increment test inside the loop); here the loop runs over a data-dependent selection of the step indices, so a level that is not selected is never written",
                    signature="steps selected by " + _selection_iter(it, sel[0].data.get("iter")),
                )
            continue
        if len(sol) == 0 and any(e.kind == "for_iter" and not e.data.get("comprehension") for e in p.events):
            _unsolved_step(ctx, it, f, cls, p)
            continue
        if len(sol) > 1:
            # several solves in one step (a predictor, a retry): the step's system is the one whose solution is written
            # to the level array; what the others feed into it shows in its matrix and right-hand side
            def _stored(ev_):
                res_ = ev_.data.get("result")
                return any(
                    e.kind == "store_sub" and isinstance(e.data["base"], Arr2) and (e.data["value"] is res_ or (isinstance(e.data["value"], ExtObj) and e.data["value"].qual.endswith("[0]") and e.data["value"].args.get("of") is res_))
                    for e in p.events
                )

            kept = [e for e in sol if _stored(e)]
            if len(kept) == 1:
                sol = kept
        if len(sol) != 1:
            raise AnalysisError(f"{cls}.simulate: expected one linear solve per step, found {len(sol)}")
        A, b = solver_inputs(sol[0])
        stale = sorted({s_ for v in (A, b) if v is not None for s_ in nf.symbols(it.to_nf(v)) if s_.endswith("@carried")})
        # a matrix name that is bound only inside the time loop, under a condition, and read on a partition that did not
        # bind it in this iteration: what the solver receives is what an earlier iteration left in that name
        from ..values import ExtV as _ExtV
        import ast as _ast

        if not stale and isinstance(A, _ExtV) and A.qual.isidentifier():
            fn_ = ctx.P.functions.get(getattr(sol[0], "func", None)) or f
            bound_in_loop = any(
                isinstance(n_, _ast.Name) and isinstance(n_.ctx, _ast.Store) and n_.id == A.qual
                for lp in _ast.walk(fn_.node) if isinstance(lp, (_ast.For, _ast.While)) for st_ in lp.body for n_ in _ast.walk(st_)
            )
            if bound_in_loop:
                stale = [A.qual + "@carried"]
        if stale:
            # the system handed to the solver was left over by the previous iteration of the time loop
            tag = ", ".join(("" if c else "not ") + d[:60] for _k, c, d in p.decisions if not d.startswith("hasattr"))
            key = (cls, "carried", tag)
            seen = ctx.__dict__.setdefault("_unsolved_seen", set())
            if key not in seen:
                seen.add(key)
                if _paired_exact_reuse(ctx, it, ctx.P.functions.get(getattr(sol[0], "func", None)) or f, stale, p, parts):  # the function whose loop carries the system (an override may only delegate to it)
                    ctx.ok(
                        f"{ctx.prop}-s", RES + f"{cls}.simulate:system carried over [{tag[:120]}]", f"{f.file}:{sol[0].line}",
                        "the kept system is stored together with (a copy of) the coefficients it was assembled from and is reused only when this step's coefficients are exactly equal to them: it is then this step's system",
                    )
                    continue
                if _uniform_and_linear(ctx, cls, p):
                    ctx.ok(
                        f"{ctx.prop}-s", RES + f"{cls}.simulate:system carried over [{tag}]", f"{f.file}:{sol[0].line}",
                        "the system of an earlier step is reused only when every time increment equals the first one (exact test over all steps) and the class's scaled diffusivity does not depend on the level: it is then this step's system",
                    )
                    continue
                ctx.bad(
                    f"{ctx.prop}-s", RES + f"{cls}.simulate:system carried over [{tag}]", f"{f.file}:{sol[0].line}",
                    "the system solved at a step is assembled in that step from its own time increment and the diffusivity at the previous level; here it is what an earlier iteration left behind",
                    signature="system carried over " + ",".join(stale), carried=stale, decisions=[d for _k, _c, d in p.decisions],
                )
            continue
        if not isinstance(A, ExtObj) or A.qual != "scipy.sparse.diags" or not isinstance(b, Vec):
            raise AnalysisError(f"{cls}.simulate: the solve is not diags-matrix x vector")
        out.append((p, sol[0], A, b))
    if not out:
        raise AnalysisError(f"{cls}.simulate has no returning path")
    return it, f, out


def check_boundary_row(ctx, rule):
    for rcls in ("SinglePhaseReservoir", "TwoPhaseReservoir"):  # each concrete real-fluid class, through its own MRO
        _check_boundary_row(ctx, rule, rcls)


def _check_boundary_row(ctx, rule, rcls):
    it, f, parts = _step(ctx, rcls)
    seen = set()
    for p, ev, A, b in parts:
        rows = rows_of(A, b.length)
        row0 = rows["r=0"]
        total = {}
        for v in row0.values():
            total = nf.add(total, v)
        b0 = b.at(nf.const(0))
        key = (nf.key(b0), nf.key(total))
        if key in seen:
            continue
        seen.add(key)
        where = f"{f.file}:{ev.line}"
        # candidates for the frac-face value at this step: m_scaled_func(schedule)[i]
        cands = [
            a for a in nf.atoms(b0)
            if a[0] == "fn" and (a[1].endswith("m_scaled_func") or (a[1] == "[]" and "m_scaled_func" in nf.show(nf.unkey(a[2][0]), 200)))
        ]
        hit = None
        for a in sorted(set(cands), key=repr):
            if nf.equal(b0, nf.mul(nf.atom_poly(a), total)):
                hit = a
                break
        if hit is not None:
            # ... and that frac-face value is the pseudopressure of the schedule the caller gave (entry i of it), or of the
            # configured constant when none was given - not of a re-sized, padded or otherwise edited schedule
            inner = hit if hit[1].endswith("m_scaled_func") else it.single_atom(nf.unkey(hit[2][0]))
            arg = nf.unkey(inner[2][0]) if inner is not None and inner[0] == "fn" and inner[2] else None
            aa = it.single_atom(arg) if arg is not None else None
            given = arg == nf.sym("pressure_fracface") or arg == nf.sym("self.pressure_fracface")
            if aa is not None and aa[0] == "fn":
                if aa[1] == "vec" and len(aa[2]) == 2 and nf.unkey(aa[2][0]) == nf.sym("self.pressure_fracface"):
                    given = True
                if aa[1] == "[]" and len(aa[2]) == 2 and nf.unkey(aa[2][0]) == nf.sym("pressure_fracface"):
                    given = True  # the schedule's own entry
            # ... and the state at time[0] starts from the same schedule: its frac-face node is entry 0 of that schedule's
            # pseudopressure (not the constructor's setting when a schedule is given)
            from .reservoir import initial_row

            r0 = initial_row(p)
            if r0 is not None and arg is not None:
                v0 = r0.at(nf.const(0))
                mcall = nf.atom_poly(inner)
                want0 = {nf.key(nf.fn("[]", mcall, nf.const(0)))}
                if aa is not None and aa[0] == "fn" and aa[1] == "vec":
                    want0.add(nf.key(nf.fn(inner[1], nf.unkey(aa[2][0]))))  # constant schedule: m(p_frac) itself
                if arg == nf.sym("self.pressure_fracface"):
                    want0.add(nf.key(mcall))
                ctx.check(
                    nf.key(v0) in want0, rule, RES + rcls + ".simulate:initial frac-face node", where,
                    "level 0 has the frac-face pseudopressure of the first entry of the schedule that is simulated",
                    signature="initial node " + nf.show(v0, 80), initial_node=nf.show(v0, 160),
                )
            ctx.check(
                given, rule, RES + rcls + ".simulate:frac-face schedule", where,
                "the frac-face pseudopressure of a step is m_scaled_func of the caller's schedule (or of the configured constant), unmodified",
                signature="schedule " + (nf.show(arg, 80) if arg is not None else "?"), schedule=nf.show(arg, 160) if arg is not None else "?",
            )
            ctx.ok(
                rule, RES + rcls + ".simulate:frac-face row", where,
                "b[0] == m_f * (row sum of the frac-face row): the constant profile at the frac-face value is a fixed point of the boundary row for every step size (one diffusivity on both sides)",
                m_f=nf.show(nf.atom_poly(hit), 160), b0=nf.show(b0, 300), row_sum=nf.show(total, 300),
            )
        else:
            ctx.bad(
                rule, RES + rcls + ".simulate:frac-face row", where,
                "b[0] == m_f * (row sum of the frac-face row): the constant profile at the frac-face value is a fixed point of the boundary row for every step size (one diffusivity on both sides)",
                signature="boundary row inconsistent", b0=nf.show(b0, 400), row_sum=nf.show(total, 400),
            )


def check_alpha_lookup(ctx, rule):
    P = ctx.P
    n = 0
    for cname in ("FlowProperties", "FlowPropertiesSimple"):
        q = FP + cname + ".__init__"
        f = P.func(q)
        ctx.touch(q)
        it = interp(ctx)
        for p in returns(it.run_function(q)):
            stores = [e for e in p.events if e.kind == "store_attr" and e.data["attr"] == "alpha"]
            for e in stores:
                n += 1
                v = e.data["value"]
                where = f"{f.file}:{e.line}"
                tag = ("" if len(stores) == 1 else "") + _path_tag(p)
                if not (isinstance(v, ExtObj) and v.qual == "scipy.interpolate.interp1d"):
                    ctx.bad(rule, q + ":self.alpha" + tag, where, "self.alpha is a scipy interp1d lookup", signature="not interp1d", found=str(v)[:120])
                    continue
                a = v.args
                probs = []
                be = a.get("bounds_error")
                if not (isinstance(be, BoolV) and be.kind == "const" and be.a is False):
                    probs.append("bounds_error is not False (a query outside the table raises)")
                fv = a.get("fill_value")
                ynf = it.to_nf(a.get("y"))
                if isinstance(fv, TupV) and len(fv.items) == 2:
                    for x in fv.items:
                        at = it.single_atom(it.to_nf(x))
                        good = at is not None and at[0] == "fn" and at[1] in ("min", "max") and len(at[2]) == 1 and nf.unkey(at[2][0]) == ynf
                        if not good:
                            probs.append("fill value " + nf.show(it.to_nf(x), 80) + " is not min/max of the interpolated column")
                else:
                    probs.append("fill_value is not a (below, above) pair of table values" + (f": {fv.s!r}" if isinstance(fv, StrV) else ""))
                kind = a.get("kind")
                if kind is not None and not (isinstance(kind, StrV) and kind.s in ("linear", "nearest", "previous", "next", "nearest-up", "zero", "slinear")):
                    probs.append(f"kind={getattr(kind, 's', kind)!r} can overshoot the table's range between nodes")
                ctx.check(
                    not probs, rule, q + ":self.alpha" + tag, where,
                    "the diffusivity lookup never raises and returns values within [min(alpha), max(alpha)] of its own column (non-overshooting interpolation, clamped outside)",
                    signature="; ".join(probs)[:160], problems=probs,
                )
    ctx.floor(rule, n, 2, "self.alpha interpolators")


def _path_tag(p):
    ds = [("" if c else "not ") + d[:50] for _k, c, d in p.decisions]
    return " [" + ", ".join(ds) + "]" if ds else ""


def check_ideal(ctx, rule):
    it, f, parts = _step(ctx, "IdealReservoir")
    p, ev, A, b = parts[0]
    where = f"{f.file}:{ev.line}"
    # initial state: a store (0, :) <- 1 into the level array
    from .reservoir import initial_row

    row = initial_row(p)
    ok = row is not None and row.gen == nf.ONE and all(v == nf.ONE for _k, (_p, v) in row.over.items())
    ctx.check(ok, rule, RES + "IdealReservoir.simulate:initial state", f.where(), "the first level is uniformly 1", signature="initial state", row=repr(row)[:160])
    arr = [a for a in nf.atoms(b.gen) if a[0] == "fn" and a[1] == "[]"]
    okb = not b.over and len(set(arr)) == 1 and nf.atom_poly(arr[0]) == b.gen
    ctx.check(
        okb, rule, RES + "IdealReservoir.simulate:right-hand side", where,
        "the right-hand side is the unmodified previous level (the ghost node at the fracture face has value 0)", signature="rhs", b=repr(b)[:200],
    )
    rows = rows_of(A, b.length)
    kgen = None
    d0 = rows["r"][0]
    ctx.check(
        not any(a[0] == "fn" and a[1] == "[]" and "arr2" in nf.show(nf.unkey(a[2][0]), 50) for a in nf.atoms(d0)), rule,
        RES + "IdealReservoir.simulate:constant diffusivity", where,
        "the scaled diffusivity of the ideal reservoir does not depend on the solution (alpha_scaled == 1)", signature="alpha", diag=nf.show(d0, 200),
    )
