"""C16 - multiphase storage is a pressure derivative; diffusivity is mobility over it.

Decided exactly: (a) the returned compressibility is antisymmetric under exchanging the two
finite-difference stencil points (<=> vanishes for pressure-independent tables); (b) the
differenced function is the storage documented in docs/background.md (three-phase mass
conservation equations), step 2h = 1 psi; (c) linear in porosity; (d) total mobility is the
documented sum; (e) alpha = mobility / compressibility with by-name argument binding.
"""
from __future__ import annotations

from .. import nf
from ..model import AnalysisError
from ..values import Num
from .common import strip_forwarded_options, FP, only, returns, run
from .multiphase import P_, PHI, SO, SW, mobility, storage

LEVEL = "other"


def _step_atoms(p):
    """table-interpolator atoms X(pressure + c), grouped by the constant c."""
    out = {}
    for a in nf.atoms(p):
        if a[0] == "fn" and a[1].startswith("[](") and len(a[2]) == 1:
            d = nf.sub(nf.unkey(a[2][0]), P_)
            if nf.is_const(d):
                out.setdefault(nf.cval(d), set()).add(a)
    return out


def _symbolic_steps(p):
    """{key(offset NF): offset NF} of the table-interpolator atoms X(pressure + d) whose offset d is free of pressure"""
    out = {}
    for a in nf.atoms(p):
        if a[0] == "fn" and a[1].startswith("[](") and len(a[2]) == 1:
            d = nf.sub(nf.unkey(a[2][0]), P_)
            if d and not nf.is_const(d) and all(a_[0] == "sym" and a_[1].endswith("@option") for a_ in nf.atoms(d)):
                out[nf.key(d)] = d  # a multiple of an option of the function (bound by an option context, 9.3d)
    return out


def _symbolic_stencil(ctx, q, f, E):
    offs = list(_symbolic_steps(E).values())
    ok = len(offs) == 2 and nf.is_zero(nf.add(offs[0], offs[1]))
    ctx.check(
        ok, "C16-b", q + ":stencil", f.where(),
        "table properties are evaluated at exactly two points pressure - h and pressure + h",
        signature="stencil points", offsets=[nf.show(h, 60) for h in offs],
    )
    if not ok:
        return
    h = offs[0]
    ctx.assume("a symbolic difference half-width (an option of the function) is non-zero")

    def swap(a):
        if a[0] == "fn" and a[1].startswith("[](") and len(a[2]) == 1:
            d = nf.sub(nf.unkey(a[2][0]), P_)
            if nf.key(d) in (nf.key(offs[0]), nf.key(offs[1])):
                return nf.fn(a[1], nf.sub(P_, d))
        return None

    ctx.identity(
        "C16-a", q + ":antisymmetry", f.where(),
        "exchanging the evaluation points p+h and p-h negates the result (a difference, not a sum: zero for pressure-independent tables)",
        nf.add(E, nf.subst(E, swap)), {},
    )
    ctx.identity(
        "C16-b", q + ":storage", f.where(),
        "result * 2h == S(p+h) - S(p-h) with S the documented stored mass per unit volume, Sg = 1 - So - Sw",
        nf.mul(E, nf.scale(h, 2)), nf.sub(storage(nf.add(P_, h)), storage(nf.sub(P_, h))), step_2h=nf.show(nf.scale(h, 2), 60),
    )


def _it_nf(v):
    from ..values import Num as _Num, Vec as _Vec

    if isinstance(v, _Num):
        return v.nf
    if isinstance(v, _Vec):
        return v.gen
    return {}


def check(ctx):
    P = ctx.P
    q = FP + "compressibility_combined_func"
    f = P.func(q)
    ctx.assume("oracle: three-phase mass-conservation equations of docs/background.md (storage = phi * sum_c rho_c (sum over phases of c-content * S/B)); the two-phase 'c' formula there prints Sg/b_o in the gas term, a typo against the document's own equations")
    E = only(run(ctx, q), q, ctx, "C16-b").value
    if not isinstance(E, Num):
        raise AnalysisError("compressibility_combined_func does not return a numeric term")
    E = E.nf
    steps = _step_atoms(E)
    hs = sorted(steps)
    ok_steps = len(hs) == 2 and hs[0] == -hs[1] and hs[1] > 0
    if not steps and _symbolic_steps(E):
        # the half-width is an option (a symbol, not a literal): the same rules with h symbolic and the division explicit
        _symbolic_stencil(ctx, q, f, E)
        ok_steps = False
    else:
        ctx.check(
            ok_steps, "C16-b", q + ":stencil", f.where(),
            "table properties are evaluated at exactly two points pressure - h and pressure + h",
            signature="stencil points", offsets=[str(h) for h in hs],
        )
    if ok_steps:
        h = hs[1]

        def swap(a):
            if a[0] == "fn" and a[1].startswith("[](") and len(a[2]) == 1:
                d = nf.sub(nf.unkey(a[2][0]), P_)
                if nf.is_const(d) and nf.cval(d) in (h, -h):
                    return nf.fn(a[1], nf.add(P_, nf.const(-nf.cval(d))))
            return None

        Es = nf.subst(E, swap)
        ctx.identity(
            "C16-a", q + ":antisymmetry", f.where(),
            "exchanging the evaluation points p+h and p-h negates the result (a difference, not a sum: zero for pressure-independent tables)",
            nf.add(E, Es), {},
        )
        # ---- C16-b the differenced function is the documented storage
        ref = nf.sub(storage(nf.add(P_, nf.const(h))), storage(nf.sub(P_, nf.const(h))))
        ctx.identity(
            "C16-b", q + ":storage", f.where(),
            "result * 2h == S(p+h) - S(p-h) with S the documented stored mass per unit volume, Sg = 1 - So - Sw",
            nf.mul(E, nf.const(2 * h)), ref, step_2h=str(2 * h),
        )
        ctx.check(
            2 * h == 1, "C16-b", q + ":unit step", f.where(),
            "the central difference is taken over 2h = 1 psi (no division needed)", signature="2h != 1", step=str(2 * h),
        )
    # ---- C16-c proportional to porosity
    lin = bool(E) and all(dict(m).get(("sym", "phi")) == nf.KONE for m in E)
    ctx.check(lin, "C16-c", q + ":porosity", f.where(), "every term carries porosity to the first power", signature="phi degree")

    # ---- C16-d mobility
    ql = FP + "lambda_combined_func"
    fl = P.func(ql)
    lpaths = run(ctx, ql, log_divisions=True)
    L = only(lpaths, ql, ctx, "C16-d").value
    # no division by a quantity that vanishes for an immobile phase or an absent component: the mobility divides by
    # viscosities and formation volume factors only (x / lambda_oil * lambda_oil is 0 / 0, not x, where oil does not move)
    bad_den = []
    for p_ in returns(lpaths):
        for e in p_.events:
            if e.kind != "div":
                continue
            d = _it_nf(e.data["den"])
            txt = nf.show(d, 4000)
            if nf.depends(d, "So") or any(k in txt for k in ("'kro'", "'krg'", "'krw'", "'Rs'", "'Rv'", "kr,", "(kr")):
                bad_den.append(f"line {e.line}: / {nf.show(d, 80)}")
    ctx.check(
        not bad_den, "C16-d", ql + ":denominators", fl.where(),
        "the mobility divides by viscosities and formation volume factors only - never by a relative permeability, a solution ratio or a mobility, which vanish for an immobile phase / an absent component",
        signature="vanishing denominator " + "; ".join(sorted(set(bad_den)))[:140], denominators=sorted(set(bad_den))[:4],
    )
    ctx.identity(
        "C16-d", ql + ":return", fl.where(),
        "total mobility == rho_o(Rv krg/(mu_g Bg) + kro/(mu_o Bo)) + rho_g(Rs kro/(mu_o Bo) + krg/(mu_g Bg)) + rho_w krw/(mu_w Bw)",
        L.nf if isinstance(L, Num) else nf.sym("?"), mobility(),
    )

    # ---- C16-e alpha = lambda / c, arguments bound by name
    qa = FP + "alpha_multiphase"
    fa = P.func(qa)
    A = only(run(ctx, qa, opaque={q, ql}), qa, ctx, "C16-e").value
    lam = nf.fn(ql, *[nf.sym(n) for n in ("pressure", "So", "pvt", "kr")])
    cmp_ = nf.fn(q, *[nf.sym(n) for n in ("pressure", "So", "phi", "Sw", "pvt")])
    ctx.identity(
        "C16-e", qa + ":return", fa.where(),
        "alpha_multiphase == lambda_combined_func(pressure, So, pvt, kr) / compressibility_combined_func(pressure, So, phi, Sw, pvt)",
        strip_forwarded_options(A.nf, {q, ql}) if isinstance(A, Num) else nf.sym("?"), nf.div(lam, cmp_),
    )
    from .common import check_interp_options

    check_interp_options(ctx, "C16-f", ["bluebonnet.flow.flowproperties"], 5)
    # ---- C16-g the stencil's step is implicit (the code divides by nothing: it relies on (p + h) - (p - h) == 1): the
    # table interpolators that from_table hands to it must therefore *extrapolate* beyond the end rows - a clamped
    # lookup halves the difference at the first and last row of every tabulated alpha
    from ..values import ClassV, ExtObj, StrV
    from .common import interp

    qf = FP + "FlowPropertiesTwoPhase.from_table"
    ff = P.func(qf)
    ctx.touch(qf)
    it3 = interp(ctx, opaque={qa, FP + "pseudopressure_threephase"})
    n_i = 0
    seen_nodes = set()
    from ..values import DictV

    for p3 in returns(it3.run_function(qf, args={"cls": ClassV(P.cls(FP + "FlowPropertiesTwoPhase"))})):
        for e in p3.events:
            if e.kind != "int_call" or e.data["callee"] not in (qa, q) or "pvt" not in e.data["args"]:
                continue
            tbl = e.data["args"].get("pvt")
            if not isinstance(tbl, DictV):
                raise AnalysisError(f"{qf}: the pvt argument of alpha_multiphase is not a literal mapping of interpolators")
            for name, obj in sorted(tbl.items.items()):
                if (e.line, name) in seen_nodes:
                    continue
                seen_nodes.add((e.line, name))
                n_i += 1
                fv = obj.args.get("fill_value") if isinstance(obj, ExtObj) else None
                ok = isinstance(obj, ExtObj) and obj.qual == "scipy.interpolate.interp1d" and isinstance(fv, StrV) and fv.s == "extrapolate"
                ctx.check(
                    ok, "C16-g", qf + f":pressure lookup of {name}", f"{ff.file}:{getattr(obj, 'node', e.node).lineno if isinstance(obj, ExtObj) and obj.node is not None else e.line}",
                    "the interpolators over the pressure column that from_table hands to the +-h storage stencil extrapolate beyond the table (fill_value='extrapolate'), so the implicit step of the central difference is 2h at every row",
                    signature="pressure lookup does not extrapolate", options={k: str(v)[:40] for k, v in (obj.args.items() if isinstance(obj, ExtObj) else []) if k not in ("x", "y")},
                )
    ctx.floor("C16-g", n_i, 1, "pressure interpolators built by from_table")
    # ---- C16-h the diffusivity from_table tabulates is alpha_multiphase's (mobility over storage) for the table's own
    # columns, position by position (the wiring rule of C15-c)
    from .c15 import check_from_table

    check_from_table(ctx, "C16-h")
    ctx.floor("C16", len(ctx.obligs), 7, "storage / mobility obligations")
