"""Helpers shared by the rule modules."""
from __future__ import annotations

from .. import nf
from ..model import AnalysisError
from ..symeval import Interp
from ..values import BoolV, Num

OIL = "bluebonnet.fluids.oil."
GAS = "bluebonnet.fluids.gas."
WATER = "bluebonnet.fluids.water."
FLUID = "bluebonnet.fluids.fluid."
RES = "bluebonnet.flow.reservoir."
FP = "bluebonnet.flow.flowproperties."
FC = "bluebonnet.forecast.forecast."
FCP = "bluebonnet.forecast.forecast_pressure."
PLOT = "bluebonnet.plotting."

POSITIVE = "all bases under non-integer powers are positive (pressures, absolute temperatures, gravities, GOR, saturations): (xy)^a = x^a y^a"


def std_policy(array_mode=False, extra=None):
    """Decide the library's shape tests syntactically: np.ndim(x) ==/!= 0 by analysis mode,
    np.size(x) == 0 false (non-empty input)."""

    def policy(t: BoolV, node, it):
        if extra is not None:
            r = extra(t, node, it)
            if r is not None:
                return r
        if t.kind == "cmp" and t.op in ("==", "!="):
            for a, b in ((t.a, t.b), (t.b, t.a)):
                at = it.single_atom(a)
                if at is not None and at[0] == "fn" and at[1] in ("ndim", "size") and nf.is_const(b):
                    if at[1] == "ndim":
                        is_scalar = not array_mode
                        truth = is_scalar if nf.cval(b) == 0 else None
                    else:
                        truth = False if nf.cval(b) == 0 else None
                    if truth is None:
                        return None
                    return truth if t.op == "==" else not truth
        if t.kind == "cmp" and t.op in ("<", "<=", ">", ">=") and nf.is_const(t.b):
            # x.size > 0, len(x) >= 1, np.size(x) < 1 ...: inputs are non-empty (size >= 1)
            at = it.single_atom(t.a)
            if at is not None and at[0] == "fn" and at[1] in ("size", ".size", "len") and len(at[2]) == 1:
                c = nf.cval(t.b)
                if (t.op, c) in ((">", 0), (">=", 1)):
                    return True
                if (t.op, c) in (("<", 1), ("<=", 0)):
                    return False
        return None

    return policy


def interp(ctx, array_mode=False, opaque=(), extra_policy=None, **kw):
    return Interp(ctx.P, opaque=opaque, policy=std_policy(array_mode, extra_policy), array_mode=array_mode, **kw)


def run(ctx, qualname, array_mode=False, opaque=(), args=None, extra_policy=None, parent_args=None, **kw):
    ctx.touch(qualname)
    it = interp(ctx, array_mode, opaque, extra_policy, **kw)
    return it.run_function(qualname, args=args, parent_args=parent_args)


def returns(paths):
    return [p for p in paths if p.outcome == "return"]


def only(paths, what, ctx=None, rule=None):
    """The single result of a function the property treats as one formula.  Several partitions that return the same
    term are one result.  With `ctx` and `rule` given, a partition that returns something *else* is reported as a
    violation of `rule` (the property speaks about every input of the documented range; a branch that answers part of
    that range with another expression - an early return, a fast path, a fallback - changes what is computed there) and
    the analysis continues with the general formula (the result with the largest term).  Not reported: a partition
    selected by `x == c` tests under which its value equals the general formula (a shortcut for a special point), and a
    partition selected by `parameter <= c` / `< c` with c <= 0 (outside the positive domain declared in POSITIVE)."""
    r = returns(paths)
    if len(r) == 1:
        return r[0]
    vals = {}
    for p in r:
        v = p.value
        k = nf.key(v.nf) if isinstance(v, Num) else repr(v)[:2000]
        vals.setdefault(k, p)
    if len(vals) == 1:
        return next(iter(vals.values()))
    if ctx is None or rule is None or not vals:
        raise AnalysisError(f"{what}: expected one result, found {len(vals)} different ones over {len(r)} returning trace partitions")

    def size(p):
        # a structured result of an external call (a quadrature, a root) is the general formula rather than a constant
        return sum(1 for _ in nf.atoms(p.value.nf)) if isinstance(p.value, Num) else 10**6

    main = max(vals.values(), key=size)
    main_keys = {(k, c) for k, c, _d in main.decisions}
    for p in vals.values():
        if p is main:
            continue
        extra = [(k, c, d) for k, c, d in p.decisions if (k, c) not in main_keys]
        tagtxt = ", ".join(("" if c else "not ") + d[:70] for _k, c, d in extra) or "other partition"
        if isinstance(p.value, Num) and extra:
            # special point: every selecting test is an equality x == c (c free of x) under which both agree
            sub = {}
            special = True
            for k, c, _d in extra:
                if k[0] == "eq" and c:
                    d = nf.unkey(k[1])
                    syms = [s_ for s_ in nf.symbols(d) if nf.is_const(nf.sub(nf.diff(d, s_), nf.ONE)) or nf.is_const(nf.add(nf.diff(d, s_), nf.ONE))]
                    if syms:
                        s_ = sorted(syms)[0]
                        coef = nf.diff(d, s_)
                        rest = nf.sub(d, nf.mul(coef, nf.sym(s_)))
                        sub[s_] = nf.neg(nf.div(rest, coef))
                        continue
                special = False
                break
            if special and sub:
                try:
                    if isinstance(main.value, Num) and nf.is_zero(nf.sub(nf.subst_sym(main.value.nf, sub), nf.subst_sym(p.value.nf, sub))):
                        continue
                    # a definite integral over an empty interval: quad(f, a, b)[0] with a == b at the special point is 0
                    from ..values import ExtObj as _ExtObj

                    mv = main.value
                    qo = mv.args.get("of") if isinstance(mv, _ExtObj) and mv.qual.endswith("quad[0]") else None
                    if isinstance(qo, _ExtObj) and isinstance(qo.args.get("a"), Num) and isinstance(qo.args.get("b"), Num):
                        if nf.is_zero(nf.sub(nf.subst_sym(qo.args["a"].nf, sub), nf.subst_sym(qo.args["b"].nf, sub))) and not p.value.nf:
                            continue
                except Exception:  # noqa: BLE001 - substitution may divide by zero at the special point
                    pass
            # outside the positive domain
            outside = False
            for k, c, _d in extra:
                if k[0] in ("ge", "gt") and not c:
                    d = nf.unkey(k[1])  # decision is  d >= 0 / d > 0  with d = lhs - rhs; taken False: lhs < rhs or lhs <= rhs
                    syms = sorted(nf.symbols(d))
                    if len(syms) == 1 and nf.is_const(nf.sub(d, nf.sym(syms[0]))) and nf.cval(nf.sub(d, nf.sym(syms[0]))) >= 0:
                        outside = True
            if outside:
                continue
        ctx.bad(
            rule, f"{what}:another result [{tagtxt}]", what,
            "one formula answers every input of the documented range: no partition of the inputs returns a different expression",
            signature="alternative result " + tagtxt[:80], selected_by=tagtxt, returns=nf.show(p.value.nf, 200) if isinstance(p.value, Num) else repr(p.value)[:200],
        )
    return main


def each(paths, what):
    """[(tag, path)] - one entry per distinct numeric result among the returning trace partitions (tag = the
    decisions that select it); every entry has to satisfy whatever is claimed of "the" result"""
    r = returns(paths)
    vals = {}
    for p in r:
        v = p.value
        k = nf.key(v.nf) if isinstance(v, Num) else repr(v)[:2000]
        vals.setdefault(k, p)
    if not vals:
        raise AnalysisError(f"{what}: no returning trace partition")
    if len(vals) == 1:
        return [("", next(iter(vals.values())))]
    return [(" [" + ", ".join(("" if c else "not ") + d[:60] for _k, c, d in p.decisions) + "]", p) for p in vals.values()]


def val_nf(it_or_none, v):
    if isinstance(v, Num):
        return v.nf
    raise AnalysisError(f"expected a numeric term, got {type(v).__name__}")


def by_cmp(paths):
    """{(decision keys with choices) -> path} for returning paths."""
    out = {}
    for p in returns(paths):
        out[tuple((k, c) for k, c, _d in p.decisions)] = p
    return out


def cmp_decisions(path, sym=None):
    """comparison decisions ('ge'/'gt'/'eq') of a path, optionally only those mentioning symbol `sym`."""
    out = []
    for k, c, d in path.decisions:
        if k[0] in ("ge", "gt", "eq"):
            if sym is None or nf.depends(nf.unkey(k[1]), sym):
                out.append((k, c, d))
    return out


def positive(p, allow_syms=None, pos_fns=()):
    """Sign domain: True if p is certainly > 0 given that every symbol (and every atom of a function
    named in pos_fns) is positive: a sum of positive-coefficient monomials over positive atoms."""
    if not p:
        return False
    for m, c in p.items():
        if c <= 0:
            return False
        for atom, _e in m:
            if atom[0] == "sym":
                if allow_syms is not None and atom[1] not in allow_syms:
                    return False
            elif atom[0] in ("const", "E"):
                continue
            elif atom[0] == "sum":
                if not positive(nf.unkey(atom[1]), allow_syms, pos_fns):
                    return False
            elif atom[0] == "fn" and atom[1] in pos_fns:
                continue
            else:
                return False
    return True


def pressure_arms(ctx, qual, opaque=(), array_mode=False):
    """{tuple((key, choice), ...) of the pressure comparisons -> (value, description)} for returning partitions."""
    paths = returns(run(ctx, qual, array_mode=array_mode, opaque=opaque))
    out = {}
    for p in paths:
        ds = cmp_decisions(p, "pressure")
        out[tuple((k, c) for k, c, _ in ds)] = (p.value, " & ".join(("" if c else "not ") + d for _k, c, d in ds), p)
    return out


# ---------------------------------------------------------------------------------------------
# shared rule: roles of (y, x) at quadrature / differentiation call sites  (C15-a, used by C02 C03 C08 C17 C20)
QUADRATURE = {
    "scipy.integrate.cumulative_trapezoid": ("y", "x"),
    "scipy.integrate.trapezoid": ("y", "x"),
    "scipy.integrate.simpson": ("y", "x"),
    "numpy.trapezoid": ("y", "x"),
    "numpy.trapz": ("y", "x"),
    "numpy.gradient": ("f", "*varargs[0]"),
}


def is_root_variable(it, v, roots):
    """Is the abstract value an *independent-variable root*: a parameter / attribute / table column
    named in `roots`, or a coordinate grid (np.arange / np.linspace)?"""
    from ..values import Vec

    if isinstance(v, Vec):
        # a grid: affine in the position symbol with no other atoms
        g = v.gen
        return not v.over and all(a[0] in ("sym", "const") for a in nf.atoms(g)) and nf.depends(g, "@J")
    p = it.to_nf(v)
    a = it.single_atom(p)
    if a is None:
        return False
    if a[0] == "sym":
        return a[1] in roots or a[1].split(".")[-1] in roots
    if a[0] == "fn" and a[1] == "[]" and len(a[2]) == 2:
        k = it.single_atom(nf.unkey(a[2][1]))
        return k is not None and k[0] == "sym" and k[1].strip("'\"") in roots
    return False


def check_quadrature(ctx, rule, ev, it, roots, construct, where, need_initial=True):
    """ev: ext_call event of a QUADRATURE callee. Returns the ordinate NF."""
    callee = ev.data["callee"]
    yn, xn = QUADRATURE[callee]
    a = ev.data["args"]
    y, x = a.get(yn), a.get(xn)
    if y is None or x is None:
        ctx.bad(rule, construct, where, f"{callee.split('.')[-1]} receives an explicit ordinate and abscissa", signature="missing y or x", args=sorted(a))
        return None
    x_root, y_root = is_root_variable(it, x, roots), is_root_variable(it, y, roots)
    from ..values import Vec as _Vec

    ynf = y.gen if isinstance(y, _Vec) and not y.over else it.to_nf(y)  # elementwise term of a vector
    xnf = x.gen if isinstance(x, _Vec) and not x.over else it.to_nf(x)
    ok = x_root and not y_root
    ctx.check(
        ok, rule, construct, where,
        f"{callee.split('.')[-1]}: the abscissa is the independent variable ({'/'.join(sorted(roots))} or a grid) and the ordinate is not",
        signature="roles swapped" if (y_root and not x_root) else "abscissa is not the independent variable",
        ordinate=nf.show(ynf, 300), abscissa=nf.show(xnf, 200),
    )
    if need_initial and callee.endswith("cumulative_trapezoid"):
        ini = a.get("initial")
        good = ini is not None and isinstance(ini, Num) and not ini.nf  # constant 0
        ctx.check(
            good, rule, construct + ":initial", where,
            "cumulative_trapezoid is given initial=0 (result starts at zero and has the length of the grid)",
            signature="initial", initial=str(ini),
        )
    return ynf if ok else None


def check_interp_options(ctx, rule, module_names, floor):
    """Shared rule: no interp1d over table columns promises `assume_sorted=True` (row order of a
    caller's table is not under the library's control; with the promise scipy skips its sort and
    brackets wrongly on descending or unsorted tables)."""
    import ast as _ast

    n = 0
    for mn in module_names:
        m = ctx.P.module(mn)
        for node in _ast.walk(m.tree):
            if isinstance(node, _ast.Call) and (
                (isinstance(node.func, _ast.Name) and node.func.id == "interp1d") or (isinstance(node.func, _ast.Attribute) and node.func.attr == "interp1d")
            ):
                n += 1
                kw = {k.arg: k.value for k in node.keywords if k.arg}
                v = kw.get("assume_sorted")
                if v is None and len(node.args) >= 8:
                    v = node.args[7]
                ok = v is None or (isinstance(v, _ast.Constant) and v.value is False)
                fi_ = next((f for f in ctx.P.functions.values() if f.module is m and f.node.lineno <= node.lineno <= (f.node.end_lineno or 0) and not f.nested), None)
                fn = fi_.qualname if fi_ else mn
                if not ok and isinstance(v, _ast.Name) and fi_ is not None:
                    # an option of the enclosing function that defaults to False and is forwarded unchanged
                    # (new optional parameters are judged at their default, DESIGN 9.3)
                    ok = _param_defaults_to(fi_.node, v.id, False)
                ctx.check(
                    ok, rule, f"{fn}:interp1d#{sum(1 for _ in [0])}@{_ast.unparse(node.args[1])[:40] if len(node.args) > 1 else ''}", f"{m.relpath}:{node.lineno}",
                    "the interpolator does not assume its abscissa is already sorted (scipy sorts; a descending or unsorted table is handled)",
                    signature="assume_sorted", nontrivial=False,
                )
    ctx.floor(rule, n, floor, "interp1d call sites")
    check_sorted_lookups(ctx, rule, module_names)


SORTED_MAKERS = {"sort", "linspace", "arange", "unique", "sorted", "logspace", "geomspace"}
TIME_NAMES = {"time", "self.time", "times", "time_scaled"}


def check_sorted_lookups(ctx, rule, module_names):
    """np.interp / np.searchsorted / np.digitize assume an increasing abscissa and answer silently when it is not
    (interp1d sorts; these do not).  Their abscissa has to be something the code itself ordered - np.sort, np.unique,
    np.linspace, np.arange, sorted() - or the simulation's time grid, which the properties take as non-decreasing;
    a table column, an attribute or a parameter is the caller's data in the caller's row order."""
    import ast as _ast

    LOOKUPS = {"interp": 1, "searchsorted": 0, "digitize": 1}
    KW = {"interp": "xp", "searchsorted": "a", "digitize": "bins"}

    def ordered(expr, fnode, depth=0):
        if depth > 6:
            return False
        if isinstance(expr, _ast.Call):
            f = expr.func
            nm = f.id if isinstance(f, _ast.Name) else f.attr if isinstance(f, _ast.Attribute) else ""
            if nm in SORTED_MAKERS:
                return True
            if nm in ("asarray", "array", "ascontiguousarray", "copy", "astype", "to_numpy", "ravel", "float64") and (expr.args or isinstance(f, _ast.Attribute)):
                inner = expr.args[0] if expr.args else f.value
                return ordered(inner, fnode, depth + 1)
            return False
        txt = _ast.unparse(expr)
        if txt in TIME_NAMES:
            return True
        if isinstance(expr, _ast.Name) and fnode is not None:
            asg = [n for n in _ast.walk(fnode) if isinstance(n, _ast.Assign) and any(isinstance(t, _ast.Name) and t.id == expr.id for t in n.targets)]
            if len(asg) == 1:
                return ordered(asg[0].value, fnode, depth + 1)
        return False

    for mn in module_names:
        m = ctx.P.module(mn)
        for fi in [f for f in ctx.P.functions.values() if f.module is m and f.parent is None]:
            for node in _ast.walk(fi.node):
                if not isinstance(node, _ast.Call):
                    continue
                f = node.func
                nm = f.attr if isinstance(f, _ast.Attribute) else f.id if isinstance(f, _ast.Name) else ""
                if nm not in LOOKUPS:
                    continue
                if isinstance(f, _ast.Attribute) and not (isinstance(f.value, _ast.Name) and f.value.id in ("np", "numpy")):
                    # x.searchsorted(v): the receiver is the abscissa
                    absc = f.value if nm == "searchsorted" else None
                else:
                    kw = {k.arg: k.value for k in node.keywords if k.arg}
                    absc = kw.get(KW[nm]) or (node.args[LOOKUPS[nm]] if len(node.args) > LOOKUPS[nm] else None)
                if absc is None:
                    continue
                ctx.check(
                    ordered(absc, fi.node), rule, f"{fi.qualname}:{nm}@{_ast.unparse(absc)[:40]}", f"{m.relpath}:{node.lineno}",
                    "a bisection / np.interp lookup runs over an abscissa the code itself put in increasing order (np.interp and np.searchsorted do not sort; a descending or unsorted table is answered silently and wrongly)",
                    signature="unsorted abscissa " + nm, abscissa=_ast.unparse(absc)[:80],
                )


def _param_defaults_to(fnode, name, value):
    """True when `name` is a parameter of fnode whose default is the constant `value` and which the body never re-binds."""
    import ast as _ast

    a = fnode.args
    pos = a.posonlyargs + a.args
    dflt = dict(zip([x.arg for x in pos[len(pos) - len(a.defaults):]], a.defaults))
    dflt.update({x.arg: d for x, d in zip(a.kwonlyargs, a.kw_defaults) if d is not None})
    d = dflt.get(name)
    if not (isinstance(d, _ast.Constant) and d.value is value):
        return False
    for n in _ast.walk(fnode):
        if isinstance(n, _ast.Name) and n.id == name and isinstance(n.ctx, (_ast.Store, _ast.Del)):
            return False
    return True


def handrolled_trapezoid(it, value_nf, roots):
    """Recognise a hand-written cumulative trapezoid rule  cumsum( 1/2 (y[j+1] + y[j]) (x[j+1] - x[j]) ).
    Returns ('ok', y_nf, x_nf) | ('bad', reason, None) | ('none', None, None)."""
    J1 = nf.add(nf.sym("@J"), nf.ONE)
    Jn = nf.sym("@J")
    cands = [a for a in nf.atoms(value_nf) if a[0] == "fn" and a[1] in ("cumsum", "numpy.cumsum") and a[2]]
    for a in cands:
        arg = it.single_atom(nf.unkey(a[2][0]))
        if arg is None or arg[0] != "fn" or arg[1] != "vec":
            continue
        gen = nf.unkey(arg[2][0])
        overrides = arg[2][2:]
        if overrides:
            return "bad", "individual panels of the summed vector are overridden (" + nf.show(nf.unkey(overrides[0]), 40) + ")", None
        # abscissa: an indexed root variable x[j+1]
        xs = [x for x in nf.atoms(gen) if x[0] == "fn" and x[1] == "[]" and len(x[2]) == 2 and nf.unkey(x[2][1]) == J1]
        xroot = None
        for x in xs:
            base = nf.unkey(x[2][0])
            if is_root_variable(it, Num(base), roots):
                xroot = base
        if xroot is None:
            return "bad", "no panel width x[j+1] - x[j] over the independent variable found in the summed panels", None
        dx = nf.sub(nf.fn("[]", xroot, J1), nf.fn("[]", xroot, Jn))
        # ordinate candidates: every y with y[j+1] occurring in the panel (no polynomial division needed)
        ys = [y for y in nf.atoms(gen) if y[0] == "fn" and y[1] == "[]" and len(y[2]) == 2 and nf.unkey(y[2][1]) == J1 and nf.unkey(y[2][0]) != xroot]
        for y in sorted(set(ys), key=repr):
            ynf = nf.unkey(y[2][0])
            mean = nf.scale(nf.add(nf.fn("[]", ynf, J1), nf.fn("[]", ynf, Jn)), nf.F(1, 2))
            if nf.equal(gen, nf.mul(mean, dx)):
                return "ok", ynf, xroot
        return "bad", "panel is not 1/2 (y[j+1] + y[j]) * (x[j+1] - x[j]) with the signed difference: " + nf.show(gen, 200), None
    return "none", None, None


def handwritten_quadrature(ctx, rule, it, value_nf, roots, construct, where, xname=None):
    """For a result computed without a library quadrature call: recognise a hand-written cumulative trapezoid rule in
    the value, check its roles and its zero start (the running sum is prefixed with a zero), and return the ordinate NF
    (None after a reported violation).  Raises AnalysisError when no quadrature of either kind can be found."""
    st, ynf, xroot = handrolled_trapezoid(it, value_nf, roots)
    if st == "none":
        raise AnalysisError(f"{construct}: neither a library quadrature call nor a hand-written trapezoid rule found")
    if st == "bad":
        ctx.bad(rule, construct, where, "the result is the cumulative trapezoid-rule integral of the ordinate over the independent variable", signature="hand-written quadrature: " + str(ynf)[:120])
        return None
    ctx.ok(rule, construct, where, "hand-written cumulative trapezoid: panels 1/2 (y[j+1] + y[j]) (x[j+1] - x[j]) over the independent variable", ordinate=nf.show(ynf, 300), abscissa=nf.show(xroot, 100))
    ctx.check(zero_start(it, value_nf), rule, construct + ":initial", where, "the running integral is prefixed with a zero (result starts at zero and has the length of the grid)", signature="initial", value=nf.show(value_nf, 300))
    return ynf


def _one_zero(it, p):
    """a scalar zero, or a one-element sequence holding a zero ([0.0], (0,))"""
    if not p:
        return True
    a = it.single_atom(p)
    return a is not None and a[0] == "fn" and a[1] in ("tuple", "list") and len(a[2]) == 1 and not nf.unkey(a[2][0])


def zero_start(it, value_nf):
    """the cumulative sum appears as the tail of a concatenation whose head is a zero"""
    zero_ok = False
    for a in nf.atoms(value_nf):
        if a[0] == "fn" and a[1].split("{")[0] in ("numpy.concatenate", "numpy.hstack", "numpy.append", "numpy.r_") and a[2]:
            first = it.single_atom(nf.unkey(a[2][0]))
            parts = first[2] if first is not None and first[0] == "fn" and first[1] == "tuple" else a[2]
            if len(parts) == 2 and _one_zero(it, nf.unkey(parts[0])) and any(x[0] == "fn" and x[1] in ("cumsum", "numpy.cumsum") for x in nf.atoms(nf.unkey(parts[1]))):
                zero_ok = True
        if a[0] == "fn" and a[1].split("{")[0] == "numpy.insert" and len(a[2]) >= 3 and not nf.unkey(a[2][1]) and not nf.unkey(a[2][2]):
            zero_ok = True
    return zero_ok


def check_tolerances(ctx, rule, construct, where, args, limits, what):
    """limits: {keyword: ('max', bound) | ('min', bound)}; a keyword that is absent keeps the library default"""
    from fractions import Fraction

    loose = []
    for kw, (kind, bound) in limits.items():
        v = args.get(kw)
        if v is None or not isinstance(v, Num):
            continue
        if not nf.is_const(v.nf) or (kind == "max" and nf.cval(v.nf) > Fraction(bound)) or (kind == "min" and nf.cval(v.nf) < Fraction(bound)):
            loose.append(f"{kw}={nf.show(v.nf, 30)}")
    ctx.check(not loose, rule, construct, where, what, signature="loose " + ",".join(loose), given={k: nf.show(args[k].nf, 30) for k in limits if isinstance(args.get(k), Num)})


def check_wrappers(ctx, rule, module_names):
    """Shared rule W: a decorated public function means the same whether its arguments are given by position, by keyword
    in signature order, or by keyword in another order.  (A wrapper that forwards `*args` but forgets `**kwargs`, that
    turns keywords into positionals in call-site order, or that finds an argument by index for one convention and by name
    for the other, changes what a call means - silently, or with a TypeError the undecorated function did not raise.)
    The decorated function is interpreted through its decorators under the three conventions and the sets of
    (outcome, result term) over the trace partitions are compared."""
    from ..values import FuncV

    n = 0
    for mn in module_names:
        m = ctx.P.module(mn)
        funcs = list(m.functions.values()) + [f for c in m.classes.values() for f in c.methods.values()]
        for fi in funcs:
            it0 = interp(ctx)
            if not it0._effective_decorators(fi) or fi.name.startswith("_"):
                continue
            names = [p for p in fi.params if not (fi.cls is not None and p == fi.params[0] and p in ("self", "cls"))]
            if not names:
                continue
            n += 1
            results = {}
            for conv in ("positional", "keywords", "keywords reversed"):
                # only the calling convention is compared: the other public functions of the package stay single terms
                it = interp(ctx, opaque={q for q, g in ctx.P.functions.items() if g is not fi and g.parent is None and g.cls is None and not g.name.startswith("_")})

                def runner(x, conv=conv, fi=fi):
                    bound = x.symbolic_args(fi)
                    sv = None
                    if fi.cls is not None and fi.params and fi.params[0] == "self":
                        from ..values import Inst

                        sv = Inst(fi.cls, {}, "self")
                    order = names if conv != "keywords reversed" else list(reversed(names))
                    pos = [bound[p] for p in names] if conv == "positional" else []
                    kw = {} if conv == "positional" else {p: bound[p] for p in order}
                    kw.update({k: bound[k] for k in fi.kwonly if k in bound})
                    return x.call(FuncV(fi, None, sv, fi.cls), pos, kw, fi.node, None)

                try:
                    paths = it.explore(runner)
                    results[conv] = {(p.outcome, p.exc if p.outcome == "raise" else nf.key(it.to_nf(p.value)) if p.value is not None else None) for p in paths}
                except AnalysisError as e:
                    results[conv] = {("error", str(e)[:120])}
            base = results["positional"]
            diff = [c for c in ("keywords", "keywords reversed") if results[c] != base]
            ctx.check(
                not diff, rule, fi.qualname + ":calling conventions", fi.where(),
                "through its decorators the function returns the same result (on every trace partition) for positional arguments, keyword arguments, and keyword arguments in another order",
                signature="differs for " + ",".join(diff), conventions={c: len(r) for c, r in results.items()},
                detail=[str(sorted((x for x in results[c] if x not in base), key=repr)[:1])[:200] for c in diff],
            )
    return n


def check_errstate(ctx, rule, module_names):
    """No floating-point condition is turned into an exception around the numerical kernels: under
    `np.errstate(all="raise")` (or under= / over= / invalid= / divide="raise", or np.seterr) an admissible input whose
    intermediate underflows - a saturation a hair above residual raised to the sixth power - aborts the call with
    FloatingPointError instead of returning a finite number."""
    import ast as _ast

    n = 0
    for mn in module_names:
        m = ctx.P.module(mn)
        bad = []
        for node in _ast.walk(m.tree):
            if isinstance(node, _ast.Call) and _ast.unparse(node.func) in ("np.errstate", "numpy.errstate", "np.seterr", "numpy.seterr"):
                n += 1
                for k in node.keywords:
                    if isinstance(k.value, _ast.Constant) and k.value.value == "raise":
                        bad.append(f"line {node.lineno}: {_ast.unparse(node)[:60]}")
        ctx.check(not bad, rule, f"{mn}:floating-point error state", m.relpath, "no floating-point condition (underflow, overflow, invalid, divide) is set to raise inside the library", signature="errstate raise", sites=bad)
    return n


SHAPE_FNS = {"ndim", "size", "shape", "len", "isscalar", ".ndim", ".size", ".shape", ".dtype", ".itemsize", ".flags", ".strides", ".nbytes", "type"}  # what these return does not depend on the values of an array


def array_safe(ctx, qualname, par, opaque=()):
    """Is it sound to hand a whole array to parameter `par` of the function?  Explores the function; on every path that
    is not selected by an explicit scalar dispatch (np.ndim(par) == 0, np.isscalar(par), np.size(par) == 1) no decision
    (if / while / and / or / conditional expression) may depend on `par`: such a test is either an error for arrays or -
    wrapped in np.all / np.any - one decision taken for all elements.  Returns (ok, [offending decision descriptions])."""
    import re

    from .. import nf as _nf

    it = interp(ctx, array_mode=True, opaque=set(opaque))  # np.ndim(x) != 0 is decided as "array" by the policy
    bad = []

    def strip_shape(p):
        def f(atom):
            if atom[0] == "fn" and atom[1].split("{")[0] in SHAPE_FNS:
                return _nf.const(0)
            return None

        return _nf.subst(p, f)

    def shape_term(key):
        """the decision is  shape_fn(par) <op> const"""
        if key[0] not in ("eq", "ge", "gt"):
            return None
        p = _nf.unkey(key[1])
        fa = [a for a in _nf.atoms(p) if a[0] == "fn" and a[1].split("{")[0] in SHAPE_FNS]
        if fa and not _nf.depends(strip_shape(p), par) and _nf.depends(p, par):
            return fa[0][1].split("{")[0], p
        return None

    sized = []
    for path in it.run_function(qualname):
        scalar = False
        deps = []
        for key, choice, descr in path.decisions:
            if key[0] == "exc":
                continue
            if key[0] in ("eq", "ge", "gt", "cmp"):
                st = shape_term(key)
                if st is not None:
                    name, p = st
                    rest = strip_shape(p)  # the constant the shape quantity is compared with (negated)
                    if key[0] == "eq" and _nf.is_const(rest) and name == "ndim" and _nf.cval(rest) == 0 and choice:
                        scalar = True
                    elif key[0] == "eq" and _nf.is_const(rest) and name in ("size", "len", ".size") and _nf.cval(rest) == -1:
                        # `np.size(x) == 1` is not a scalar test: a one-element array is an array (it has a shape to keep and
                        # is indexed by masks) - dispatching it to the scalar arm is a decision on the array's content
                        sized.append(descr + " (dispatch on the element count)")
                    continue
                p = _nf.unkey(key[1]) if key[0] != "cmp" else _nf.add(_nf.unkey(key[2]), _nf.unkey(key[3]))
                if _nf.depends(strip_shape(p), par):
                    deps.append(descr)
            elif key[0] == "opaque":
                txt = str(key[1])
                if re.fullmatch(r"isscalar\(%s\)" % re.escape(par), txt.strip()):
                    scalar = scalar or choice
                    continue
                if re.match(r"isinstance\(%s, " % re.escape(par), txt.strip()) or re.match(r"type(\{0\})?\(", txt.strip()):
                    continue  # a test of the argument's type, not of its values
                t2 = re.sub(r"\b(?:%s)\([^()]*\)" % "|".join(SHAPE_FNS), "0", txt)
                if re.search(r"(?<![\w.])%s(?![\w])" % re.escape(par), t2):
                    deps.append(descr)
        if not scalar:
            bad += [d for d in deps if d not in bad]
    bad += [d for d in sized if d not in bad]
    return not bad, bad


def wrapper_stubs(ctx, qual, stub, stubs=None):
    """`qual` is a thin wrapper when every return hands back the result of one package function F (`return F(...)`).
    Code that calls F directly - with the arguments the wrapper would pass for the same leading arguments - computes
    what `qual` computes; returns {F: stub'} where stub' answers like `stub` after checking exactly that (the wrapper is
    interpreted with F recorded, under the same stubs), and raises AnalysisError otherwise."""
    import ast as _ast

    from ..symeval import Interp

    P = ctx.P
    fi = P.func(qual)
    rets = [n for n in _ast.walk(fi.node) if isinstance(n, _ast.Return)]
    inner = set()
    for r in rets:
        v = r.value
        if not (isinstance(v, _ast.Call) and isinstance(v.func, (_ast.Name, _ast.Attribute))):
            return {}
        nm = v.func.id if isinstance(v.func, _ast.Name) else v.func.attr
        cands = [f for f in P.functions.values() if f.module is fi.module and f.parent is None and f.cls is None and f.name == nm]
        if len(cands) != 1:
            return {}
        inner.add(cands[0].qualname)
    if len(inner) != 1:
        return {}
    (fq,) = inner
    if fq == qual:
        return {}
    base = dict(stubs or {})

    def stub_inner(b):
        rec = {}

        def record(bb):
            rec.update(bb)
            return stub(bb)

        it = Interp(P, policy=std_policy(False), stubs=dict(base, **{fq: record}))
        args = {k: b[k] for k in fi.params if k in b}
        if set(args) != set(fi.params):
            raise AnalysisError(f"{fq}: called without the arguments of its wrapper {qual.split('.')[-1]}")
        it.run_function(qual, args=args)
        for k, v in b.items():
            if k not in rec or it.to_nf(rec[k]) != it.to_nf(v):
                raise AnalysisError(f"{fq}: called with {k} = {nf.show(it.to_nf(v), 80)}, not with what {qual.split('.')[-1]} passes for the same fluid")
        return stub(b)

    return {fq: stub_inner}


def strip_forwarded_options(p, quals):
    """Drop, from the terms `q(args...)` of package functions kept as one term, trailing arguments that are the caller's
    own new option handed on unchanged (`name@option`, bound by an option context of options.py): the callee is analysed
    under that same option in the forwarded context, here it is the documented call."""

    def f(a):
        if a[0] == "fn" and a[1] in quals and a[2]:
            args = list(a[2])
            n = len(args)
            while args:
                x = nf.unkey(args[-1])
                syms = nf.symbols(x)
                at = [t for t in nf.atoms(x)]
                if len(at) == 1 and at[0][0] == "sym" and at[0][1].endswith("@option") and x == nf.sym(at[0][1]):
                    args.pop()
                else:
                    break
            if len(args) != n:
                return nf.fn(a[1], *[nf.unkey(x) for x in args])
        return None

    return nf.subst(p, f)


def check_bubble_threshold(ctx, rule, quals):
    """One bubble point in floating point: every scalar comparison of `pressure` made by the listed functions (and the
    package functions they call) is against the value *returned by pressure_bubblepoint_Standing* for the function's own
    fluid description - not against an algebraically equal re-derivation, which rounds differently: at the library's
    bubble-point pressure the two then disagree on which side of the branch the point lies."""
    PBQ = OIL + "pressure_bubblepoint_Standing"
    n = 0
    for q in quals:
        f = ctx.P.func(q)
        ctx.touch(q)
        it = interp(ctx, opaque={PBQ})
        other = set()
        for p in it.run_function(q):
            for k, _c, _d in cmp_decisions(p, "pressure"):
                d = nf.unkey(k[1])
                # d == +-(pressure - threshold): remove the pressure term
                try:
                    coef = nf.diff(d, "pressure")
                except nf.NFError:
                    other.add(nf.show(d, 100) + " (pressure inside an opaque term)")
                    continue
                if not nf.is_const(coef) or not coef:
                    other.add(nf.show(d, 100) + " (not linear in pressure)")
                    continue
                thr = nf.neg(nf.div(nf.sub(d, nf.mul(coef, nf.sym("pressure"))), coef))
                a = it.single_atom(thr)
                if a is not None and a[0] == "fn" and a[1] == PBQ:
                    args = [nf.unkey(x) for x in a[2]]
                    if all(it.single_atom(x) is not None and it.single_atom(x)[0] == "sym" for x in args):
                        continue
                if nf.is_const(thr):
                    continue  # a fixed validity limit, not the bubble point
                other.add(nf.show(thr, 120))
        n += 1
        ctx.check(
            not other, rule, q + ":branch threshold is the library's bubble point", f.where(),
            "every comparison of pressure with the bubble point uses the value pressure_bubblepoint_Standing returns for the function's own arguments (one rounding of p_b for the whole library)",
            signature="threshold " + "; ".join(sorted(other))[:140], thresholds=sorted(other)[:4],
        )
    return n


def check_positional_order(ctx, rule, module_names):
    """Shared rule S: a positional call that existing users can make still binds every value to the parameter it was
    written for.  For every function (and dataclass constructor) of the pinned tree, each pinned parameter that is still
    positional sits at its pinned position: new parameters come after all of them (or are keyword-only), none is inserted
    in front, none is re-ordered.  (A re-routed positional value is accepted silently whenever the types agree - a
    salinity taken for a standard temperature, a maximum initial pressure taken for a flag.)"""
    import ast
    import json
    import os

    path = os.path.join(os.path.dirname(os.path.dirname(os.path.abspath(__file__))), "signatures_pos.json")
    if not os.path.exists(path):
        raise AnalysisError("signatures_pos.json missing")
    pinned = json.load(open(path))
    n = 0
    for mn in module_names:
        m = ctx.P.modules.get(mn)
        if m is None:
            continue
        moved = []
        for q, want in pinned.items():
            if not q.startswith(mn + "."):
                continue
            if q.endswith(".<fields>"):
                ci = ctx.P.classes.get(q[: -len(".<fields>")])
                if ci is None or ci.module.name != mn:
                    continue
                cur = []
                for c in reversed(ci.mro()):
                    for st in c.node.body:
                        if isinstance(st, ast.AnnAssign) and isinstance(st.target, ast.Name):
                            v = st.value
                            no_init = isinstance(v, ast.Call) and ast.unparse(v.func).split(".")[-1] == "field" and any(k.arg == "init" and isinstance(k.value, ast.Constant) and k.value.value is False for k in v.keywords)
                            kw_only = isinstance(v, ast.Call) and ast.unparse(v.func).split(".")[-1] == "field" and any(k.arg == "kw_only" and isinstance(k.value, ast.Constant) and k.value.value is True for k in v.keywords)
                            if st.target.id in cur:
                                continue
                            if not no_init and not kw_only and "ClassVar" not in ast.unparse(st.annotation):
                                cur.append(st.target.id)
            else:
                fi = ctx.P.functions.get(q)
                if fi is None or fi.module.name != mn:
                    continue
                if fi.name.startswith("_") and not fi.name.endswith("__"):
                    # a private helper: the calls that reach it are the package's own, and the interpreter binds each of
                    # them against the signature as it stands (producer and consumers may change together)
                    continue
                cur = fi.params
                if fi.cls is not None:
                    # a method is called through an object: the receiver is not one of the caller's positional arguments
                    # (a method that never used `self` may become a @staticmethod - the calls users make bind the same)
                    cur = [p_ for k_, p_ in enumerate(cur) if not (k_ == 0 and p_ in ("self", "cls"))]
                    want = [p_ for k_, p_ in enumerate(want) if not (k_ == 0 and p_ in ("self", "cls"))]
            n += 1
            for i, name in enumerate(cur):
                if name in want and want.index(name) != i:
                    moved.append(f"{q.split('.', 2)[-1] if q.count('.') > 2 else q}: `{name}` is positional argument {i + 1}, was {want.index(name) + 1}")
        ctx.check(
            not moved, rule, f"{mn}:positional parameters keep their places", m.relpath,
            "every parameter of the pinned signatures that can still be passed by position is at its pinned position (new parameters are appended or keyword-only)",
            signature="re-routed " + "; ".join(sorted(moved))[:160], moved=sorted(moved)[:8],
        )
    return n


def check_pinned_defaults(ctx, rule, module_names):
    """Shared rule S, second clause: a call that omits an optional argument of a pinned signature keeps meaning what it
    meant.  For every pinned parameter with a default (bbstatic/signatures_defaults.json, generated from the pinned tree)
    the parameter still has a default, and it is the same value - as source text, else as a constant (a literal moved
    into a module constant), else semantically: the function interpreted with the pinned value computes, on every trace
    partition, what it computes with today's default (a `None` sentinel resolved to the old value inside the body)."""
    import ast
    import json
    import os

    from ..symeval import Env, Interp

    path = os.path.join(os.path.dirname(os.path.dirname(os.path.abspath(__file__))), "signatures_defaults.json")
    if not os.path.exists(path):
        raise AnalysisError("signatures_defaults.json missing")
    pinned = json.load(open(path))
    it = Interp(ctx.P, policy=std_policy(False))

    def const(expr, module):
        from ..options import _const_val

        return _const_val(it, expr, module)

    for mn in module_names:
        m = ctx.P.modules.get(mn)
        if m is None:
            continue
        changed = []
        for q, dflt in pinned.items():
            fi = ctx.P.functions.get(q)
            if fi is None or fi.module.name != mn:
                continue
            cur = fi.defaults()
            for par, text in dflt.items():
                if par not in fi.params + fi.kwonly:
                    continue  # removed / renamed parameters are the business of the rules that bind arguments
                short = q.split(".", 2)[-1] if q.count(".") > 2 else q
                if par not in cur:
                    changed.append(f"{short}: `{par}` lost its default {text}")
                    continue
                if ast.unparse(cur[par]) == text:
                    continue
                from ..options import _same

                old_expr = ast.parse(text, mode="eval").body
                a, b = const(old_expr, fi.module), const(cur[par], fi.module)
                if a is not None and b is not None and _same(a, b):
                    continue
                try:
                    va = a if a is not None else it.eval(old_expr, Env(None, fi.module, None))
                    vb = b if b is not None else it.eval(cur[par], Env(None, fi.module, None))
                    same = it.equal_calls(fi, {par: va}, {par: vb})
                except AnalysisError:
                    same = False
                if not same:
                    changed.append(f"{short}: default of `{par}` is {ast.unparse(cur[par])[:40]}, was {text[:40]}")
        ctx.check(
            not changed, rule, f"{mn}:defaults of the pinned parameters", m.relpath,
            "a call that omits an optional argument of a pinned signature computes what it computed: the default is the same value (or one with which the function computes the same on every path)",
            signature="default changed " + "; ".join(sorted(changed))[:160], changed=sorted(changed)[:8],
        )


def check_super_forwarding(ctx, rule, module_names):
    """An override that delegates to the method it overrides forwards what it accepts: every parameter the override shares
    with the overridden method is handed on in the `super().method(...)` call (by position, by keyword, or through
    *args / **kwargs).  A shared parameter that is accepted and not forwarded is silently replaced by the parent's default
    (a frac-face schedule that is taken and dropped: constant drawdown is simulated instead)."""
    import ast

    n = 0
    for mn in module_names:
        m = ctx.P.modules.get(mn)
        if m is None:
            continue
        dropped = []
        for ci in m.classes.values():
            for name, fi in ci.methods.items():
                for call in ast.walk(fi.node):
                    if not (isinstance(call, ast.Call) and isinstance(call.func, ast.Attribute) and call.func.attr == fi.name and isinstance(call.func.value, ast.Call) and isinstance(call.func.value.func, ast.Name) and call.func.value.func.id == "super"):
                        continue
                    parent = ci.lookup_after(ci, name) if hasattr(ci, "lookup_after") else None
                    if parent is None:
                        continue
                    n += 1
                    if any(isinstance(a, ast.Starred) for a in call.args) or any(k.arg is None for k in call.keywords):
                        continue  # *args / **kwargs forwarded
                    pparams = [p for p in parent.params if p not in ("self", "cls")]
                    covered = set(pparams[: len(call.args)]) | {k.arg for k in call.keywords}
                    mine = [p for p in fi.params + fi.kwonly if p not in ("self", "cls")]
                    for p in mine:
                        if p in pparams + parent.kwonly and p not in covered:
                            dropped.append(f"{ci.name}.{name}: `{p}` is accepted but not passed to super().{name}(...) at line {call.lineno}")
        # the same for a function that hands its work to itself (an array branch calling itself per element): an optional
        # parameter it reads and does not pass on is the default in the inner call, whatever the caller gave
        for fi in list(m.functions.values()) + [f_ for ci in m.classes.values() for f_ in ci.methods.values()]:
            dflt = fi.defaults()
            if not dflt:
                continue
            for call in ast.walk(fi.node):
                if not isinstance(call, ast.Call):
                    continue
                f_ = call.func
                if fi.cls is None:
                    hit = isinstance(f_, ast.Name) and f_.id == fi.name
                else:
                    hit = isinstance(f_, ast.Attribute) and f_.attr == fi.name and isinstance(f_.value, ast.Name) and f_.value.id in ("self", "cls")
                if not hit:
                    continue
                n += 1
                if any(isinstance(a, ast.Starred) for a in call.args) or any(k.arg is None for k in call.keywords):
                    continue
                order = [p for p in fi.params if not (fi.cls is not None and p in ("self", "cls"))]
                covered = set(order[: len(call.args)]) | {k.arg for k in call.keywords}
                read = {x.id for x in ast.walk(fi.node) if isinstance(x, ast.Name) and isinstance(x.ctx, ast.Load)}
                for p in order + fi.kwonly:
                    if p in dflt and p not in covered and p in read:
                        dropped.append(f"{fi.name}: `{p}` is accepted but not passed on in the call to itself at line {call.lineno}")
        ctx.check(
            not dropped, rule, f"{mn}:overrides forward what they accept", m.relpath,
            "an override that delegates to the overridden method passes on every parameter the two share",
            signature="dropped " + "; ".join(sorted(dropped))[:160], dropped=sorted(dropped)[:6],
        )
    return n
