"""C18 - pressure-history fit uses the library's forward model and honours its limits.

Decided: (a) the objective is M * recovery_factor() - production on a SinglePhaseReservoir of the
library built at params' p_initial from FlowProperties(pvt_table, p_initial), simulated at days/tau
with the given frac-face history (construct -> simulate -> recovery_factor on the same object);
(b) parameter names agree between the writer and both readers; (c) limits: p_initial in
[max(frac-face pressures actually used), pressure_imax], M <= inplace_max, tau bounded; fcn_args
order matches the objective's signature; (d) row filtering, smoothing and cumulative sum are wired
as stated.  Not decided: lmfit honouring min/max, uniform_filter1d(size=1) == identity, convergence.
"""
from __future__ import annotations

from .. import nf
from ..model import AnalysisError
from ..symeval import Env
from ..values import Buf, DictV, ExtObj, FuncV, Inst, Num, StrV, TupV, Vec
from .common import FCP, FP, RES, interp, returns

LEVEL = "other"
KEYS = {"tau", "M", "p_initial"}


def pval(k):
    return nf.fn(".value", nf.fn("[]", nf.sym("params"), nf.sym(repr(k))))


def _is_default(it, ofi, odef, name, v):
    try:
        return it.to_nf(v) == it.to_nf(it.eval(odef[name], Env(None, ofi.module, None)))
    except AnalysisError:
        return False


def check(ctx):
    P = ctx.P
    q = FCP + "_obj_function"
    f = P.func(q)
    SPR = RES + "SinglePhaseReservoir"
    ctx.touch(q)
    it = interp(ctx, opaque={FP + "FlowProperties.__init__"}, opaque_methods={"bluebonnet.flow.reservoir:simulate", "bluebonnet.flow.reservoir:recovery_factor"})
    paths = returns(it.run_function(q))
    if not paths:
        raise AnalysisError(f"{q}: no returning path")
    # every partition of the objective (an environment switch, a version gate) has to be the documented forward model
    def _tags(ps):
        if len(ps) == 1:
            return [("", ps[0])]
        return [(" [" + ", ".join(("" if c else "not ") + d[:60] for _k, c, d in p_.decisions) + "]", p_) for p_ in ps]

    # the data the objective works on: its parameters after `params` that have no default - or, when one of them is a
    # record (a NamedTuple handed over as one argument), the record's fields.  Which of them plays which part (days on
    # production, observed cumulative production, PVT table, frac-face history) is read off what the objective does
    # with it; the fit is then checked to hand each part the documented value
    odata = [n_ for n_ in f.params[1:] if n_ not in f.defaults()]

    def data_sym(term):
        at_ = it.single_atom(term)
        if at_ is not None and at_[0] == "sym" and any(at_[1] == n_ or at_[1].startswith(n_ + ".") for n_ in odata):
            return at_[1]
        return None

    roles = {}

    def role(name, term):
        s_ = data_sym(term)
        if s_ is None or (name in roles and roles[name] != s_) or any(r_ != name and v_ == s_ for r_, v_ in roles.items()):
            return False
        roles[name] = s_
        return True

    for otag, p in _tags(paths):
        # constructions and method calls made by the objective, directly or through private helpers it calls (inlined)
        evs = [e for e in p.events if e.kind == "construct" or (e.kind in ("int_call", "method_call") and e.data.get("recv") is not None)]
        cons_fp = [e for e in evs if e.kind == "construct" and e.data["cls"] == FP + "FlowProperties"]
        cons_r = [e for e in evs if e.kind == "construct" and e.data["cls"] == SPR]
        sims = [e for e in evs if e.kind == "int_call" and e.data["callee"].startswith("bluebonnet.flow.reservoir.") and e.data["callee"].endswith(".simulate")]
        recs = [e for e in evs if e.kind == "int_call" and e.data["callee"].startswith("bluebonnet.flow.reservoir.") and e.data["callee"].endswith(".recovery_factor")]
        ok_shape = len(cons_fp) == 1 and len(cons_r) == 1 and len(sims) == 1 and len(recs) == 1
        ctx.check(
            ok_shape, "C18-a", q + ":forward model" + otag, f.where(),
            "the objective builds one FlowProperties and one SinglePhaseReservoir of the library (resolved through bluebonnet.flow) and calls simulate and recovery_factor once each",
            signature="forward model shape", constructs=[e.data["cls"] for e in evs if e.kind == "construct"], calls=[e.data["callee"] for e in evs if e.kind == "int_call"],
        )
        if ok_shape:
            order = [evs.index(x) for x in (cons_fp[0], cons_r[0], sims[0], recs[0])]
            inst = cons_r[0].data["inst"]
            same = sims[0].data["recv"] is inst and recs[0].data["recv"] is inst
            others = [e for e in evs if e.kind == "int_call" and e.data.get("recv") is inst and e not in (sims[0], recs[0])]
            ctx.check(order == sorted(order) and same and not others, "C18-a", q + ":typestate order" + otag, f.where(), "construct -> simulate -> recovery_factor on the same reservoir object, nothing in between", signature="call order")
            a = cons_fp[0].data["args"]
            ctx.check(
                role("pvt_table", it.to_nf(a["pvt_props"])) and it.to_nf(a["p_i"]) == pval("p_initial"), "C18-a", q + ":FlowProperties arguments" + otag, f"{f.file}:{cons_fp[0].line}",
                "the fluid wrapper is built from the caller's PVT table at the trial initial pressure", signature="FlowProperties args", got={k: nf.show(it.to_nf(v), 80) for k, v in a.items()},
            )
            a = cons_r[0].data["args"]
            nx = a.get("nx")
            okr = isinstance(nx, Num) and nf.as_int(nx.nf) is not None and nf.as_int(nx.nf) == 80 and it.to_nf(a.get("pressure_initial")) == pval("p_initial") and a.get("fluid") is cons_fp[0].data["inst"]
            ctx.check(okr, "C18-a", q + ":reservoir arguments" + otag, f"{f.file}:{cons_r[0].line}", "the reservoir has the documented 80 nodes (whatever the environment says), the trial initial pressure and the fluid wrapper just built", signature="reservoir args", got={k: str(v)[:60] for k, v in a.items()})
            a = sims[0].data["args"]
            oks = role("days", nf.mul(it.to_nf(a["time"]), pval("tau"))) and role("pressure_fracface", it.to_nf(a["pressure_fracface"]))
            ctx.check(oks, "C18-a", q + ":simulate arguments" + otag, f"{f.file}:{sims[0].line}", "the simulation runs over days / tau with the caller's frac-face pressure history", signature="simulate args", got={k: nf.show(it.to_nf(v), 80) for k, v in a.items()})
            a = recs[0].data["args"]
            okd = str(a.get("density")) == "Bool(False)" and type(a.get("time")).__name__ == "NoneV"
            ctx.check(okd, "C18-a", q + ":recovery arguments" + otag, f"{f.file}:{recs[0].line}", "recovery is the default flux-based recovery factor of the run just simulated", signature="recovery args", got={k: str(v)[:40] for k, v in a.items()})
            rf = nf.fn(recs[0].data["callee"], nf.sym(inst.name), nf.sym("None"), {})
            val = it.to_nf(p.value)
            rfa = [x for x in nf.atoms(val) if x[0] == "fn" and x[1] == recs[0].data["callee"]]
            if len(set(rfa)) == 1:
                model_ = nf.mul(pval("M"), nf.atom_poly(rfa[0]))
                observed = nf.sym(roles["production"]) if "production" in roles else (nf.sub(model_, val) if role("production", nf.sub(model_, val)) else nf.sym("production"))
                ctx.identity("C18-a", q + ":objective" + otag, f.where(), "objective == params['M'] * recovery_factor - production", val, nf.sub(model_, observed))
            else:
                ctx.bad("C18-a", q + ":objective" + otag, f.where(), "objective == params['M'] * recovery_factor - production", signature="objective", value=nf.show(val, 200))
    # ---- C18-b keys
    reads = {e.data["key"] for e in p.events if e.kind == "read_sub" and it.to_nf(e.data["base"]) == nf.sym("params")}
    ctx.check(reads == KEYS, "C18-b", q + ":parameter names read", f.where(), "the objective reads exactly the parameters tau, M and p_initial", signature="keys read " + ",".join(sorted(reads)))

    # ---- fit_production_pressure
    qf = FCP + "fit_production_pressure"
    ff = P.func(qf)
    ctx.touch(qf)
    it2 = interp(ctx, erase_masks=False)
    fpaths = returns(it2.run_function(qf))
    if len(fpaths) < 4:
        raise AnalysisError(f"{qf}: expected the filter x smoothing x params partitions")
    col = lambda frame, k: nf.fn("[]", frame, nf.sym(repr(k)))
    for fp_ in fpaths:
        dec = {d: c for _k, c, d in fp_.decisions}
        filt, nowin, defparams = dec.get("filter_zero_prod_days"), dec.get("filter_window_size is None"), dec.get("params is None")
        tag = f"[filter={filt}, smoothing={not nowin}, default params={defparams}]"
        # lmfit.Minimizer(userfcn, params, fcn_args=, fcn_kws=).minimize(...)  or  lmfit.minimize(fcn, params, args=, kws=, ...)
        mins = [e for e in fp_.events if e.kind == "ext_call" and e.data["callee"] in ("lmfit.Minimizer", "lmfit.minimize")]
        if len(mins) != 1:
            raise AnalysisError(f"{qf}: expected one Minimizer {tag}")
        a = dict(mins[0].data["args"])
        if mins[0].data["callee"] == "lmfit.minimize":
            a = {"userfcn": a.get("fcn"), "params": a.get("params"), "fcn_args": a.get("args"), "fcn_kws": a.get("kws")}
        where = f"{ff.file}:{mins[0].line}"
        uf = a.get("userfcn")
        oku = isinstance(uf, FuncV) and uf.info.qualname == q
        ctx.check(oku, "C18-c", qf + ":objective wired " + tag, where, "the minimiser minimises the library's _obj_function", signature="userfcn")
        # bind positional and keyword extras to the objective's own parameter names (after `params`)
        ofi = P.func(q)
        odef = ofi.defaults()
        # the data parameters (no default) must all be bound; an optional parameter of the objective may be
        # bound too, provided the value handed over is its default (the objective then computes what it did)
        names = [n_ for n_ in ofi.params[1:] if n_ not in odef]
        optional = [n_ for n_ in ofi.params[1:] + ofi.kwonly if n_ in odef]
        binding, extra = {}, []
        fa, fk = a.get("fcn_args"), a.get("fcn_kws")
        if isinstance(fa, TupV):
            for nme, v in zip(ofi.params[1:], fa.items):
                if nme in optional:
                    if not _is_default(it2, ofi, odef, nme, v):
                        extra.append(f"{nme} (not the objective's default)")
                    continue
                binding[nme] = v
            extra += ["positional"] * max(0, len(fa.items) - len(ofi.params[1:]))
        elif fa is not None and type(fa).__name__ != "NoneV":
            extra.append("fcn_args is not a tuple")
        if isinstance(fk, DictV) and not fk.fallback:
            for k, v in fk.items.items():
                if k in optional and k not in binding:
                    if not _is_default(it2, ofi, odef, k, v):
                        extra.append(f"{k} (not the objective's default)")
                    continue
                if k in binding or k not in names:
                    extra.append(k)
                binding[k] = v
        elif fk is not None and type(fk).__name__ != "NoneV":
            extra.append("fcn_kws is not a literal dict")
        flat = {}
        for k_, v_ in binding.items():
            flat[k_] = v_
            if isinstance(v_, TupV) and v_.names:
                for fld_, x_ in zip(v_.names, v_.items):
                    flat[f"{k_}.{fld_}"] = x_
        need = ("days", "production", "pvt_table", "pressure_fracface")
        if set(binding) != set(names) or extra or any(roles.get(r_) not in flat for r_ in need):
            ctx.bad("C18-c", qf + ":fcn_args " + tag, where, "the minimiser hands the objective exactly its four extra arguments (days, production, pvt_table, pressure_fracface)", signature="fcn_args arity", bound=sorted(binding), problems=extra, roles=dict(roles))
            continue
        days, prod, tbl, pf = (flat[roles[r_]] for r_ in need)
        # frame the data are taken from
        prod_nf = it2.to_nf(prod)
        pf_nf = it2.to_nf(pf)
        base = nf.sym("prod_data")
        if filt:
            mask = nf.fn("bool:and", *sorted([nf.fn("cmp:>", col(base, "Gas"), {}), nf.fn("pandas.notna{0}", col(base, "Pressure"))], key=repr))
            rows = nf.fn("rows", base, mask)
        else:
            rows = base
        frame = nf.fn("[]", rows, nf.sym("'Days'"), nf.sym("'Gas'"), nf.sym("'Pressure'"))
        ctx.check(
            frame in [nf.unkey(x[2][0]) for x in nf.atoms(prod_nf) if x[0] == "fn" and x[1] == "[]"] or any(nf.atom_poly(x) == frame for x in nf.atoms(prod_nf)), "C18-d", qf + ":rows used " + tag, ff.where(),
            "with filtering, exactly the rows with Gas > 0 and a non-missing Pressure are kept; without it, all rows" , signature="row filter", production=nf.show(prod_nf, 300),
        )
        ctx.identity("C18-d", qf + ":cumulative production " + tag, ff.where(), "cumulative production is the running sum of the Gas column of the (filtered) table", prod_nf, nf.fn("cumsum", col(frame, "Gas")))
        raw_p = col(frame, "Pressure")
        if nowin:
            ctx.identity("C18-d", qf + ":pressure history " + tag, ff.where(), "without a window the frac-face history is the Pressure column unchanged", pf_nf, raw_p)
        else:
            okw = isinstance(pf, ExtObj) and pf.qual == "scipy.ndimage.uniform_filter1d" and it2.to_nf(pf.args.get("input")) == raw_p and it2.to_nf(pf.args.get("size")) == nf.sym("filter_window_size") and set(pf.args) <= {"input", "size", "output"} and ("output" not in pf.args or isinstance(pf.args["output"], Buf))  # output: a buffer allocated in the function
            ctx.check(okw, "C18-d", qf + ":pressure smoothing " + tag, ff.where(), "the boxcar filter is applied to the Pressure column only, with size = filter_window_size", signature="smoothing", got=str(pf)[:200])
        okargs = isinstance(days, Vec) and days.gen == nf.sym("@J") and it2.to_nf(tbl) == nf.sym("pvt_table")
        ctx.check(okargs, "C18-c", qf + ":fcn_args order " + tag, where, "fcn_args == (day index 0..n-1, cumulative production, pvt_table, frac-face pressures), the order of _obj_function's parameters", signature="fcn_args order", got={k: str(x)[:60] for k, x in binding.items()})
        if defparams:
            adds = {}
            for e in fp_.events:
                if e.kind == "method_call" and e.data["meth"] == "add" and isinstance(e.data["args"].get("name"), StrV):
                    adds[e.data["args"]["name"].s] = e
            ctx.check(set(adds) == KEYS, "C18-b", qf + ":parameter names written " + tag, ff.where(), "the default parameter set defines exactly tau, M and p_initial", signature="keys written " + ",".join(sorted(adds)))
            if "p_initial" in adds:
                a2 = adds["p_initial"].data["args"]
                want_min = nf.fn("max", pf_nf)
                okp = a2.get("min") is not None and it2.to_nf(a2["min"]) == want_min and a2.get("max") is not None and it2.to_nf(a2["max"]) == nf.sym("pressure_imax") and it2.to_nf(a2.get("value")) == nf.sym("pressure_initial")
                ctx.check(
                    okp, "C18-c", qf + ":p_initial limits " + tag, f"{ff.file}:{adds['p_initial'].line}",
                    "p_initial is limited below by the highest frac-face pressure actually handed to the objective and above by pressure_imax",
                    signature="p_initial limits", min=nf.show(it2.to_nf(a2["min"]), 160) if a2.get("min") is not None else "none", max=nf.show(it2.to_nf(a2["max"]), 60) if a2.get("max") is not None else "none",
                )
            if "M" in adds:
                a2 = adds["M"].data["args"]
                ctx.check(a2.get("max") is not None and it2.to_nf(a2["max"]) == nf.sym("inplace_max") and a2.get("min") is not None, "C18-c", qf + ":M limits " + tag, f"{ff.file}:{adds['M'].line}", "M is limited above by inplace_max (and below)", signature="M limits")
            if "tau" in adds:
                a2 = adds["tau"].data["args"]
                ctx.check(a2.get("max") is not None and a2.get("min") is not None, "C18-c", qf + ":tau limits " + tag, f"{ff.file}:{adds['tau'].line}", "tau has a lower and an upper limit", signature="tau limits")
        else:
            ctx.check(it2.to_nf(a.get("params")) == nf.sym("params"), "C18-c", qf + ":caller's params used " + tag, where, "caller-supplied parameters are handed to the minimiser unchanged", signature="params")
    # reader 2
    qp = FCP + "plot_production_comparison"
    ctx.touch(qp)
    it3 = interp(ctx, opaque={FP + "FlowProperties.__init__"}, opaque_methods={"bluebonnet.flow.reservoir:simulate", "bluebonnet.flow.reservoir:recovery_factor"})
    rd = set()
    for pp in returns(it3.run_function(qp)):
        rd |= {e.data["key"] for e in pp.events if e.kind == "read_sub" and it3.to_nf(e.data["base"]) == nf.sym("params")}
    ctx.check(rd == KEYS, "C18-b", qp + ":parameter names read", P.func(qp).where(), "the comparison plot reads exactly tau, M and p_initial", signature="keys read " + ",".join(sorted(rd)))
    # ---- C18-e the forward model the objective relies on: the objective constructs its reservoir with the *initial* pressure
    # in the frac-face slot and hands the real history to simulate() - so the simulated state (level 0 included) must come
    # from the schedule alone (the boundary-row / initial-node / schedule clauses of C01-b)
    from .c01 import check_boundary_row

    try:
        check_boundary_row(ctx, "C18-e")
    except AnalysisError as e:
        ctx.notes.append(f"C18-e not evaluated: {e}")
    ctx.floor("C18", len(ctx.obligs), 30, "fit wiring obligations")
