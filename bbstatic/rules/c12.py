"""C12 - black-oil correlations are continuous and correctly ordered at the bubble point.

Decided: (a) Rs below the bubble point is the exact inverse of the bubble-point correlation;
(b) both arms of every branching oil correlation agree when evaluated at p := p_b (exact identity
after substitution); (c) every bubble-point test compares pressure with the same p_b call using
`>=` for the undersaturated side; (d) dRs/dp and dBo/dRs are sign-definite positive.
Not decided: Bo falling above p_b, viscosity trend below p_b, positivity of Spivey c_o and of
viscosity (need numeric range evaluation).
"""
from __future__ import annotations

from .. import nf
from ..model import AnalysisError
from ..values import Buf, BoolV, Num
from .common import OIL, POSITIVE, only, positive, pressure_arms, returns, run

LEVEL = "other"

CONTINUOUS = ["solution_gor_Standing", "b_o_Standing", "density_Standing", "viscosity_beggs_robinson"]
BRANCHING = CONTINUOUS + ["dgor_dpressure_Standing", "oil_compressibility_Standing"]


def check(ctx):
    P = ctx.P
    ctx.assume(POSITIVE)
    # ---- C12-h positional semantics of numpy's masked-assignment helpers (shared with C11-i / C13-h)
    from .dtypes import check_masked_calls

    check_masked_calls(ctx, "C12-h", ["bluebonnet.fluids.oil", "bluebonnet.fluids.fluid"])

    pb = only(run(ctx, OIL + "pressure_bubblepoint_Standing"), "pressure_bubblepoint_Standing", ctx, "C12-c").value.nf
    fpb = P.func(OIL + "pressure_bubblepoint_Standing")
    PBQ = OIL + "pressure_bubblepoint_Standing"
    pb_atom = nf.fn(PBQ, *[nf.sym(a) for a in ("temperature", "api_gravity", "gas_specific_gravity", "solution_gor_initial")])
    # the bubble point is kept as one atom p_b(T, API, gamma_g, Rs_i): `p - p_b` and `p / p_b` then cancel
    # syntactically at p := p_b; its definition is substituted afterwards (so that Rs(p_b) collapses to Rs_i)
    canon = ("ge", nf.key(nf.sub(nf.sym("pressure"), pb_atom)))
    expand_pb = lambda t: nf.subst(t, lambda a: pb if nf.atom_poly(a) == pb_atom else None)

    # ---- C12-c one predicate, in scalar mode (if tests) and array mode (masks)
    n_pred = 0
    arms_by_fn = {}
    for name in BRANCHING:
        q = OIL + name
        f = P.func(q)
        opaque = {PBQ} | ({"bluebonnet.fluids.gas.b_factor_DAK"} if name == "oil_compressibility_Standing" else set())
        arms = pressure_arms(ctx, q, opaque=opaque)
        arms_by_fn[name] = arms
        keys = {k for kc in arms for k, _c in kc}
        n_pred += len(keys)
        ok = keys == {canon} and all(len(kc) == 1 for kc in arms) and len(arms) == 2
        ctx.check(
            ok, "C12-c", q + ":bubble-point predicate", f.where(),
            "the function (and every callee it inlines) selects its branch by `pressure >= pressure_bubblepoint_Standing(T, API, gas gravity, Rs_initial)`",
            signature="predicate differs",
            predicates=sorted(d for _v, d, _p in arms.values()),
        )
    for name in ("b_o_Standing", "solution_gor_Standing"):
        q = OIL + name
        f = P.func(q)
        for p in returns(run(ctx, q, array_mode=True, opaque={PBQ})):
            v = p.value
            if not isinstance(v, Buf):
                raise AnalysisError(f"{q}: array arm does not return a result buffer")
            masks = [m for m, _x in v.parts]
            descr = []
            ok = bool(masks)
            for m in masks:
                if not (isinstance(m, BoolV) and m.kind == "cmp"):
                    ok = False
                    descr.append(repr(m))
                    continue
                d = nf.key(nf.sub(m.a, m.b))
                descr.append(f"{nf.show(m.a, 60)} {m.op} p_b" if d == canon[1] else repr(m))
                if d != canon[1] or m.op not in (">=", "<"):
                    ok = False
            n_pred += len(masks)
            ctx.check(
                ok, "C12-c", q + ":array masks", f.where(),
                "array-branch masks compare pressure with the same bubble point, `>=` on the undersaturated side and `<` on the saturated side",
                signature="mask differs", masks=descr,
            )
    ctx.floor("C12-c", n_pred, 8, "bubble-point predicates")

    # ---- C12-a inverse pair
    sg = arms_by_fn["solution_gor_Standing"]
    lower = sg.get(((canon, False),))
    upper = sg.get(((canon, True),))
    fs = P.func(OIL + "solution_gor_Standing")
    if lower is not None and upper is not None and isinstance(lower[0], Num):
        gor = expand_pb(lower[0].nf)
        ctx.identity(
            "C12-a", OIL + "solution_gor_Standing:p_b(Rs(p)) == p", fs.where(),
            "bubble-point pressure of the GOR returned below the bubble point is the pressure itself",
            nf.subst_sym(pb, {"solution_gor_initial": gor}), nf.sym("pressure"),
        )
        ctx.identity(
            "C12-a", OIL + "solution_gor_Standing:Rs(p_b(R)) == R", fs.where(),
            "GOR below the bubble point evaluated at the bubble-point pressure is the initial GOR",
            nf.subst_sym(gor, {"pressure": pb}), nf.sym("solution_gor_initial"),
        )
        ctx.identity(
            "C12-a", OIL + "solution_gor_Standing:Rs == Rs_initial at/above p_b", fs.where(),
            "at and above the bubble point the solution GOR is the initial GOR",
            upper[0].nf if isinstance(upper[0], Num) else nf.sym("?"), nf.sym("solution_gor_initial"),
        )
        # ---- C12-d sign-definite ordering
        d = nf.diff(gor, "pressure")
        ctx.check(
            positive(d), "C12-d", OIL + "solution_gor_Standing:dRs/dp > 0", fs.where(),
            "below the bubble point dRs/dp is a product of positive factors (Rs non-decreasing in pressure)",
            signature="sign", derivative=nf.show(d, 400),
        )
    bo = only(run(ctx, OIL + "b_o_bubblepoint_Standing"), "b_o_bubblepoint_Standing", ctx, "C12-d").value.nf
    d = nf.diff(bo, "solution_gor_initial")
    ctx.check(
        positive(d), "C12-d", OIL + "b_o_bubblepoint_Standing:dBo/dRs > 0", P.func(OIL + "b_o_bubblepoint_Standing").where(),
        "dBo/dRs at the bubble point is a product of positive factors (with dRs/dp > 0: Bo rises up to p_b)",
        signature="sign", derivative=nf.show(d, 400),
    )

    # ---- C12-b continuity at the branch point
    n = 0
    for name in CONTINUOUS:
        q = OIL + name
        f = P.func(q)
        arms = arms_by_fn[name]
        up, lo = arms.get(((canon, True),)), arms.get(((canon, False),))
        if up is None or lo is None or not isinstance(up[0], Num) or not isinstance(lo[0], Num):
            continue  # reported by C12-c
        n += 1
        ctx.identity(
            "C12-b", q + ":continuity at p_b", f.where(),
            "the value of the `>=` arm and of the `<` arm coincide when pressure := p_b",
            expand_pb(nf.subst_sym(up[0].nf, {"pressure": pb_atom})), expand_pb(nf.subst_sym(lo[0].nf, {"pressure": pb_atom})),
        )
    ctx.floor("C12-b", n, 4, "continuous branching correlations")

    # ---- C12-e array results keep float dtype (an integer pressure table must not truncate Rs / Bo)
    from .dtypes import check_module_buffers

    check_module_buffers(ctx, "C12-e", "bluebonnet.fluids.oil", floor=2)

    # ---- C12-f the Fluid facade hands the oil correlations out unchanged (users reach Bo, viscosity and p_b through it)
    from .c19 import check_delegation

    check_delegation(ctx, "C12-f", only={"oil_FVF", "oil_viscosity", "pressure_bubblepoint"})
    # C12-h: the bubble-point behaviour of the array forms is that of the scalar forms (array arm == scalar arm, masks
    # split at the same predicate) - shared with C11-b/c
    # C12-i: the undersaturated compressibility that carries Bo above the bubble point is one correlation over the whole
    # range: no partition of its inputs (a validity window, a fallback) answers with another formula - Bo would stop
    # falling, or jump, where the two meet
    SPQ = OIL + "oil_compressibility_undersat_Spivey"
    if SPQ in P.functions:
        ctx.touch(SPQ)
        try:
            only(run(ctx, SPQ, opaque={PBQ}), "oil_compressibility_undersat_Spivey", ctx, "C12-i")
            ctx.ok("C12-i", SPQ + ":one correlation", P.func(SPQ).where(), "every returning partition of the undersaturated compressibility returns the same term")
        except AnalysisError as e:
            ctx.notes.append(f"C12-i not evaluated: {e}")
    from .c11 import check_split

    check_split(ctx, "C12-h", "C12-h")

    # ---- C12-g ordering clauses decided by sign (the numerical margin is proved by interval branch and bound over a
    # declared range; the Spivey compressibility itself is an opaque positive quantity here - its positivity is not decided)
    from .. import signs
    from ..values import Num as _Num

    SP, BOB, RQ = OIL + "oil_compressibility_undersat_Spivey", OIL + "b_o_bubblepoint_Standing", OIL + "solution_gor_Standing"
    fb = P.func(OIL + "b_o_Standing")
    ups = [p for p in returns(run(ctx, OIL + "b_o_Standing", opaque={PBQ, SP, BOB})) if p.decisions and p.decisions[-1][1]]
    n_g = 0
    for p in ups:
        v = p.value.nf if isinstance(p.value, _Num) else {}
        bob = [a for a in nf.atoms(v) if a[0] == "fn" and a[1] == BOB]
        x = nf.log(nf.div(v, nf.atom_poly(bob[0]))) if len(set(bob)) == 1 else None
        ok = False
        shown = ""
        if x is not None and not nf.fn_atoms(x, "log"):
            # x is the exponent of Bo / Bo_b; above the bubble point (pressure = p_b + d, d > 0) it must be negative
            d = nf.sym("@d")
            xs = nf.subst_sym(x, {"pressure": nf.add(pb_atom, d)})
            shown = nf.show(xs, 300)
            ok = positive(nf.neg(xs), pos_fns={SP, PBQ, BOB})
        n_g += 1
        ctx.check(
            ok, "C12-g", OIL + "b_o_Standing:falls above the bubble point", fb.where(),
            "above the bubble point Bo / Bo_b == exp(x) with x < 0 for a positive undersaturated compressibility (Bo does not exceed its bubble-point value: it falls above p_b)",
            signature="sign of the undersaturated exponent", exponent_at_pb_plus_d=shown,
        )
    OIL_BOX = {"api_gravity": (10.0, 55.0), "temperature": (60.0, 350.0), "@Rs": (0.0, 3000.0)}
    ctx.assume("declared range for the oil viscosity clauses: " + ", ".join(f"{k} in {v}" for k, v in OIL_BOX.items()) + " (API, deg F, scf/bbl)")
    fvis = P.func(OIL + "viscosity_beggs_robinson")
    UP_BOX = dict(OIL_BOX, **{"pressure": (14.7, 20000.0), "@pb": (14.7, 10000.0), "solution_gor_initial": (0.0, 3000.0)})
    from .common import wrapper_stubs

    vstubs = {RQ: lambda b: _Num(nf.sym("@Rs")), PBQ: lambda b: _Num(nf.sym("@pb"))}
    # a private worker through which solution_gor_Standing obtains its value is the solution GOR too, when it is called
    # with what solution_gor_Standing would hand it for the same fluid
    vstubs.update(wrapper_stubs(ctx, RQ, vstubs[RQ], {PBQ: vstubs[PBQ]}))
    vp = returns(run(ctx, OIL + "viscosity_beggs_robinson", stubs=vstubs))
    for p in vp:
        if not p.decisions or not isinstance(p.value, _Num):
            continue
        v = p.value.nf
        if p.decisions[-1][1]:
            if set(nf.symbols(v)) - set(UP_BOX):
                raise AnalysisError(f"viscosity_beggs_robinson: undersaturated arm depends on {sorted(set(nf.symbols(v)) - set(UP_BOX))}")
            s0, i0 = signs.decide(v, UP_BOX, want="+", max_cells=20000)
            ctx.check(
                s0 == "+", "C12-g", OIL + "viscosity_beggs_robinson:positive above the bubble point", fvis.where(),
                "the undersaturated viscosity is positive over the declared range", signature="sign", cells=i0.get("cells"), detail={k: str(x)[:100] for k, x in i0.items() if k != "cells"},
            )
        else:
            if set(nf.symbols(v)) - set(OIL_BOX):
                raise AnalysisError(f"viscosity_beggs_robinson: saturated arm depends on {sorted(set(nf.symbols(v)) - set(OIL_BOX))} besides Rs, API and T")
            s1, i1 = signs.decide(v, OIL_BOX, want="+", max_cells=20000)
            ctx.check(s1 == "+", "C12-g", OIL + "viscosity_beggs_robinson:positive below the bubble point", fvis.where(), "the saturated viscosity is positive over the declared range", signature="sign", cells=i1.get("cells"), detail={k: str(x)[:100] for k, x in i1.items() if k != "cells"})
            s2, i2 = signs.decide(nf.diff(v, "@Rs"), OIL_BOX, want="-", max_cells=20000)
            ctx.check(
                s2 == "-", "C12-g", OIL + "viscosity_beggs_robinson:falls with dissolved gas", fvis.where(),
                "below the bubble point d(viscosity)/d(Rs) < 0 over the declared range; with dRs/dp > 0 (C12-d) viscosity falls with pressure",
                signature="sign of dmu/dRs", cells=i2.get("cells"), detail={k: str(x)[:100] for k, x in i2.items() if k != "cells"},
            )
        n_g += 1
    ctx.floor("C12-g", n_g, 3, "ordering clauses")
