"""Shared reconstruction of the time-stepping kernels of reservoir.py (C01 C02 C03 C04 C10 C17)."""
from __future__ import annotations

from .. import nf
from ..model import AnalysisError, unreachable_after_raise
from ..values import Arr2, ExtObj, J, Num, TupV, Vec
from .common import RES, interp, returns

N = nf.sym("@N")
R = nf.sym("@r")

DIRECT_SOLVERS = {
    "scipy.sparse.linalg.spsolve", "scipy.linalg.solve_banded", "scipy.linalg.solve", "numpy.linalg.solve",
    "scipy.sparse.linalg.splu", "scipy.sparse.linalg.factorized", "scipy.linalg.solveh_banded", "scipy.linalg.lu_solve",
    "scipy.sparse.linalg.splu.solve",
}
ITERATIVE_SOLVERS = {
    "scipy.sparse.linalg." + n
    for n in ("bicgstab", "bicg", "cg", "cgs", "gmres", "lgmres", "minres", "qmr", "gcrotmk", "tfqmr")
}

SIM_CLASSES = ["IdealReservoir", "SinglePhaseReservoir", "TwoPhaseReservoir"]  # concrete classes: methods resolved through each MRO


def k_atom(pos):
    return nf.fn("k", pos)


def build_matrix_rows(ctx, it=None):
    """Run _build_matrix on a generic vector k of length N; return (rows, diags ExtObj).
    rows: {row label: {offset: coefficient NF}} for r in 0, 1, r (generic), N-2, N-1."""
    q = RES + "_build_matrix"
    ctx.touch(q)
    it = it or interp(ctx)
    fi = ctx.P.func(q)
    kvec = lambda: Vec(k_atom(nf.sym(J)), N)

    def matrix_of(v):
        v = normalise_matrix(v)
        if isinstance(v, TupV):
            # the helper hands back the matrix together with something else (a named pair, say)
            ms = [normalise_matrix(x) for x in v.items]
            ms = [x for x in ms if isinstance(x, ExtObj) and x.qual == "scipy.sparse.diags"]
            if len(ms) == 1:
                return ms[0]
        return v

    params = [p_ for p_ in fi.params + fi.kwonly if p_ not in fi.defaults()]
    if params == ["kt_h2"] or "kt_h2" in params:
        paths = returns(it.run_function(q, args={"kt_h2": kvec}))
    else:
        # a private helper: its parameters are its own business.  The statement is about the matrix it assembles for a
        # coefficient vector k; with one parameter carrying a generic vector and the scalar ones at 1 the product it
        # forms inside is k (which k a simulate hands it is decided on the assembled step, C04-b / the solved-matrix clause)
        runs = []
        for cand in params:
            try:
                ps = returns(it.run_function(q, args={p_: (kvec if p_ == cand else (lambda: Num(nf.ONE))) for p_ in params}))
            except (AnalysisError, nf.NFError):
                continue
            for p_ in ps:
                p_.value = matrix_of(p_.value)
            if ps and all(isinstance(p_.value, ExtObj) and p_.value.qual == "scipy.sparse.diags" for p_ in ps):
                try:
                    sig = [{lab: {k: nf.key(v) for k, v in row.items()} for lab, row in rows_of(p_.value, N).items()} for p_ in ps]
                except AnalysisError:
                    continue
                if any("k(" in nf.show(v_, 400) for p_ in ps for row in rows_of(p_.value, N).values() for v_ in row.values()):
                    runs.append((sig, ps))
        if not runs or any(r[0] != runs[0][0] for r in runs[1:]):
            raise AnalysisError("_build_matrix: no reading of its parameters as (coefficient vector, scalars) gives one tridiagonal assembly")
        paths = runs[0][1]
    for p_ in paths:
        p_.value = matrix_of(p_.value)
    if len(paths) == 1:
        if not isinstance(paths[0].value, ExtObj) or paths[0].value.qual != "scipy.sparse.diags":
            raise AnalysisError("_build_matrix does not return a scipy.sparse.diags matrix on a single path")
        return rows_of(paths[0].value, N), paths[0].value
    # several partitions (a size threshold, a fast path): every one has to assemble the same matrix
    good, bad = [], []
    for p in sorted(paths, key=lambda p_: sum(1 for _k, c, _d in p_.decisions if c)):
        tag = ", ".join(("" if c else "not ") + d[:60] for _k, c, d in p.decisions)
        if not isinstance(p.value, ExtObj) or p.value.qual != "scipy.sparse.diags":
            bad.append((tag, "does not return a scipy.sparse.diags matrix"))
            continue
        try:
            good.append((tag, rows_of(p.value, N), p.value))
        except AnalysisError as e:
            bad.append((tag, str(e)))
    if not good:
        raise AnalysisError("_build_matrix does not return a readable scipy.sparse.diags matrix on any path")
    main = good[0]
    key = lambda rows: {lab: {k: nf.key(v) for k, v in row.items()} for lab, row in rows.items()}
    for tag, rows, _v in good[1:]:
        if key(rows) != key(main[1]):
            bad.append((tag, "assembles a different matrix"))
    f = ctx.P.func(q)
    seen = ctx.__dict__.setdefault("_bm_seen", set())
    for tag, why in bad:
        if (tag, why) in seen:
            continue
        seen.add((tag, why))
        ctx.bad(
            f"{ctx.prop}-a", q + f":one matrix for every size [{tag}]", f.where(),
            "_build_matrix assembles the same tridiagonal matrix (bands of length n-1, n, n-1 taken from the coefficient vector) for every input; a partition of the inputs that builds something else - or hands scipy bands of another length, which it truncates or rejects - is a different scheme there",
            signature="matrix partition " + why[:80], selected_by=tag, problem=why,
        )
    return main[1], main[2]


def rows_of(diags: ExtObj, n):
    d, o = diags.args.get("diagonals"), diags.args.get("offsets")
    if not isinstance(d, TupV) or not isinstance(o, TupV) or len(d.items) != len(o.items):
        raise AnalysisError("sparse.diags: diagonals and offsets are not literal sequences of equal length")
    pairs = []
    for v, off in zip(d.items, o.items):
        k = nf.as_int(off.nf) if isinstance(off, Num) else None
        if k is None or not isinstance(v, Vec):
            raise AnalysisError("sparse.diags: offset is not an integer literal or diagonal is not a vector")
        if not nf.equal(v.length, nf.sub(n, nf.const(abs(k)))):
            raise AnalysisError(f"sparse.diags: diagonal at offset {k} has length {nf.show(v.length)}, expected n-{abs(k)}")
        pairs.append((k, v))
    labels = {"r=0": nf.const(0), "r=1": nf.const(1), "r": R, "r=n-2": nf.sub(n, nf.const(2)), "r=n-1": nf.sub(n, nf.const(1))}
    rows = {}
    for lab, r in labels.items():
        row = {}
        for k, v in pairs:
            # entry (r, r+k) lives at index min(r, r+k) of the diagonal; it exists iff 0 <= r+k <= n-1
            if lab == "r=0" and k < 0:
                continue
            if lab == "r=1" and k < -1:
                continue
            if lab == "r=n-1" and k > 0:
                continue
            if lab == "r=n-2" and k > 1:
                continue
            pos = r if k >= 0 else nf.add(r, nf.const(k))
            row[k] = nf.add(row.get(k, {}), v.at(pos))
        rows[lab] = row
    return rows


def sim_step(ctx, cls_name, it=None, args=None):
    """Interpret <cls>.simulate; return dict with the solver event, the vector b, the matrix rows,
    the level store, the path and interpreter.  Uses the partition without a cached recovery
    (the first call on a fresh object); the schedule arm is selected by `schedule` (None / given)."""
    q = RES + cls_name + ".simulate"
    f = ctx.P.func(q)
    if unreachable_after_raise(f.node):
        raise AnalysisError(f"{q} is unreachable (starts with raise)")
    ctx.touch(q)
    it = it or interp(ctx)
    paths = returns(it.run_function(q, args=args))
    out = []
    for p in paths:
        sol = []
        for e in p.events:
            if e.kind == "ext_call" and (e.data["callee"] in DIRECT_SOLVERS or e.data["callee"] in ITERATIVE_SOLVERS):
                if e.data["callee"] in FACTORIES:
                    continue  # the factory call itself solves nothing: the calls of its result do
                sol.append(e)
            elif e.kind == "extobj_call" and isinstance(e.data["obj"], ExtObj) and e.data["obj"].qual in FACTORIES and len(e.data["args"]) == 1:
                # solve = factorized(A); x = solve(b): one direct solve with matrix A and right-hand side b
                fac = e.data["obj"]
                e.data.setdefault("callee", fac.qual)
                e.data["args_solve"] = {"A": fac.args.get("A", fac.args.get("0")), "b": e.data["args"][0]}
                sol.append(e)
            elif e.kind == "method_call" and e.data.get("meth") == "solve" and e.data.get("args") and "0" in e.data["args"]:
                # lu = splu(A); x = lu.solve(b): one direct solve with matrix A - or with whatever an earlier iteration
                # left in `lu` (a carried name: the system-carried-over clause then asks what it was built from)
                recv = e.data.get("recv")
                A_ = None
                if isinstance(recv, ExtObj) and recv.qual in LU_FACTORIES:
                    A_ = recv.args.get("A", recv.args.get("0"))
                elif isinstance(recv, Num) and any(s_.endswith("@carried") for s_ in nf.symbols(recv.nf)):
                    A_ = recv
                if A_ is not None:
                    e.data.setdefault("callee", "scipy.sparse.linalg.splu.solve")
                    e.data["args_solve"] = {"A": A_, "b": e.data["args"]["0"]}
                    sol.append(e)
        out.append((p, sol))
    return it, f, out


FACTORIES = {"scipy.sparse.linalg.factorized", "scipy.sparse.linalg.splu", "scipy.linalg.lu_factor"}
LU_FACTORIES = {"scipy.sparse.linalg.splu"}
CONVERSIONS = ("tocsc", "tocsr", "tocoo", "tolil", "todia", "asformat", "copy")


def banded_as_diags(lu, ab):
    """The matrix that LAPACK banded storage describes, as the diags(...) it is:  ab[u + i - j, j] == A[i, j].
    Diagonal d (-l <= d <= u) is row u - d of `ab`; its element k is A[k, k + d] = ab[u - d, k + d] for d >= 0 and
    A[k - d, k] = ab[u - d, k] for d < 0.  Rows of a zeros(...) array that were never written are zero diagonals."""
    from ..values import Arr2

    if not (isinstance(lu, TupV) and len(lu.items) == 2 and all(isinstance(x, Num) and nf.as_int(x.nf) is not None for x in lu.items)):
        return None
    l, u = (nf.as_int(x.nf) for x in lu.items)
    if not isinstance(ab, Arr2) or len(ab.shape) != 2 or nf.as_int(ab.shape[0]) != l + u + 1 or ab.cols or l < 0 or u < 0:
        return None
    n = ab.shape[1]
    diagonals, offsets = [], []
    for d in range(-l, u + 1):
        row = ab.rows.get(nf.key(nf.const(u - d)))
        if row is None:
            if ab.creator not in ("zeros",):
                return None
            row = Vec({}, n, {})
        ln = nf.sub(n, nf.const(abs(d)))
        sh = max(d, 0)
        v = Vec(nf.subst_sym(row.gen, {"@J": nf.add(nf.sym("@J"), nf.const(sh))}), ln, {})
        for _k, (pos, x) in row.over.items():
            np_ = nf.sub(pos, nf.const(sh))
            ip, il = nf.as_int(np_), nf.as_int(nf.sub(np_, ln))
            if (ip is not None and ip < 0) or (il is not None and il >= 0):
                continue  # the unused corner of the banded storage
            if ip is None and il is None:
                return None
            v.over[nf.key(np_)] = (np_, x)
        diagonals.append(v)
        offsets.append(Num(nf.const(d)))
    return ExtObj("scipy.sparse.diags", {"diagonals": TupV(diagonals), "offsets": TupV(offsets)}, ab.node)


def dia_as_diags(A):
    """scipy.sparse.dia_matrix((data, offsets), shape=(n, n)) as the diags(...) it is: row k of `data` holds diagonal
    offsets[k] in column alignment,  data[k, j] == A[j - offsets[k], j]  (the storage of solve_banded with the rows named
    by `offsets`)."""
    from ..values import Arr2

    a1 = A.args.get("arg1") or A.args.get("0")
    if not (isinstance(a1, TupV) and len(a1.items) == 2):
        return None
    data, offs = a1.items
    if not (isinstance(offs, TupV) and all(isinstance(o, Num) and nf.as_int(o.nf) is not None for o in offs.items)):
        return None
    offsets = [nf.as_int(o.nf) for o in offs.items]
    if isinstance(data, TupV) and len(data.items) == len(offsets) and all(isinstance(r, Vec) for r in data.items):
        rows = list(data.items)
    elif isinstance(data, Arr2) and len(data.shape) == 2 and nf.as_int(data.shape[0]) == len(offsets) and not data.cols:
        rows = [data.rows.get(nf.key(nf.const(k))) for k in range(len(offsets))]
        if any(r is None for r in rows):
            return None
    else:
        return None
    n = rows[0].length
    diagonals = []
    for d, row in zip(offsets, rows):
        ln = nf.sub(n, nf.const(abs(d)))
        sh = max(d, 0)
        v = Vec(nf.subst_sym(row.gen, {"@J": nf.add(nf.sym("@J"), nf.const(sh))}), ln, {})
        for _k, (pos, x) in row.over.items():
            np_ = nf.sub(pos, nf.const(sh))
            ip, il = nf.as_int(np_), nf.as_int(nf.sub(np_, ln))
            if (ip is not None and ip < 0) or (il is not None and il >= 0):
                continue
            if ip is None and il is None:
                return None
            v.over[nf.key(np_)] = (np_, x)
        diagonals.append(v)
    return ExtObj("scipy.sparse.diags", {"diagonals": TupV(diagonals), "offsets": TupV([Num(nf.const(d)) for d in offsets])}, A.node)


def _segments(v):
    """the pieces of np.concatenate([...]) / np.hstack([...]) of vectors, or the vector itself"""
    if isinstance(v, Vec):
        return [v]
    if isinstance(v, ExtObj) and v.qual in ("numpy.concatenate", "numpy.hstack", "numpy.r_"):
        seq = v.args.get("0") or v.args.get("arrays") or v.args.get("tup")
        if isinstance(seq, TupV) and all(isinstance(x, Vec) for x in seq.items) and not (set(v.args) - {"0", "arrays", "tup"}):
            return list(seq.items)
    return None


def coo_as_diags(A):
    """coo_matrix((data, (rows, cols)), shape=(n, n)) assembled from triplets, as the diags(...) it is when the triplets
    come band by band: segment s of `rows` / `cols` counts r0 + j / c0 + j (slices of one np.arange) and runs over the
    whole diagonal c0 - r0 (min(r0, c0) == 0, n - |c0 - r0| entries), segment s of `data` holds that diagonal.  Triplets
    at the same place add up, as do diagonals given twice."""
    a1 = A.args.get("arg1") or A.args.get("0")
    shape = A.args.get("shape")
    if not (isinstance(a1, TupV) and len(a1.items) == 2 and isinstance(a1.items[1], TupV) and len(a1.items[1].items) == 2):
        return None
    if not (isinstance(shape, TupV) and len(shape.items) == 2 and all(isinstance(x, Num) for x in shape.items) and nf.equal(shape.items[0].nf, shape.items[1].nf)):
        return None
    n = shape.items[0].nf
    data, rows, cols = _segments(a1.items[0]), _segments(a1.items[1].items[0]), _segments(a1.items[1].items[1])
    if not data or not rows or not cols or not (len(data) == len(rows) == len(cols)):
        return None
    j = nf.sym(J)
    diagonals, offsets = [], []
    for d_, r_, c_ in zip(data, rows, cols):
        if r_.over or c_.over or not (nf.equal(d_.length, r_.length) and nf.equal(d_.length, c_.length)):
            return None
        r0, c0 = nf.as_int(nf.sub(r_.gen, j)), nf.as_int(nf.sub(c_.gen, j))
        if r0 is None or c0 is None or min(r0, c0) != 0:
            return None
        off = c0 - r0
        if not nf.equal(d_.length, nf.sub(n, nf.const(abs(off)))):
            return None
        diagonals.append(d_)
        offsets.append(off)
    return ExtObj("scipy.sparse.diags", {"diagonals": TupV(diagonals), "offsets": TupV([Num(nf.const(d)) for d in offsets])}, A.node)


def normalise_matrix(A):
    """strip format conversions; read DIA storage back as diags"""
    while isinstance(A, ExtObj) and "recv" in A.args and A.qual.rsplit(".", 1)[-1] in CONVERSIONS:
        A = A.args["recv"]
    if isinstance(A, ExtObj) and A.qual in ("scipy.sparse.dia_matrix", "scipy.sparse.dia_array"):
        B = dia_as_diags(A)
        if B is not None:
            return B
    if isinstance(A, ExtObj) and A.qual in ("scipy.sparse.coo_matrix", "scipy.sparse.coo_array", "scipy.sparse.csr_matrix", "scipy.sparse.csc_matrix", "scipy.sparse.csr_array", "scipy.sparse.csc_array"):
        B = coo_as_diags(A)
        if B is not None:
            return B
    if isinstance(A, ExtObj) and A.qual == "scipy.sparse.spdiags":
        # spdiags(data, diags, m, n): the same column-aligned storage as dia_matrix((data, diags))
        data = A.args.get("data") or A.args.get("0")
        offs = A.args.get("diags") or A.args.get("1")
        if data is not None and offs is not None:
            B = dia_as_diags(ExtObj("scipy.sparse.dia_matrix", {"arg1": TupV([data, offs])}, A.node))
            if B is not None:
                return B
    if isinstance(A, ExtObj) and A.qual == "scipy.sparse.diags_array":
        d = A.args.get("diagonals") or A.args.get("0")
        o = A.args.get("offsets") or A.args.get("1")
        if d is not None and o is not None:
            return ExtObj("scipy.sparse.diags", {"diagonals": d, "offsets": o}, A.node)
    return A


def solver_inputs(ev):
    a = ev.data.get("args_solve") or ev.data["args"]
    if ev.data.get("callee") == "scipy.linalg.solve_banded":
        A = banded_as_diags(a.get("l_and_u") or a.get("0"), a.get("ab") or a.get("1"))
        return A, a.get("b") or a.get("2")
    A = a.get("A") or a.get("0")
    b = a.get("b") or a.get("1")
    # a format conversion of the assembled matrix is still that matrix
    return normalise_matrix(A), b


def level_array(p):
    """the 2-D array stored as self.pseudopressure on this path"""
    st = [e for e in p.events if e.kind == "store_attr" and e.data["attr"] == "pseudopressure" and isinstance(e.data["value"], Arr2)]
    return st[-1].data["value"] if st else None


def initial_row(p):
    """explicit vector written to level 0 (None if level 0 was not written with a constant index)"""
    arr = level_array(p)
    if arr is None:
        return None
    return arr.rows.get(nf.key({}))
