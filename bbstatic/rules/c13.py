"""C13 - hand-coded derivative functions equal the true derivatives of their parents.

Every obligation is an exact identity of normal forms: the parent's own code is turned into a
term, differentiated symbolically (product / power / chain rules on the normal form) and
compared with the term of the hand-coded derivative.  No sampling, no step size.
"""
from __future__ import annotations

from .. import nf
from ..model import AnalysisError
from ..values import ExtObj, Num
from .common import GAS, OIL, POSITIVE, WATER, cmp_decisions, interp, only, returns, run

LEVEL = "proof"


def _arms(ctx, qual, opaque=()):
    """{(key, choice) of the bubble-point comparison -> NF of the returned value} in scalar mode."""
    paths = returns(run(ctx, qual, array_mode=False, opaque=opaque))
    out = {}
    for p in paths:
        ds = cmp_decisions(p, "pressure")
        if not isinstance(p.value, Num):
            raise AnalysisError(f"{qual}: non-numeric return value")
        if not ds:
            # the function does not select its result by a comparison of the pressure (min / max / clip of the two
            # arms, say): kept under a key of its own, so that it cannot agree with a sibling that does branch
            out[("no pressure predicate", len(out))] = (p.value.nf, "no comparison of pressure")
            continue
        if not isinstance(p.value, Num):
            raise AnalysisError(f"{qual}: non-numeric return value")
        if len(ds) == 1:
            k, c, d = ds[0]
            if (k, c) in out and out[(k, c)][0] != p.value.nf:
                # the same pressure predicate leads to two different results: some other decision splits the arm
                out[((k, c), ("split", len(out)))] = (p.value.nf, d + " & " + " & ".join(("" if c2 else "not ") + d2 for _k2, c2, d2 in p.decisions if d2 != d))
            else:
                out[(k, c)] = (p.value.nf, d)
        else:  # this function and an inlined callee disagree on the predicate
            out[tuple((k, c) for k, c, _ in ds)] = (p.value.nf, " & ".join(("" if c else "not ") + d for _k, c, d in ds))
    return out


def check(ctx):
    P = ctx.P
    ctx.assume(POSITIVE)
    ctx.assume("float rounding of the implementation is out of scope: literals are read exactly from their source text")

    # the source-level clauses first (numpy's masked-assignment helpers, np.vectorize): what they find stands even where
    # a rewritten function leaves the fragment the term rules below can interpret
    from .dtypes import check_masked_calls

    check_masked_calls(ctx, "C13-h", ["bluebonnet.fluids.oil", "bluebonnet.fluids.water", "bluebonnet.fluids.fluid"])
    from .dtypes import check_vectorize

    check_vectorize(ctx, "C13-g", ["bluebonnet.fluids.oil", "bluebonnet.fluids.water"])
    # ---- C13-a water
    par = only(run(ctx, WATER + "b_water_McCain"), "b_water_McCain", ctx, "C13-a")
    der = only(run(ctx, WATER + "b_water_McCain_dp"), "b_water_McCain_dp", ctx, "C13-a")
    f = P.func(WATER + "b_water_McCain_dp")
    ctx.identity(
        "C13-a", WATER + "b_water_McCain_dp:return", f.where(),
        "d/dpressure b_water_McCain == b_water_McCain_dp (polynomial identity in Q[p,T])",
        nf.diff(par.value.nf, "pressure"), der.value.nf,
    )

    # ---- C13-a (options added later): parent and derivative are two functions of the same arguments - when both gain an
    # optional parameter, the identity has to hold for every value of it, not only at the default (at which the rest of
    # the checks evaluate new parameters): a pressure-dependent factor multiplied into both breaks the product rule
    it_free = interp(ctx)
    it_free.pin_defaults = False
    fpar, fder = P.func(WATER + "b_water_McCain"), P.func(WATER + "b_water_McCain_dp")
    if set(fpar.params) != {"temperature", "pressure"} or set(fder.params) != {"temperature", "pressure"}:
        par_f = only(it_free.run_function(WATER + "b_water_McCain"), "b_water_McCain", ctx, "C13-a")
        it_free2 = interp(ctx)
        it_free2.pin_defaults = False
        der_f = only(it_free2.run_function(WATER + "b_water_McCain_dp"), "b_water_McCain_dp", ctx, "C13-a")
        ctx.identity(
            "C13-a", WATER + "b_water_McCain_dp:return for every option value", f.where(),
            "d/dpressure b_water_McCain == b_water_McCain_dp with every parameter (including later additions) symbolic",
            nf.diff(par_f.value.nf, "pressure"), der_f.value.nf,
        )

    # ---- C13-i the hand-coded derivatives are closed forms: none of them evaluates a function of the package at two
    # arguments that differ by a constant step and subtracts (a finite difference is the derivative only in real
    # arithmetic - for a quadratic parent, say; in doubles the subtraction cancels all but ~ eps * |f| / (h |f'|) digits,
    # which the property's "equal the derivatives of their parents" to rounding error does not survive)
    for dq in (WATER + "b_water_McCain_dp", OIL + "db_o_dgor_Standing", OIL + "dgor_dpressure_Standing"):
        fd = P.func(dq)
        found = []
        for p_ in run(ctx, dq):
            calls = {}
            for e in p_.events:
                if e.kind == "int_call":
                    calls.setdefault(e.data["callee"], []).append(e)
            for callee, evs in calls.items():
                for i1 in range(len(evs)):
                    for i2 in range(i1 + 1, len(evs)):
                        a1, a2 = evs[i1].data["args"], evs[i2].data["args"]
                        if set(a1) != set(a2):
                            continue
                        shifted = []
                        same = True
                        for k in a1:
                            if not (isinstance(a1[k], Num) and isinstance(a2[k], Num)):
                                same = same and repr(a1[k]) == repr(a2[k])
                                continue
                            d = nf.sub(a1[k].nf, a2[k].nf)
                            if not d:
                                continue
                            if nf.is_const(d):
                                shifted.append(f"{k}: step {nf.show(d, 30)}")
                            else:
                                same = False
                        if same and len(shifted) == 1:
                            found.append(f"{callee.split('.')[-1]} at two arguments ({shifted[0]}), lines {evs[i1].line}/{evs[i2].line}")
        ctx.check(
            not found, "C13-i", dq + ":closed form", fd.where(),
            "the derivative is a closed-form expression: no package function is evaluated at two arguments a constant step apart (finite differencing)",
            signature="finite difference " + "; ".join(sorted(set(found)))[:140], differences=sorted(set(found))[:4],
        )

    # ---- C13-j one bubble point: the derivative arms and their parents branch at the same floating-point number
    from .common import check_bubble_threshold

    check_bubble_threshold(ctx, "C13-j", [OIL + n_ for n_ in ("solution_gor_Standing", "dgor_dpressure_Standing", "oil_compressibility_Standing", "b_o_Standing")])

    # ---- C13-b dRs/dp
    parent = _arms(ctx, OIL + "solution_gor_Standing")
    deriv = _arms(ctx, OIL + "dgor_dpressure_Standing")
    f = P.func(OIL + "dgor_dpressure_Standing")
    same = set(parent) == set(deriv)
    ctx.check(
        same, "C13-b", OIL + "dgor_dpressure_Standing:branch-predicate", f.where(),
        "derivative and parent branch on the same bubble-point predicate (so the derivative is 0 exactly where Rs is constant)",
        parent_predicates=sorted(str(d[1])[:200] for d in parent.values()),
        derivative_predicates=sorted(str(d[1])[:200] for d in deriv.values()),
        signature="predicates differ",
    )
    if same:
        for kc in sorted(parent, key=repr):
            arm = "at/above bubble point" if kc[1] else "below bubble point"
            ctx.identity(
                "C13-b", OIL + f"dgor_dpressure_Standing:{arm}", f.where(),
                f"d/dpressure solution_gor_Standing == dgor_dpressure_Standing ({arm})",
                nf.diff(parent[kc][0], "pressure"), deriv[kc][0],
            )

    # ---- C13-c dBo/dRs
    par = only(run(ctx, OIL + "b_o_bubblepoint_Standing"), "b_o_bubblepoint_Standing", ctx, "C13-c")
    der = only(run(ctx, OIL + "db_o_dgor_Standing"), "db_o_dgor_Standing", ctx, "C13-c")
    f = P.func(OIL + "db_o_dgor_Standing")
    ctx.identity(
        "C13-c", OIL + "db_o_dgor_Standing:return", f.where(),
        "d/dsolution_gor_initial b_o_bubblepoint_Standing == db_o_dgor_Standing",
        nf.diff(par.value.nf, "solution_gor_initial"), der.value.nf,
    )

    # ---- C13-d/e assembly of the all-pressure oil compressibility
    q = OIL + "oil_compressibility_Standing"
    f = P.func(q)
    arms = _arms(ctx, q, opaque={GAS + "b_factor_DAK"})
    spivey = only(run(ctx, OIL + "oil_compressibility_undersat_Spivey"), "oil_compressibility_undersat_Spivey", ctx, "C13-e")
    same = set(arms) == set(parent)
    ctx.check(
        same, "C13-e", q + ":branch-predicate", f.where(),
        "oil_compressibility_Standing branches on the same bubble-point predicate as solution_gor_Standing",
        signature="predicates differ",
    )
    for kc, (val, _d) in sorted(arms.items(), key=repr):
        if kc not in parent:
            continue
        k, c = kc
        if c:
            ctx.identity(
                "C13-e", q + ":at/above bubble point", f.where(),
                "at and above the bubble point the result is oil_compressibility_undersat_Spivey of the function's own arguments",
                val, spivey.value.nf,
            )
        else:
            if (k, c) not in parent:
                continue
            rs = parent[(k, c)][0]  # Rs(p) below the bubble point
            drs = nf.diff(rs, "pressure")
            bo = only(run(ctx, OIL + "b_o_bubblepoint_Standing"), "b_o_bubblepoint_Standing", ctx, "C13-e").value.nf
            dbo = nf.subst_sym(nf.diff(bo, "solution_gor_initial"), {"solution_gor_initial": rs})
            bg_atoms = [a for a in nf.fn_atoms(val) if a[1] == GAS + "b_factor_DAK"]
            want = [nf.key(nf.sym(n)) for n in ("temperature", "pressure", "temperature_pseudocritical", "pressure_pseudocritical", "temperature_standard", "pressure_standard")]
            ok_bg = len({a for a in bg_atoms}) == 1 and list(bg_atoms[0][2]) == want
            ctx.check(
                ok_bg, "C13-e", q + ":gas FVF arguments", f.where(),
                "the saturated branch uses the library's b_factor_DAK with the function's own (T, p, Tpc, ppc, Tsc, psc)",
                found=[nf.show(nf.atom_poly(a), 300) for a in bg_atoms], signature="b_factor_DAK arguments",
            )
            if not ok_bg:
                continue
            bg = nf.atom_poly(bg_atoms[0])
            core = nf.mul(nf.sub(bg, dbo), drs)
            cands = {
                "b_o_bubblepoint_Standing(Rs_initial)": bo,
                "b_o_bubblepoint_Standing(Rs(p)) = Bo(p)": nf.subst_sym(bo, {"solution_gor_initial": rs}),
            }
            hit = None
            for name, b in cands.items():
                if nf.equal(nf.mul(val, b), core):
                    hit = name
                    break
            if hit:
                ctx.ok(
                    "C13-e", q + ":below bubble point", f.where(),
                    "below the bubble point the result is (Bg - dBo/dRs(Rs(p))) * dRs/dp / Bo with the exact derivatives of the parents",
                    divisor=hit, value=nf.show(val, 400),
                )
            else:
                b = cands["b_o_bubblepoint_Standing(Rs_initial)"]
                d = nf.sub(nf.mul(val, b), core)
                ctx.bad(
                    "C13-e", q + ":below bubble point", f.where(),
                    "below the bubble point the result is (Bg - dBo/dRs(Rs(p))) * dRs/dp / Bo with the exact derivatives of the parents",
                    signature=nf.show(d, 300), residual=nf.show(d, 700), value=nf.show(val, 400),
                )
    # ---- C13-f a pressure *table* gets the same derivative as its entries one by one: whatever branch the functions
    # take for a non-scalar pressure returns one of the terms the scalar evaluation returns (no finite-difference
    # approximation of the parent slipped in for arrays)
    for qd, opq in ((WATER + "b_water_McCain_dp", set()), (OIL + "dgor_dpressure_Standing", set()), (OIL + "db_o_dgor_Standing", set())):
        fd = P.func(qd)
        scal = {nf.key(p_.value.nf) for p_ in returns(run(ctx, qd, opaque=opq)) if isinstance(p_.value, Num)}
        arr = [p_ for p_ in returns(run(ctx, qd, opaque=opq, array_mode=True))]
        odd = [p_ for p_ in arr if not isinstance(p_.value, Num) or nf.key(p_.value.nf) not in scal]
        # masked result buffers are the business of C11; only a different *term* is reported here
        odd = [p_ for p_ in odd if isinstance(p_.value, (Num, ExtObj))]
        ctx.check(
            not odd, "C13-f", qd + ":array evaluation", fd.where(),
            "for a non-scalar pressure the function returns the same term as for a scalar (entry by entry the exact derivative of the parent)",
            signature="array branch differs", array_only=[nf.show(p_.value.nf, 200) if isinstance(p_.value, Num) else str(p_.value)[:200] for p_ in odd[:2]],
        )
    # ---- C13-k: "at every input" includes integer pressure arrays and pressure arrays of any shape: the parents and the
    # derivative functions form no integer-typed intermediate that can leave the int32 range (numpy wraps silently, the
    # derivative function - or the scalar call - does not), and the parent of the GOR derivative fills its array
    # result element by element (masks, not row numbers).  Shared with C11-f / C11-b.
    from .. import intrange
    from .c11 import check_split

    if not intrange.selftest():
        raise AnalysisError("integer-range analysis failed its built-in example")
    for q_ in (WATER + "b_water_McCain", WATER + "b_water_McCain_dp", OIL + "solution_gor_Standing", OIL + "dgor_dpressure_Standing", OIL + "b_o_bubblepoint_Standing", OIL + "db_o_dgor_Standing"):
        fi_ = P.functions.get(q_)
        if fi_ is None:
            continue
        fs = intrange.analyse_function(fi_.node)
        ctx.check(
            not fs, "C13-k", q_ + ":integer intermediates", fi_.where(),
            "with an integer pressure array (int32) and integer scalars, every product/power formed before a float operand joins stays below 2^31 over the declared input box: the parent's values (hence its derivative) are otherwise wrong where the derivative function is right",
            signature="; ".join(x.expr for x in fs)[:160], overflowing=[f"line {x.node.lineno}: {x.expr} may reach {x.bound:.3g}" for x in fs],
        )
    import ast as _ast

    split_names = ["solution_gor_Standing"]
    for cand in ("oil_compressibility_Standing", "dgor_dpressure_Standing"):
        fi_ = P.functions.get(OIL + cand)
        if fi_ is not None and any(isinstance(n_, _ast.Call) and _ast.unparse(n_.func).split(".")[-1] in ("ndim", "isscalar") and n_.args and _ast.unparse(n_.args[0]) == "pressure" for n_ in _ast.walk(fi_.node)):
            split_names.append(cand)  # the function has acquired an array branch: it has to agree with the scalar one
    check_split(ctx, "C13-k", "C13-k", names=split_names)
    ctx.floor("C13", len(ctx.obligs), 8, "derivative obligations")
