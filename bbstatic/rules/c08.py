"""C08 - all pseudopressure routes agree and are strictly increasing in pressure.

Decided: (a) the three routes (adaptive quadrature in gas.pseudopressure_Hussainy, the tabulating
builder fluid.build_pvt_gas, the stand-alone transform fluid.pseudopressure) integrate the same
integrand 2 p / (mu Z), with mu and Z evaluated at the integration variable; (b) quadrature roles:
quad(func, a = reference pressure, b = pressure), cumulative_trapezoid(y = integrand, x = pressure
grid, initial = 0).  Monotonicity / additivity then follow for exact integration of a positive
integrand.  Not decided: quadrature accuracy.
"""
from __future__ import annotations

from .. import nf
from ..model import AnalysisError
from ..values import ExtObj, FuncV, Num, Vec
from .common import FLUID, GAS, QUADRATURE, check_quadrature, interp, only, returns, run

LEVEL = "other"
Q = "@q"  # the integration variable


def check(ctx):
    P = ctx.P
    VQ, ZQ = GAS + "viscosity_Sutton", GAS + "z_factor_DAK"
    two = nf.const(2)

    # ---- route 1: adaptive quadrature
    qh = GAS + "pseudopressure_Hussainy"
    fh = P.func(qh)
    it = interp(ctx, opaque={VQ, ZQ})
    ctx.touch(qh)
    p = only(it.run_function(qh), qh, ctx, "C08-b")
    evs = [e for e in p.events if e.kind == "ext_call" and e.data["callee"] == "scipy.integrate.quad"]
    if len(evs) != 1:
        raise AnalysisError(f"{qh}: expected one quad call, found {len(evs)}")
    a = evs[0].data["args"]
    where = f"{fh.file}:{evs[0].line}"
    lo, hi = a.get("a"), a.get("b")
    ok = isinstance(lo, Num) and isinstance(hi, Num) and lo.nf == nf.sym("pressure_standard") and hi.nf == nf.sym("pressure")
    ctx.check(
        ok, "C08-b", qh + ":quad limits", where,
        "quad integrates from the reference (standard) pressure up to the requested pressure: zero at the reference, positive above",
        signature="quad limits", a=str(lo), b=str(hi),
    )
    from .common import check_tolerances

    check_tolerances(
        ctx, "C08-f", qh + ":quad tolerances", where, a, {"epsabs": ("max", "1e-6"), "epsrel": ("max", "1e-6"), "limit": ("min", 50)},
        "the adaptive quadrature keeps its default (1.49e-8) or explicit tolerances of at most 1e-6 and at least 50 subintervals: the three routes agree to quadrature accuracy",
    )
    fv = a.get("func")
    from ..values import LambdaV, PartialV, TupV

    if not isinstance(fv, (FuncV, PartialV, LambdaV)):
        raise AnalysisError(f"{qh}: the quad integrand is not a function, a partial or a lambda of the package")
    fi = fv.info if isinstance(fv, FuncV) else fh
    ctx.touch(fi.qualname)
    # compared by value: only the z-factor (a numerical root) is kept as an atom; the library's viscosity is evaluated at the
    # integration variable and must appear - whether the integrand calls viscosity_Sutton or a worker it shares with it.
    # The integrand is evaluated the way quad calls it, f(q, *args), inside the trace that built it (a closure, a
    # module-level function with args=, a functools.partial with keywords are then the same thing)
    itc = interp(ctx, opaque={ZQ})

    def run_integrand(x):
        x.enter(fh, x.symbolic_args(fh), None, None, None)
        qe = [e for e in x.events if e.kind == "ext_call" and e.data["callee"] == "scipy.integrate.quad"]
        if not qe:
            return None  # a partition that answers without integrating: judged above (C08-b), no integrand here
        if len(qe) != 1:
            raise AnalysisError(f"{qh}: expected one quad call")
        f_, extra = qe[0].data["args"].get("func"), qe[0].data["args"].get("args")
        more = list(extra.items) if isinstance(extra, TupV) else ([] if extra is None else [extra])
        x.log("marker", qe[0].node, name="integrand evaluation")
        return x.call(f_, [Num(nf.sym(Q))] + more, {}, qe[0].node, None)

    pc = only([q_ for q_ in itc.explore(run_integrand) if any(e.kind == "marker" and e.data.get("name") == "integrand evaluation" for e in q_.events)], qh + ":integrand", ctx, "C08-a")
    own = ["temperature", Q, "temperature_pseudocritical", "pressure_pseudocritical"]
    z = nf.fn(ZQ, *[nf.sym(n) for n in own])
    mu_q = only(run(ctx, VQ, opaque={ZQ}, args={"pressure": Num(nf.sym(Q))}), VQ, ctx, "C08-a").value.nf
    ctx.identity(
        "C08-a", qh + ":integrand", fi.where(),
        "integrand == 2 q / (viscosity_Sutton(T, q, ...) * z_factor_DAK(T, q, ...)) with q the integration variable (not the outer pressure)",
        pc.value.nf if isinstance(pc.value, Num) else nf.sym("?"), nf.div(nf.mul(two, nf.sym(Q)), nf.mul(mu_q, z)),
    )
    res = evs[0].data["result"]
    rv = itc.to_nf(p.value) if p.value is not None else {}
    at = it.single_atom(it.to_nf(p.value))
    ctx.check(
        at is not None and at[0] == "fn" and "scipy.integrate.quad" in at[1], "C08-b", qh + ":return", fh.where(),
        "the function returns the integral computed by quad (first element of its result)", signature="return", value=nf.show(it.to_nf(p.value), 200),
    )

    # ---- route 2: stand-alone transform
    qs = FLUID + "pseudopressure"
    fs = P.func(qs)
    its = interp(ctx)
    ctx.touch(qs)
    from .common import each

    # every distinct result (a fast path written out by hand next to the library call, say) has to be the integral
    for vtag, ps in each(its.run_function(qs), qs):
        evs = [e for e in ps.events if e.kind == "ext_call" and e.data["callee"] in QUADRATURE]
        if len(evs) > 1:
            raise AnalysisError(f"{qs}: expected one quadrature call")
        higher = [e for e in ps.events if e.kind == "ext_call" and e.data["callee"] in ("scipy.integrate.cumulative_simpson", "scipy.integrate.simpson", "scipy.integrate.simps", "scipy.integrate.romb")]
        if not evs and higher:
            # Simpson-type composite rules have negative weights on unequal panels: the running integral of a positive
            # tabulated integrand is then not increasing and not additive over sub-tables (the trapezoid rule is both)
            ctx.bad(
                "C08-b", qs + ":quadrature rule" + vtag, f"{fs.file}:{higher[0].line}",
                "the tabulated transform is the cumulative trapezoid rule over the given pressures (positive weights: increasing for a positive integrand, additive over sub-tables, equal to the builder's column)",
                signature="rule " + higher[0].data["callee"].split(".")[-1], routine=higher[0].data["callee"],
            )
            continue
        if not evs:
            from .common import handrolled_trapezoid

            st, yv, xv = handrolled_trapezoid(its, its.to_nf(ps.value), {"pressure"})
            if st == "none":
                vn = its.to_nf(ps.value)
                names = {a[1] for a in nf.atoms(vn) if a[0] == "fn"}
                if "cumsum" in names and not ({"diff", "numpy.diff"} & names) and not any(a[0] == "fn" and a[1] == "vec" for a in nf.atoms(vn)):
                    # a running sum of the integrand scaled by one global step: the trapezoid rule of an evenly spaced
                    # table only - the transform is defined for the pressure column it is given
                    ctx.bad(
                        "C08-b", qs + ":quadrature over the given pressures" + vtag, fs.where(),
                        "the cumulative integral uses the spacing of the pressure column it is given (consecutive differences), not one global step",
                        signature="uniform-step running sum", value=nf.show(vn, 200),
                    )
                    continue
                raise AnalysisError(f"{qs}: neither a library quadrature nor a recognisable hand-written trapezoid rule")
            ctx.check(st == "ok", "C08-b", qs + ":hand-written trapezoid" + vtag, fs.where(), "a hand-written quadrature is the cumulative trapezoid rule sum 1/2 (y[j+1] + y[j]) (x[j+1] - x[j]) over the pressure column with signed differences", signature="hand-written quadrature", reason=yv if st != "ok" else "")
            if st == "ok":
                ctx.identity("C08-a", qs + ":integrand" + vtag, fs.where(), "integrated quantity == 2 * pressure / (viscosity * z_factor) over the function's own columns", yv, nf.div(nf.mul(two, nf.sym("pressure")), nf.mul(nf.sym("viscosity"), nf.sym("z_factor"))))
            evs = None
        where = f"{fs.file}:{evs[0].line}" if evs else fs.where()
        y = check_quadrature(ctx, "C08-b", evs[0], its, {"pressure"}, qs + ":cumulative_trapezoid" + vtag, where) if evs else None
        if evs:
            # the transform receives the caller's arrays: stacked tables (one isotherm per row) are integrated along the
            # pressure axis, which is the last one (the library default) - axis=0 integrates across the tables
            ax = evs[0].data["args"].get("axis")
            ax_ok = ax is None or (isinstance(ax, Num) and nf.as_int(ax.nf) == -1)
            ctx.check(ax_ok, "C08-b", qs + ":integration axis" + vtag, where, "the cumulative integral runs along the last axis (the pressure axis of the caller's arrays), as without an axis argument", signature="axis", axis=str(ax)[:40])
        k = _factor(its, ps.value, evs[0]) if evs else None
        if evs is None:
            pass
        elif y is not None and k is not None:
            ctx.identity(
                "C08-a", qs + ":integrand" + vtag, where,
                "integrated quantity == 2 * pressure / (viscosity * z_factor) over the function's own columns",
                nf.mul(k, y), nf.div(nf.mul(two, nf.sym("pressure")), nf.mul(nf.sym("viscosity"), nf.sym("z_factor"))),
            )
        else:
            ctx.bad("C08-a", qs + ":integrand" + vtag, where, "the function returns a constant multiple of the cumulative integral", signature="return value")


    # ---- route 3: table builder
    qb = FLUID + "build_pvt_gas"
    fb = P.func(qb)
    itb = interp(ctx, opaque={VQ, ZQ, GAS + "density_DAK", GAS + "compressibility_DAK", GAS + "pseudocritical_point_Sutton", GAS + "make_nonhydrocarbon_properties"})
    ctx.touch(qb)
    pb = only(itb.run_function(qb), qb, ctx, "C08-b")
    evs = [e for e in pb.events if e.kind == "ext_call" and e.data["callee"] in QUADRATURE]
    if len(evs) > 1:
        raise AnalysisError(f"{qb}: expected one quadrature call")
    from ..values import DictV

    tbl = pb.value
    col = tbl.items.get("pseudopressure") if isinstance(tbl, DictV) else None
    if evs:
        where = f"{fb.file}:{evs[0].line}"
        y = check_quadrature(ctx, "C08-b", evs[0], itb, {"pressure"}, qb + ":cumulative_trapezoid", where)
        k = _factor(itb, col, evs[0]) if col is not None else None
        xg = evs[0].data["args"].get("x")
    else:
        # no library quadrature: the column has to be a hand-written cumulative trapezoid rule over the pressure grid
        where = fb.where()
        if col is None:
            raise AnalysisError(f"{qb}: no 'pseudopressure' column in the returned table")
        y, k, xg = _handwritten_column(ctx, itb, col, qb, where, tbl)
    if y is not None and k is not None and isinstance(xg, Vec):
        grid = xg.gen
        # mu and Z columns are the correlations evaluated at the grid pressure (bound by name)
        mus = [a for a in nf.atoms(y) if a[0] == "fn" and a[1] == VQ]
        zs = [a for a in nf.atoms(y) if a[0] == "fn" and a[1] == ZQ]
        good = len(set(mus)) == 1 and len(set(zs)) == 1 and nf.unkey(mus[0][2][1]) == grid and nf.unkey(zs[0][2][1]) == grid and mus[0][2][0] == zs[0][2][0]
        ctx.check(
            good, "C08-c", qb + ":table columns", where,
            "the table integrand uses viscosity_Sutton and z_factor_DAK evaluated at the row's own pressure and the table temperature",
            signature="table columns", integrand=nf.show(y, 300),
        )
        if good:
            ctx.identity(
                "C08-a", qb + ":integrand", where,
                "integrated quantity == 2 * p / (mu(p) * Z(p)) over the table's own pressure, viscosity and z-factor columns",
                nf.mul(k, y), nf.div(nf.mul(two, grid), nf.mul(nf.atom_poly(mus[0]), nf.atom_poly(zs[0]))),
            )
    else:
        ctx.bad("C08-a", qb + ":integrand", where, "the 'pseudopressure' column is a constant multiple of the cumulative integral over the pressure grid", signature="pseudopressure column")
    # C08-c: the table is built for the supplied composition (shared with C19-b)
    from .c19 import check_builder

    check_builder(ctx, "C08-c")
    # ---- C08-e: the integrand 2p/(mu Z) is positive (pseudopressure strictly increasing in pressure): mu > 0 and Z > 0
    # over the declared range of the gas correlations (sign decisions by interval branch and bound)
    from .gasdak import isotherm_rules, viscosity_rules

    viscosity_rules(ctx, "C08-e")
    isotherm_rules(ctx, "C08-e")
    ctx.floor("C08", len(ctx.obligs), 9, "pseudopressure route obligations")


def _handwritten_column(ctx, it, col, qb, where, tbl):
    """(ordinate NF per row, constant factor, grid Vec) of a table column computed by a hand-written cumulative
    trapezoid rule over the table's own (explicit) pressure grid:  column == k * concat(0, cumsum(panel_j)) with
    panel_j == 1/2 (Y(x_{j+1}) + Y(x_j)) (x_{j+1} - x_j),  Y(x) = x / (mu(x) Z(x))  for the one viscosity and the one
    Z-factor term evaluated at the grid pressure that occur in the panel."""
    from .common import is_root_variable, zero_start
    VQ, ZQ = GAS + "viscosity_Sutton", GAS + "z_factor_DAK"

    vn = it.to_nf(col)
    grid = tbl.items.get("pressure") if hasattr(tbl, "items") else None
    rule, construct = "C08-b", qb + ":hand-written trapezoid"
    if not (isinstance(grid, Vec) and is_root_variable(it, grid, {"pressure"})):
        raise AnalysisError(f"{qb}: neither a library quadrature call nor a hand-written rule over an explicit pressure grid")
    X = grid.gen
    shift = lambda p: nf.subst_sym(p, {"@J": nf.add(nf.sym("@J"), nf.ONE)})
    gens = []
    for a in nf.atoms(vn):
        if a[0] == "fn" and a[1] in ("cumsum", "numpy.cumsum") and a[2]:
            arg = it.single_atom(nf.unkey(a[2][0]))
            if arg is not None and arg[0] == "fn" and arg[1] == "vec" and len(arg[2]) == 2:
                gens.append(nf.unkey(arg[2][0]))
    if len(gens) != 1:
        raise AnalysisError(f"{qb}: neither a library quadrature call nor a running sum of panels found in the 'pseudopressure' column")
    gen = gens[0]
    Xk = nf.key(X)
    mus = sorted({a for a in nf.atoms(gen) if a[0] == "fn" and a[1] == VQ and len(a[2]) > 1 and a[2][1] == Xk}, key=repr)
    zs = sorted({a for a in nf.atoms(gen) if a[0] == "fn" and a[1] == ZQ and len(a[2]) > 1 and a[2][1] == Xk}, key=repr)
    if len(mus) != 1 or len(zs) != 1:
        ctx.bad(rule, construct, where, "the panels are built from viscosity_Sutton and z_factor_DAK at the row's own pressure", signature="hand-written quadrature: integrand terms", panel=nf.show(gen, 300))
        return None, None, None
    Y = nf.div(X, nf.mul(nf.atom_poly(mus[0]), nf.atom_poly(zs[0])))
    panel = nf.mul(nf.scale(nf.add(shift(Y), Y), nf.F(1, 2)), nf.sub(shift(X), X))
    if not nf.equal(gen, panel):
        ctx.bad(rule, construct, where, "a hand-written quadrature is the cumulative trapezoid rule: panel j == 1/2 (Y[j+1] + Y[j]) (p[j+1] - p[j]) with Y = p / (mu Z) over the table's pressure grid", signature="hand-written quadrature: panel", panel=nf.show(gen, 300))
        return None, None, None
    ctx.ok(rule, construct, where, "hand-written cumulative trapezoid: panels 1/2 (Y[j+1] + Y[j]) (p[j+1] - p[j]) over the table's pressure grid", ordinate=nf.show(Y, 300))
    ctx.check(zero_start(it, vn), rule, construct + ":initial", where, "the running integral is prefixed with a zero (result starts at zero and has the length of the grid)", signature="initial", value=nf.show(vn, 300))
    k = None
    for a in nf.atoms(vn):
        if a[0] == "fn" and a[1].split("{")[0] in ("numpy.concatenate", "numpy.hstack", "numpy.append", "numpy.r_", "numpy.insert"):
            r = nf.div(vn, nf.atom_poly(a))
            if nf.is_const(r) and r:
                k = r
    return Y, k, grid


def _factor(it, value, ev):
    """constant k with value == k * (result of the quadrature event), else None"""
    if value is None:
        return None
    r = nf.div(it.to_nf(value), it.to_nf(ev.data["result"]))
    return r if nf.is_const(r) and r else None
