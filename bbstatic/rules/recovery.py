"""Shared rules on IdealReservoir.recovery_factor (C02, C03) and on the scale helpers."""
from __future__ import annotations

from .. import nf
from ..model import AnalysisError
from ..values import ExtObj, Num
from .c10 import method_paths
from .common import QUADRATURE, RES, check_quadrature, handwritten_quadrature, returns

NX = nf.sym("self.nx")


def _paths(ctx, cls, density):
    it, m, paths = method_paths(ctx, cls, "recovery_factor")
    out = []
    for p in returns(paths):
        d = next((c for _k, c, dd in p.decisions if dd == "density"), None)
        if d is density:
            out.append(p)
    if not out:
        raise AnalysisError(f"{cls}.recovery_factor: no partition with density={density}")
    return it, m, out


def flux_mode(ctx, rule, cls="IdealReservoir"):
    """flux stencil moments, quadrature roles, zero start; returns number of instances checked"""
    it, m, paths = _paths(ctx, cls, False)
    q = RES + cls + ".recovery_factor"
    seen = set()
    n = 0
    for p in paths:
        evs = [e for e in p.events if e.kind == "ext_call" and e.data["callee"] in QUADRATURE]
        if len(evs) > 1:
            raise AnalysisError(f"{q}: expected one quadrature call on the flux path, found {len(evs)}")
        if not evs:
            # no library call: the path may integrate by hand
            vkey = nf.key(it.to_nf(p.value))
            if vkey in seen:
                continue
            seen.add(vkey)
            n += 1
            where = m.where()
            y = handwritten_quadrature(ctx, rule, it, it.to_nf(p.value), {"time", "self.time"}, q + ":time quadrature", where)
            if y is None:
                continue
        else:
            ev = evs[0]
            # the flux samples belong to the simulated time levels: they are integrated over self.time, whatever else
            # the caller passes (a `time` argument in other units, on another grid)
            from .common import QUADRATURE as _Q

            xv = ev.data["args"].get(_Q[ev.data["callee"]][1])
            xkey = ("x", nf.key(it.to_nf(xv)) if xv is not None else None)
            if xv is not None and xkey not in seen:
                seen.add(xkey)
                ctx.check(
                    it.to_nf(xv) == nf.sym("self.time"), rule, q + ":time axis of the flux integral", f"{m.file}:{ev.line}",
                    "the rate is integrated over the simulation's own time levels (self.time) on every path",
                    signature="abscissa " + nf.show(it.to_nf(xv), 60), abscissa=nf.show(it.to_nf(xv), 120), decisions=[("" if c else "not ") + d[:50] for _k, c, d in p.decisions],
                )
            ykey = nf.key(it.to_nf(ev.data["args"].get("y")))
            if ykey in seen:
                continue
            seen.add(ykey)
            n += 1
            where = f"{m.file}:{ev.line}"
            y = check_quadrature(ctx, rule, ev, it, {"time"}, q + ":time quadrature", where)
            if y is None:
                continue
        cols = {}
        for a in nf.atoms(y):
            if a[0] == "fn" and a[1] == "[]" and nf.unkey(a[2][0]) == nf.sym("self.pseudopressure") and len(a[2]) == 3:
                k = nf.as_int(nf.unkey(a[2][2]))
                if k is not None and nf.unkey(a[2][1]) == nf.sym("slice(None,None)"):
                    cols[k] = a
        if len(cols) < 2:
            ctx.bad(rule, q + ":flux stencil", where, "the rate is a finite-difference combination of the first columns of self.pseudopressure", signature="no node columns", rate=nf.show(y, 300))
            continue
        names = {a: f"@c{k}" for k, a in cols.items()}
        ys = nf.subst(y, lambda a: nf.sym(names[a]) if a in names else None)
        ok = False
        detail = {}
        for hname, H in (("nx-1", nf.sub(NX, nf.ONE)), ("nx", NX)):
            w = {k: nf.div(nf.diff(ys, names[a]), H) for k, a in cols.items()}
            if not all(nf.is_const(v) for v in w.values()):
                continue
            lin = {}
            for k, a in cols.items():
                lin = nf.add(lin, nf.mul(nf.mul(w[k], H), nf.sym(names[a])))
            if not nf.is_zero(nf.sub(lin, ys)):
                continue
            ws = {k: nf.cval(v) for k, v in w.items()}
            m0, m1, m2 = sum(ws.values()), sum(k * v for k, v in ws.items()), sum(k * k * v for k, v in ws.items())
            detail = {"weights": {str(k): str(v) for k, v in sorted(ws.items())}, "h_inv": hname, "moments": [str(m0), str(m1), str(m2)]}
            if m0 == 0 and m1 == 1 and m2 == 0:
                ok = True
                break
        ctx.check(
            ok, rule, q + ":flux stencil", where,
            "rate == (1/dx) * sum_k w_k * u[:, k] with constant weights satisfying sum w = 0, sum k w = 1, sum k^2 w = 0 (second-order one-sided du/dx at the fracture face), 1/dx in {nx-1, nx}",
            signature="flux stencil " + str(detail.get("weights", "")), **detail,
        )
    return n


def scale_rule(ctx, rule, cls="IdealReservoir"):
    """recovery == cumulative * fvf_scale(), stored and returned"""
    for density in (False, True):
        it, m, paths = _paths(ctx, cls, density)
        q = RES + cls + ".recovery_factor"
        seen = set()
        for p in paths:
            v = it.to_nf(p.value)
            if nf.key(v) in seen:
                continue
            seen.add(nf.key(v))
            # the attribute is discovered (the one attribute the result is stored under), so a consistent rename is silent
            st = [e for e in p.events if e.kind == "store_attr" and getattr(e.data.get("base"), "name", None) == "self"]
            same = len(st) == 1 and it.to_nf(st[0].data["value"]) == v
            ctx.check(same, rule, q + f":stored == returned [density={density}]", m.where(), "the returned recovery is the one cached in self.recovery", signature="stored != returned")
            # the scale, by value (whatever the scale method is called and however it is reached through the MRO): the
            # ideal reservoir's recovery carries the factor 1 - p_frac/p_initial and nothing else of the two pressures; a
            # real-fluid reservoir's recovery does not depend on them at all (its pseudopressure scaling carries the factor)
            pf, pi_ = nf.sym("self.pressure_fracface"), nf.sym("self.pressure_initial")
            if cls == "IdealReservoir":
                # v == v0 * (1 - pf/pi) with v0 free of both pressures:  v * pi == v0 * (pi - pf), v0 := v at pf = 0
                v0 = nf.subst_sym(v, {"self.pressure_fracface": {}})
                ok = not nf.depends(v0, "self.pressure_initial") and not nf.depends(v0, "self.pressure_fracface") and nf.is_zero(nf.sub(nf.mul(v, pi_), nf.mul(v0, nf.sub(pi_, pf))))
                what = "recovery == cumulative * (1 - pressure_fracface / pressure_initial) for the ideal reservoir"
            else:
                ok = not nf.depends(v, "self.pressure_fracface") and not nf.depends(v, "self.pressure_initial")
                what = "recovery == cumulative * 1 for a real-fluid reservoir (no explicit dependence on the configured pressures)"
            ctx.check(ok, rule, q + f":scale [density={density}]", m.where(), what, signature="recovery scale", value=nf.show(v, 200))


def fvf_and_alpha(ctx, rule):
    P = ctx.P
    it, m, paths = method_paths(ctx, "IdealReservoir", "fvf_scale")
    p = returns(paths)[0]
    ctx.identity(
        rule, RES + "IdealReservoir.fvf_scale", m.where(), "ideal-gas recovery scale == 1 - pressure_fracface / pressure_initial",
        it.to_nf(p.value), nf.sub(nf.ONE, nf.div(nf.sym("self.pressure_fracface"), nf.sym("self.pressure_initial"))),
    )
    for rcls in ("SinglePhaseReservoir", "TwoPhaseReservoir"):  # each concrete real-fluid class, through its own MRO
        it, m, paths = method_paths(ctx, rcls, "fvf_scale")
        p = returns(paths)[0]
        ctx.identity(rule, RES + rcls + ".fvf_scale", m.where(), "real-fluid recovery scale == 1 (the pseudopressure scaling carries it)", it.to_nf(p.value), nf.ONE)
        it, m, paths = method_paths(ctx, rcls, "alpha_scaled")
        p = returns(paths)[0]
        a = lambda x: nf.fn("self.fluid.alpha", x)
        ctx.identity(
            rule, RES + rcls + ".alpha_scaled", m.where(), "scaled diffusivity == alpha(m) / alpha(m_i) with the fluid's own interpolator",
            it.to_nf(p.value), nf.div(a(nf.sym("pseudopressure")), a(nf.sym("self.fluid.m_i"))),
        )
    it, m, paths = method_paths(ctx, "IdealReservoir", "alpha_scaled")
    p = returns(paths)[0]
    ctx.identity(rule, RES + "IdealReservoir.alpha_scaled", m.where(), "ideal scaled diffusivity == 1", it.to_nf(p.value), nf.ONE)


def density_mode(ctx, rule, cls="SinglePhaseReservoir"):
    it, m, paths = _paths(ctx, cls, True)
    q = RES + cls + ".recovery_factor"
    seen = set()
    for p in paths:
        v = it.to_nf(p.value)
        if nf.key(v) in seen:
            continue
        seen.add(nf.key(v))
        evs = [e for e in p.events if e.kind == "ext_call" and e.data["callee"] == "scipy.interpolate.interp1d"]
        if len(evs) != 1:
            raise AnalysisError(f"{q}: expected one interpolator on the density path")
        a = evs[0].data["args"]
        where = f"{m.file}:{evs[0].line}"
        col = lambda k: nf.fn("[]", nf.sym("self.fluid.pvt_props"), nf.sym(repr(k)))
        ok = it.to_nf(a.get("x")) == col("m-scaled") and it.to_nf(a.get("y")) == col("density")
        ctx.check(
            ok, rule, q + ":mass interpolator", where,
            "fluid in place is density as a function of scaled pseudopressure: interp1d(x = pvt_props['m-scaled'], y = pvt_props['density'])",
            signature="mass interpolator roles", x=nf.show(it.to_nf(a.get("x")), 100), y=nf.show(it.to_nf(a.get("y")), 100),
        )
        # cumulative = 1 - M / M[0] with M = sum over nodes (axis 1) of density(self.pseudopressure)
        calls = [e for e in p.events if e.kind == "extobj_call" and e.data["obj"] is evs[0].data["result"]]
        okc = len(calls) == 1 and len(calls[0].data["args"]) == 1 and it.to_nf(calls[0].data["args"][0]) == nf.sym("self.pseudopressure")
        ctx.check(okc, rule, q + ":mass argument", where, "the interpolator is evaluated on the simulated field self.pseudopressure", signature="mass argument")
        sums = [x for x in nf.atoms(v) if x[0] == "fn" and x[1] == "sum"]
        inner = [x for x in sums if len(x[2]) == 2 and nf.as_int(nf.unkey(x[2][1])) == 1]
        if not inner:
            ctx.bad(rule, q + ":mass sum", where, "mass is summed over the nodes (axis 1), giving one value per time level", signature="sum axis", found=[nf.show(nf.atom_poly(x), 120) for x in sums][:3])
            continue
        Mat = inner[0]
        Ms = nf.sym("@M")
        M0 = nf.sym("@M0")

        def g(x):
            if x == Mat:
                return Ms
            if x[0] == "fn" and x[1] == "[]" and len(x[2]) == 2 and nf.unkey(x[2][0]) in (nf.atom_poly(Mat), Ms) and nf.as_int(nf.unkey(x[2][1])) == 0:
                return M0
            return None

        vs = nf.subst(v, g)
        its, ms, sp = method_paths(ctx, cls, "fvf_scale")
        scale = its.to_nf(returns(sp)[0].value)
        ctx.identity(
            rule, q + ":in-place recovery", m.where(),
            "recovery == (1 - M / M[0]) * fvf_scale(): zero at the first level by construction",
            vs, nf.mul(nf.sub(nf.ONE, nf.div(Ms, M0)), scale),
        )
