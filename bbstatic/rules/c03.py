"""C03 - recovery factor conserves mass and respects its physical ceiling.

Agreement of the two recovery modes to first order is numerical and not decided.  Decided are the
structural necessary conditions: the pseudopressure scaling factor is c*mu*z/(2p) at p_i (it turns
scaled flux into recovered fraction); in-place recovery is 1 - M/M[0] with M the node sum of
density(m-scaled); flux recovery integrates the second-order face flux over the time grid from
zero; both are scaled by fvf_scale().
"""
from __future__ import annotations

from .. import nf
from ..model import AnalysisError
from ..values import DictV, ExtObj, Num
from .common import FP, RES, interp, returns
from .recovery import density_mode, flux_mode, fvf_and_alpha, scale_rule

LEVEL = "other"


def col(k, table="pvt_props"):
    return nf.fn("[]", nf.sym(table), nf.sym(repr(k)))


def scaling_factor(ctx, rule):
    """C03-a on FlowProperties.__init__ (partition without a user 'alpha' column)"""
    q = FP + "FlowProperties.__init__"
    f = ctx.P.func(q)
    ctx.touch(q)
    it = interp(ctx)
    paths = returns(it.run_function(q))
    n = 0
    for p in paths:
        has_alpha = next((c for _k, c, d in p.decisions if d == "'alpha' in pvt_props"), None)
        if has_alpha is not False:
            continue
        n += 1
        st = [e for e in p.events if e.kind == "store_sub" and isinstance(e.data["index"], type(None)) is False and it.to_nf(e.data["index"]) == nf.sym("'m-scaled'")]
        if len(st) != 1:
            raise AnalysisError(f"{q}: expected one store of the 'm-scaled' column")
        val = it.to_nf(st[0].data["value"])
        where = f"{f.file}:{st[0].line}"
        ratio = nf.div(val, col("pseudopressure"))
        at = it.single_atom(ratio)
        scale = nf.ONE
        if at is None and len(ratio) == 1:
            # c * interp1d(x, y)(p_i) with a rational constant c: the piecewise-linear interpolant is homogeneous in
            # its ordinates, this is interp1d(x, c y)(p_i) (the table may be kept in another scaling and the factor undone)
            ((m_, c_),) = ratio.items()
            if len(m_) == 1 and m_[0][1] == nf.KONE:
                at, scale = m_[0][0], nf.const(c_)
        ok = at is not None and at[0] == "fn" and at[1].startswith("call:scipy.interpolate.interp1d") and len(at[2]) >= 3
        if not ok:
            ctx.bad(rule, q + ":m-scaled", where, "m-scaled == pseudopressure * (scaling interpolated at p_i)", signature="m-scaled", ratio=nf.show(ratio, 200))
            continue
        names = at[1][at[1].index("{") + 1 : at[1].index("}")].split(",")
        argmap = dict(zip(names, [nf.unkey(a) for a in at[2][: len(names)]]))
        query = nf.unkey(at[2][-1])
        ctx.check(
            argmap.get("x") == col("pressure") and query == nf.sym("p_i") and set(names) == {"x", "y"}, rule, q + ":scaling lookup", where,
            "the scaling factor is interpolated over the pressure column (raising outside the table) and evaluated at the initial pressure",
            signature="scaling lookup", x=nf.show(argmap.get("x", {}), 80), query=nf.show(query, 40), options=names,
        )
        want = nf.div(nf.mul(nf.mul(col("compressibility"), col("viscosity")), col("z-factor")), nf.mul(nf.const(2), col("pressure")))
        ctx.identity(rule, q + ":scaling factor", where, "pseudopressure scaling == compressibility * viscosity * z-factor / (2 * pressure)", nf.mul(scale, argmap.get("y", {})), want)
    ctx.floor(rule, n, 1, "FlowProperties partitions without alpha")


def check(ctx):
    # ---- C03-n the configuration (p_frac, p_initial, nx, fluid) is not rewritten by simulate / recovery calls (the
    # ceiling 1 - rho_f / rho_i is that of the object's own settings, whatever was run on it before)
    from .c10 import family_rules

    try:
        family_rules(ctx, {"b": "C03-n"})
    except AnalysisError as e:  # the clause cannot be evaluated on this tree: the property's own rules still run
        ctx.notes.append(f"C03-n not evaluated: {e}")
    from .common import check_sorted_lookups

    check_sorted_lookups(ctx, "C03-f", ["bluebonnet.flow.reservoir", "bluebonnet.flow.flowproperties"])  # first: the density rules need an interpolator
    scaling_factor(ctx, "C03-a")
    n = 0
    for cls in ("IdealReservoir", "SinglePhaseReservoir", "TwoPhaseReservoir"):  # the concrete classes: an override in a subclass is seen through its MRO
        density_mode(ctx, "C03-b", cls)
        n += flux_mode(ctx, "C03-c", cls)
        scale_rule(ctx, "C03-d", cls)
    ctx.floor("C03-c", n, 1, "flux-mode recovery paths")
    from .c02 import rhs_rule
    from .common import check_interp_options

    rhs_rule(ctx, "C03-e")  # every step conserves what the previous level holds: no value is lifted or cut before the solve
    check_interp_options(ctx, "C03-f", ["bluebonnet.flow.reservoir", "bluebonnet.flow.flowproperties"], 6)
    fvf_and_alpha(ctx, "C03-d")
    from .c04 import check_all_steps_and_storage
    from .c09 import check_tables_not_mutated
    from .c01 import check_boundary_row

    check_all_steps_and_storage(ctx, "C03-h", "C03-i")
    check_tables_not_mutated(ctx, "C03-g")
    check_boundary_row(ctx, "C03-j")
    from .c09 import check_initial_value

    check_initial_value(ctx, "C03-k", "C03-k", classes=("FlowProperties",))
    from .c01 import check_alpha_lookup

    check_alpha_lookup(ctx, "C03-m")
    from .c04 import check_solver_sites

    check_solver_sites(ctx, "C03-l")  # a loosely converged step creates or destroys mass
    ctx.floor("C03", len(ctx.obligs), 10, "recovery obligations")
