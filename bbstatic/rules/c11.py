"""C11 - array evaluation equals elementwise scalar evaluation for every dtype.

Decided: (a) result buffers never inherit the caller's dtype; (b) for each function with an
array/scalar split the value stored under each mask equals, as an exact term, the value of the
scalar arm taken under the same predicate; (c) the masks partition the array by exactly the scalar
predicate (so the bubble point itself is written once, by the same arm); (d) no correlation stores
into its inputs; (e) the Fluid array methods evaluate the stand-alone correlation per element.
"""
from __future__ import annotations

from .. import effects, nf
from ..model import AnalysisError
from ..values import BoolV, Buf, Num
from .common import FLUID, OIL, POSITIVE, WATER, GAS, cmp_decisions, interp, pressure_arms, returns, run
from .dtypes import check_module_buffers

LEVEL = "other"
SPLIT = ["b_o_Standing", "solution_gor_Standing"]


def check_split(ctx, rule_b, rule_c, names=None):
    """array arm == scalar arm and the masks partition by the scalar predicate, for the correlations that split on the
    bubble point (shared with C07: density x FVF has to hold per element for the array form of the oil FVF as well)"""
    P = ctx.P
    if names is None:
        # the correlations that split on the bubble point today, plus every other oil correlation that has acquired an
        # explicit array branch (an np.ndim / np.isscalar dispatch on its pressure argument)
        import ast as _ast

        names = list(SPLIT)
        for cand in ("viscosity_beggs_robinson", "oil_compressibility_Standing", "density_Standing", "dgor_dpressure_Standing"):
            fi_ = P.functions.get(OIL + cand)
            if fi_ is not None and any(isinstance(n_, _ast.Call) and _ast.unparse(n_.func).split(".")[-1] in ("ndim", "isscalar") and n_.args and _ast.unparse(n_.args[0]) == "pressure" for n_ in _ast.walk(fi_.node)):
                names.append(cand)
    # ---- C11-b/c array arm == scalar arm, masks partition by the scalar predicate
    PBQ = OIL + "pressure_bubblepoint_Standing"
    for name in names:
        q = OIL + name
        f = P.func(q)
        from .common import array_safe

        ok_arr, why = array_safe(ctx, q, "pressure", opaque={PBQ})
        if not ctx.check(
            ok_arr, rule_c, q + ":array decisions", f.where(),
            "on the array branch no decision (if / early return / and / or) depends on the pressure array: elements are selected by masks only (a test of the whole array - np.all, np.any, its end points - decides for all elements at once)",
            signature="array decisions " + "; ".join(why)[:160], decisions=why[:6],
        ):
            continue
        sc = pressure_arms(ctx, q, opaque={PBQ})
        if len(sc) != 2 or any(len(k) != 1 for k in sc):
            # several pressure predicates: thresholds other than the library's bubble point (the formulas of the function
            # and of the correlations it calls then switch at different pressures) are reported as such
            from .common import check_bubble_threshold

            nb = sum(1 for o in ctx.obligs if o.status == "violated")
            check_bubble_threshold(ctx, rule_b, [q])
            if sum(1 for o in ctx.obligs if o.status == "violated") > nb:
                continue
            raise AnalysisError(f"{q}: scalar branch is not a two-way split on one pressure predicate")
        (key, _c) = next(iter(sc))[0]
        arms = {c: v for ((k, c),), (v, _d, _p) in sc.items()}
        arr = returns(run(ctx, q, array_mode=True, opaque={PBQ}))
        if len(arr) > 1:
            # partitions that differ only in side conditions (an input validation that did not fire) and return the
            # same buffer are one result
            from .common import interp as _interp

            _it = _interp(ctx)
            uniq = {}
            for p_ in arr:
                uniq.setdefault(nf.key(_it.to_nf(p_.value)), p_)
            arr = list(uniq.values())
        if len(arr) != 1 or not isinstance(arr[0].value, Buf):
            raise AnalysisError(f"{q}: array branch does not return one result buffer")
        buf = arr[0].value
        covered = set()
        for mask, val in buf.parts:
            if not (isinstance(mask, BoolV) and mask.kind == "cmp"):
                ctx.bad(rule_c, q + ":mask", f.where(), "array stores are selected by a comparison mask", signature="mask kind", mask=repr(mask))
                continue
            d = nf.key(nf.sub(mask.a, mask.b))
            arm = {">=": True, "<": False}.get(mask.op) if d == key[1] and key[0] == "ge" else None
            if arm is None and key[0] == "gt" and d == key[1]:
                arm = {">": True, "<=": False}.get(mask.op)
            ctx.check(
                arm is not None, rule_c, q + f":mask {mask.op}", f.where(),
                "each mask is the scalar branch predicate or its exact complement (same operands, >= / <)",
                signature="mask predicate " + mask.op, mask=repr(mask)[:160],
            )
            if arm is None:
                continue
            covered.add(arm)
            sv = arms[arm]
            ctx.identity(
                rule_b, q + f":array value under {mask.op}", f.where(),
                "the value stored under the mask equals the scalar branch's value term-for-term (mask subscripts erased)",
                ctx_nf(val), ctx_nf(sv),
            )
        rest = {True, False} - covered
        if buf.fill is not None:
            for arm in sorted(rest):
                ctx.identity(
                    rule_b, q + f":fill value for {'>=' if arm else '<'}", f.where(),
                    "elements not overwritten by a masked store keep the fill value, which equals the scalar branch's value there",
                    ctx_nf(buf.fill), ctx_nf(arms[arm]),
                )
            rest = set()
        ctx.check(
            not rest, rule_c, q + ":masks cover the array", f.where(),
            "the masked stores cover both sides of the predicate: no element of an uninitialised buffer is left unwritten (the bubble point itself included)",
            signature="uncovered " + ",".join(">=" if a else "<" for a in sorted(rest)),
        )


def check(ctx):
    P = ctx.P
    ctx.assume(POSITIVE)
    n = check_module_buffers(ctx, "C11-a", "bluebonnet.fluids.oil", floor=2)
    check_module_buffers(ctx, "C11-a", "bluebonnet.fluids.water")
    check_module_buffers(ctx, "C11-a", "bluebonnet.fluids.gas")

    check_split(ctx, "C11-b", "C11-c")
    # Spivey: vectorised arm == scalar arm
    q = OIL + "oil_compressibility_undersat_Spivey"
    f = P.func(q)
    from .common import each

    s = each(run(ctx, q, array_mode=False), q)
    a = each(run(ctx, q, array_mode=True), q)
    if len(s) != 1:
        raise AnalysisError(f"{q}: the scalar mode has {len(s)} different results")
    for tg, pa in a:
        ctx.identity("C11-b", q + ":array vs scalar" + tg, f.where(), "the vectorised branch computes the same term as the scalar branch", ctx_nf(pa.value), ctx_nf(s[0][1].value))

    # ---- C11-d inputs are not modified
    n = 0
    for mn in ("bluebonnet.fluids.oil", "bluebonnet.fluids.water", "bluebonnet.fluids.gas", "bluebonnet.fluids.fluid"):
        m = P.module(mn)
        funcs = list(m.functions.values()) + [fi for c in m.classes.values() for fi in c.methods.values()]
        for fi in funcs:
            n += 1
            params = [p for p in fi.params if p not in ("self", "cls")]
            fs = effects.analyse(fi.node, params)
            fs = [x for x in fs if x.kind != "in-place change of a column shared with the caller's table (shallow copy)"]
            ctx.check(
                not fs, "C11-d", fi.qualname + ":inputs untouched", fi.where(),
                "no store, augmented assignment or mutating call through an alias of an argument", nontrivial=bool(params),
                signature="; ".join(sorted({x.detail for x in fs}))[:160], findings=[f"line {x.node.lineno}: {x.kind}: {x.detail}" for x in fs],
            )
    ctx.floor("C11-d", n, 30, "fluid functions")

    # ---- C11-f integer arrays: no integer-typed intermediate can leave the int32 range before promotion to float
    from .. import intrange

    if not intrange.selftest():
        raise AnalysisError("integer-range analysis failed its built-in example")
    nf_ = 0
    for mn in ("bluebonnet.fluids.oil", "bluebonnet.fluids.water"):
        m = P.module(mn)
        for fi in m.functions.values():
            if "pressure" not in fi.params:
                continue
            nf_ += 1
            fs = intrange.analyse_function(fi.node)
            ctx.check(
                not fs, "C11-f", fi.qualname + ":integer intermediates", fi.where(),
                "with an integer pressure array (int32) and integer scalars, every product/power formed before a float operand joins stays below 2^31 over the declared input box (|p| <= 30000 psia, |T| <= 1000 F): numpy would wrap silently where the scalar call does not",
                signature="; ".join(x.expr for x in fs)[:160], overflowing=[f"line {x.node.lineno}: {x.expr} may reach {x.bound:.3g}" for x in fs],
            )
    ctx.floor("C11-f", nf_, 12, "pressure-taking correlations")

    # ---- C11-g results have the input's shape: nothing that flows into a return value of a pressure-taking function
    # passes through a shape-changing operation (a one-element array must come back as a one-element array)
    n_shape = 0
    for mn in ("bluebonnet.fluids.oil", "bluebonnet.fluids.water", "bluebonnet.fluids.fluid"):
        m = P.module(mn)
        funcs = list(m.functions.values()) + [f for c in m.classes.values() for f in c.methods.values()]
        for fi in funcs:
            if "pressure" not in fi.params:
                continue
            n_shape += 1
            bad = _shape_changers(fi.node)
            ctx.check(
                not bad, "C11-g", fi.qualname + ":result shape", fi.where(),
                "no value that flows into the function's result passes through squeeze / ravel / flatten / reshape / item / [()] / atleast_2d: the result has the shape of the pressure argument (a length-1 array stays a length-1 array)",
                signature="shape changed by " + ",".join(sorted({b[1] for b in bad})), sites=[f"line {b[0]}: {b[2]}" for b in bad],
            )
    ctx.floor("C11-g", n_shape, 12, "pressure-taking functions")

    from .dtypes import check_masked_calls

    check_masked_calls(ctx, "C11-i", ["bluebonnet.fluids.oil", "bluebonnet.fluids.water", "bluebonnet.fluids.fluid"])
    from .dtypes import check_vectorize

    nv = check_vectorize(ctx, "C11-h", ["bluebonnet.fluids.oil", "bluebonnet.fluids.water", "bluebonnet.fluids.fluid"])
    # no floor: a tree without np.vectorize has no first-element dtype hazard (the rule's own example is in the self-test)
    # ---- C11-e Fluid wrappers
    from .c19 import check_delegation

    check_delegation(ctx, "C11-e", only_array=True)
    # ---- C11-h length-0 arrays come back as length-0 arrays: no reduction without an identity (min, max, argmin, argmax,
    # ptp ...) is taken over the pressure argument - not even for a log line, whose arguments are evaluated whatever the
    # log level: np.min of an empty array raises
    import ast as _ast

    NOID = {"min", "max", "amin", "amax", "argmin", "argmax", "ptp", "nanmin", "nanmax", "nanargmin", "nanargmax"}
    n_h = 0
    for mn in ("bluebonnet.fluids.oil", "bluebonnet.fluids.water", "bluebonnet.fluids.fluid"):
        m = P.module(mn)
        for fi in [f_ for f_ in P.functions.values() if f_.module is m and f_.parent is None and "pressure" in f_.params]:
            n_h += 1
            sites = []
            for c in _ast.walk(fi.node):
                if not isinstance(c, _ast.Call):
                    continue
                nm = c.func.attr if isinstance(c.func, _ast.Attribute) else c.func.id if isinstance(c.func, _ast.Name) else ""
                if nm not in NOID:
                    continue
                subj = c.func.value if isinstance(c.func, _ast.Attribute) and not (isinstance(c.func.value, _ast.Name) and c.func.value.id in ("np", "numpy")) else (c.args[0] if c.args else None)
                if subj is not None and any(isinstance(x, _ast.Name) and x.id == "pressure" for x in _ast.walk(subj)) and len(c.args) <= 1:
                    sites.append(f"line {c.lineno}: {_ast.unparse(c)[:50]}")
            ctx.check(
                not sites, "C11-h", fi.qualname + ":empty arrays", fi.where(),
                "no reduction without an identity (min / max / argmin / argmax / ptp) is taken over the pressure argument: a length-0 array is answered with a length-0 array, not with ValueError",
                signature="reduction over pressure " + "; ".join(sites)[:120], sites=sites, nontrivial=False,
            )
    ctx.floor("C11-h", n_h, 12, "pressure-taking functions")
    ctx.floor("C11", len(ctx.obligs), 45, "array-evaluation obligations")


def ctx_nf(v):
    if isinstance(v, Num):
        return v.nf
    if isinstance(v, Buf) and v.fill is not None and not v.parts and not v.items:
        return ctx_nf(v.fill)
    raise AnalysisError(f"non-numeric value {type(v).__name__} in an array/scalar comparison")


SHAPE_CHANGERS = {"squeeze", "ravel", "flatten", "reshape", "item", "atleast_2d", "atleast_3d", "expand_dims", "tolist"}


def _shape_changers(fnode):
    """[(line, name, text)] of shape-changing operations on values that flow (through local assignments) into a return"""
    import ast

    own = [n for n in ast.walk(fnode)]
    nested = {id(x) for d in own if isinstance(d, (ast.FunctionDef, ast.Lambda)) and d is not fnode for x in ast.walk(d) if x is not d}
    rets = [n for n in own if isinstance(n, ast.Return) and n.value is not None and id(n) not in nested]
    live = set()
    exprs = [r.value for r in rets]
    for e in exprs:
        live |= {x.id for x in ast.walk(e) if isinstance(x, ast.Name)}
    changed = True
    while changed:
        changed = False
        for n in own:
            if id(n) in nested:
                continue
            tgt, val = None, None
            if isinstance(n, ast.Assign):
                tgt, val = n.targets, n.value
            elif isinstance(n, ast.AugAssign):
                tgt, val = [n.target], n.value
            elif isinstance(n, ast.AnnAssign) and n.value is not None:
                tgt, val = [n.target], n.value
            if tgt is None:
                continue
            names = {x.id for t in tgt for x in ast.walk(t) if isinstance(x, ast.Name)}
            if names & live:
                if val not in exprs:
                    exprs.append(val)
                new = {x.id for x in ast.walk(val) if isinstance(x, ast.Name)} - live
                if new:
                    live |= new
                    changed = True
    out = []
    for e in exprs:
        for n in ast.walk(e):
            if isinstance(n, ast.Call):
                nm = n.func.attr if isinstance(n.func, ast.Attribute) else (n.func.id if isinstance(n.func, ast.Name) else "")
                if nm in SHAPE_CHANGERS:
                    out.append((n.lineno, nm, ast.unparse(n)[:60]))
            elif isinstance(n, ast.Subscript) and isinstance(n.slice, ast.Tuple) and not n.slice.elts:
                out.append((n.lineno, "[()]", ast.unparse(n)[:60]))
    return sorted(set(out))
