"""`python -m bbstatic check Cnn [--tier quick|thorough]`  (cwd = /verif, BB_REPO selects the tree)."""
from __future__ import annotations

import argparse
import importlib
import os
import sys
import time
import traceback

from . import core
from .model import AnalysisError, Program
from .nf import NFError


def anchored_modules(prop):
    """module names of the source files listed in the property's anchors (properties.jsonl)"""
    import json

    out = []
    with open(os.path.join(core.VERIF, "properties.jsonl")) as fh:
        for line in fh:
            rec = json.loads(line)
            if rec["id"] == prop:
                for f in rec["anchors"]["files"]:
                    if f.endswith(".py") and f.startswith("src/"):
                        out.append(f[len("src/") : -3].replace("/", "."))
    if not out:
        raise AnalysisError(f"no anchored source files for {prop}")
    return out


BUDGET_S = int(os.environ.get("BB_BUDGET_S", "240"))


def run_check(prop: str, tier: str, seed: int) -> int:
    t0 = time.time()
    level = "other"
    try:
        try:
            mod = importlib.import_module(f"bbstatic.rules.{prop.lower()}")
        except ModuleNotFoundError:
            print(f"ANALYSIS-ERROR property={prop}: no rule module")
            return 2
        level = getattr(mod, "LEVEL", "other")
        # wall-clock limit for the shared rules too (the clean tree needs seconds): never a hang
        import signal as _signal

        def _shared_too_long(_sig, _frm):
            raise AnalysisError(f"time budget of {BUDGET_S} s exceeded while evaluating the shared rules for {prop}")

        _signal.signal(_signal.SIGALRM, _shared_too_long)
        _signal.alarm(BUDGET_S)
        program = Program()
        ctx = core.Ctx(prop, program, tier)
        from . import purity

        # shared rule M first: no incompletely keyed memo / hidden state in the modules the property is anchored in
        # (anchored modules first, then the rest of the package: a stale memo in a facade or helper module
        # breaks every property whose functions are reached through it)
        anchored = anchored_modules(prop)
        rest = [m for m in sorted(program.modules) if m not in anchored and not m.endswith("__init__") and program.modules[m].functions | program.modules[m].classes]
        purity.check_modules(ctx, f"{prop}-mm", anchored + rest)
        # shared rule V: no in-place write through a view of caller-owned data or of an object's stored arrays
        from . import views

        views.check_modules(ctx, f"{prop}-vv", anchored, rest, floor=10)
        # shared rule G: one-shot iterators are consumed at most once
        from . import iterators

        iterators.check_modules(ctx, f"{prop}-gg", anchored)
        from .rules.dtypes import check_unsort

        check_unsort(ctx, f"{prop}-gg", anchored)
        # shared rule W: decorated public functions mean the same under every calling convention
        from .rules.common import check_wrappers

        check_wrappers(ctx, f"{prop}-ww", anchored)
        from .rules.common import check_super_forwarding

        check_super_forwarding(ctx, f"{prop}-ww", anchored)
        # shared rule S: positional calls of the pinned signatures still bind every value to its parameter
        from .rules.common import check_positional_order

        check_positional_order(ctx, f"{prop}-ss", anchored)
        from .rules.common import check_pinned_defaults

        check_pinned_defaults(ctx, f"{prop}-ss", anchored)
        # shared rule D: double precision throughout (no narrower floating type named anywhere in the package)
        from .rules.dtypes import check_precision

        check_precision(ctx, f"{prop}-dd", anchored + rest)
        from .rules.dtypes import check_bool_identity

        check_bool_identity(ctx, f"{prop}-dd", anchored)
        # shared rule P: package plumbing (process-wide configuration, public names bound to their own functions)
        from . import plumbing

        plumbing.check(ctx, f"{prop}-pp", os.path.join(os.path.dirname(os.path.abspath(__file__)), "signatures.json"))
        # wall-clock limit for the rule module (the clean tree needs seconds): a term explosion on an unusual variant
        # ends as ANALYSIS-ERROR, never as a hang
        import signal

        def _too_long(_sig, _frm):
            raise AnalysisError(f"time budget of {BUDGET_S} s exceeded while evaluating the rules of {prop}")

        old_handler = signal.signal(signal.SIGALRM, _too_long)
        signal.alarm(BUDGET_S)
        try:
            mod.check(ctx)
        except (AnalysisError, NFError) as e:
            if not ctx.has_new_violation():
                raise
            # a positive finding stands even if later rules could not be evaluated
            ctx.notes.append(f"remaining rules not evaluated: {e}")
            print(f"note: remaining rules of {prop} could not be evaluated: {e}")
        finally:
            signal.alarm(0)
            signal.signal(signal.SIGALRM, old_handler)
        # shared rule O: the rules once more for every new option an internal caller sets to a non-default value
        _option_contexts(prop, mod, ctx, program, tier, _too_long)
        extra_cov, extra_exit = None, 0
        if tier == "thorough":
            from . import selftest

            extra_cov, extra_exit = selftest.run_for_property(prop, seed)
        return core.finish(prop, ctx, level, t0, seed, extra_cov, extra_exit)
    except (AnalysisError, NFError) as e:
        return core.analysis_error(prop, tier, seed, t0, str(e), level)
    except RecursionError as e:
        return core.analysis_error(prop, tier, seed, t0, f"recursion limit: {e}", level)
    except Exception as e:  # never let a traceback look like a violation
        traceback.print_exc()
        return core.analysis_error(prop, tier, seed, t0, f"{type(e).__name__}: {e}", level)


def _option_contexts(prop, mod, ctx, P, tier, too_long):
    import signal

    from . import options
    from .symeval import Interp

    entries = set(Interp._ENTRY_SEEN)
    if not entries:
        return
    base = {(o.rule, o.construct, o.signature) for o in ctx.obligs if o.status == "violated"}
    for oc in options.discover(P):
        if oc.callee not in entries:
            continue
        sub = core.Ctx(prop, P, tier)
        Interp._OPTION_CONTEXT = {oc.callee: oc.params}
        old_handler = signal.signal(signal.SIGALRM, too_long)
        signal.alarm(BUDGET_S)
        try:
            mod.check(sub)
        except (AnalysisError, NFError) as e:
            if not any(o.status == "violated" and (o.rule, o.construct, o.signature) not in base for o in sub.obligs):
                raise AnalysisError(f"[{oc.callee.split('.', 2)[-1]} {oc.descr}] {e}")
            ctx.notes.append(f"option context {oc.descr}: remaining rules not evaluated: {e}")
        finally:
            signal.alarm(0)
            signal.signal(signal.SIGALRM, old_handler)
            Interp._OPTION_CONTEXT = {}
        new = [o for o in sub.obligs if o.status == "violated" and (o.rule, o.construct, o.signature) not in base]
        for o in new:
            o.construct = f"{o.construct} [{oc.callee.split('.')[-1]} {oc.descr}]"
            o.where = f"{oc.file}:{oc.line}"
            o.detail = dict(o.detail, option_context=oc.descr, callee=oc.callee)
            ctx.obligs.append(o)
        ctx.functions.update(sub.functions)
        ctx.notes.append(f"option context analysed: {oc.callee} {oc.descr}: {len(sub.obligs)} obligations, {len(new)} new violations")


def main(argv=None):
    ap = argparse.ArgumentParser(prog="bbstatic")
    sub = ap.add_subparsers(dest="cmd", required=True)
    c = sub.add_parser("check")
    c.add_argument("prop")
    c.add_argument("--tier", default=os.environ.get("VERIF_TIER", "quick"), choices=["quick", "thorough"])
    r = sub.add_parser("replay")
    r.add_argument("path")
    a = ap.parse_args(argv)
    if a.cmd == "replay":
        import json

        rec = json.load(open(a.path))
        print(json.dumps(rec, indent=1)[:3000])
        sys.setrecursionlimit(10000)
        return run_check(rec["property"], "quick", 0)
    seed = int(os.environ.get("VERIF_SEED", "0") or 0)
    sys.setrecursionlimit(10000)
    return run_check(a.prop.upper(), a.tier, seed)
