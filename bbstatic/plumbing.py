"""Shared rule P - package plumbing (reported as `Cnn-pp`).

The property rules interpret the bodies of the library's functions.  What happens *around* those bodies is decided
here, over every module of the package (the `__init__.py` files included):

(a) **process-wide configuration.**  The package never changes numerical, warning, printing or pandas configuration
    of the process - `np.seterr`, `np.seterrcall`, `np.set_printoptions`, `warnings.simplefilter / filterwarnings /
    resetwarnings` outside a `with warnings.catch_warnings():` block, `pd.set_option`, stores to `pd.options...`,
    `sys.setrecursionlimit`, `locale.setlocale`, `decimal.getcontext().prec = ...`, `os.environ[...] = ...`,
    `random.seed` / `np.random.seed`, `np.errstate(...).__enter__()` - neither at import nor inside a function.  Such a
    call changes what *every* expression evaluated afterwards does (an overflow raises instead of giving inf, a
    RuntimeWarning becomes an exception, a round trip through `str` loses digits), for the library and for its caller:
    no function-level rule can see it, every property quantifies over it.
(b) **one name, one function.**  A public name of the pinned tree that is importable from a package `__init__` (or
    re-exported by any module) is bound to the function of that name: `from .gas import z_factor_hallyarbrough as
    z_factor_DAK`, or `viscosity_Sutton = functools.partial(...)` after the import, hand the user something else than
    the function the property is anchored in.

Each clause has a built-in positive example that must match on every run.
"""
from __future__ import annotations

import ast

from .model import AnalysisError

CONFIG_CALLS = {
    "numpy.seterr", "numpy.seterrcall", "numpy.set_printoptions", "numpy.setbufsize", "numpy.set_string_function",
    "warnings.simplefilter", "warnings.filterwarnings", "warnings.resetwarnings",
    "pandas.set_option", "pandas.reset_option", "pandas.options.mode.__setattr__",
    "sys.setrecursionlimit", "sys.setswitchinterval", "locale.setlocale", "decimal.setcontext",
    "random.seed", "numpy.random.seed", "os.putenv", "os.unsetenv", "faulthandler.enable",
    "scipy.special.seterr",
}
LOCAL_WARNING_CALLS = {"warnings.simplefilter", "warnings.filterwarnings", "warnings.resetwarnings"}


def _dotted(node):
    parts = []
    while isinstance(node, ast.Attribute):
        parts.append(node.attr)
        node = node.value
    if isinstance(node, ast.Name):
        parts.append(node.id)
        return ".".join(reversed(parts))
    return None


def _resolve(P, m, dotted):
    if dotted is None:
        return None
    head, *rest = dotted.split(".")
    base = m.imports.get(head)
    if base is None:
        base = {"np": "numpy", "pd": "pandas", "sp": "scipy"}.get(head, head)
    return P.canonical(".".join([base] + rest))


def config_sites(P, m):
    """[(lineno, text)] of process-wide configuration changes in module m"""
    out = []
    local_ok = set()  # ids of nodes inside `with warnings.catch_warnings():`
    for n in ast.walk(m.tree):
        if isinstance(n, ast.With) and any(
            isinstance(it.context_expr, ast.Call) and _resolve(P, m, _dotted(it.context_expr.func)) == "warnings.catch_warnings" for it in n.items
        ):
            for x in ast.walk(n):
                local_ok.add(id(x))
    for n in ast.walk(m.tree):
        if isinstance(n, ast.Call):
            q = _resolve(P, m, _dotted(n.func))
            if q in CONFIG_CALLS and not (q in LOCAL_WARNING_CALLS and id(n) in local_ok):
                out.append((n.lineno, ast.unparse(n)[:70]))
            # np.errstate(...).__enter__() : entered and never left
            if isinstance(n.func, ast.Attribute) and n.func.attr == "__enter__" and isinstance(n.func.value, ast.Call) and _resolve(P, m, _dotted(n.func.value.func)) in ("numpy.errstate", "warnings.catch_warnings"):
                out.append((n.lineno, ast.unparse(n)[:70]))
        targets = []
        if isinstance(n, ast.Assign):
            targets = n.targets
        elif isinstance(n, (ast.AugAssign, ast.AnnAssign)):
            targets = [n.target]
        for t in targets:
            base = t
            while isinstance(base, ast.Subscript):
                base = base.value
            d = _dotted(base) if isinstance(base, ast.Attribute) else (_dotted(base) if isinstance(base, ast.Name) else None)
            q = _resolve(P, m, d) if d else None
            if q and (q.startswith("pandas.options.") or q == "os.environ" or q.startswith("numpy.core.arrayprint") or q.startswith("matplotlib.rcParams") and False):
                out.append((n.lineno, ast.unparse(t)[:70] + " = ..."))
            if isinstance(base, ast.Attribute) and isinstance(base.value, ast.Call) and _resolve(P, m, _dotted(base.value.func)) in ("decimal.getcontext", "numpy.geterr"):
                out.append((n.lineno, ast.unparse(t)[:70] + " = ..."))
    return sorted(set(out))


def rebound_public_names(P, pinned):
    """[(module relpath, lineno, text)] - a pinned public function name bound, in some module of the package, to
    something else than the function of that name"""
    out = []
    by_name = {}
    for q in pinned:
        fi = P.functions.get(q)
        if fi is not None and fi.cls is None and fi.parent is None and not fi.name.startswith("_"):
            by_name.setdefault(fi.name, set()).add(q)
    for m in P.modules.values():
        for node in ast.walk(m.tree):
            if isinstance(node, ast.ImportFrom):
                for a in node.names:
                    if a.asname and a.asname != a.name and a.asname in by_name:
                        # imported under the name of a pinned public function: must be that function
                        base = node.module or ""
                        if node.level:
                            parts = m.name.split(".")
                            base = ".".join(parts[: len(parts) - node.level + (1 if m.path.endswith("__init__.py") else 0)] + ([base] if base else []))
                        q = P.canonical(f"{base}.{a.name}")
                        if q not in by_name[a.asname]:
                            out.append((m.relpath, node.lineno, f"{a.name} as {a.asname}"))
        for node in m.tree.body:
            # module-level re-binding of a pinned public name that the module imports or defines
            if isinstance(node, ast.Assign) and len(node.targets) == 1 and isinstance(node.targets[0], ast.Name):
                nm = node.targets[0].id
                if nm in by_name and (nm in m.imports or nm in m.functions):
                    v = node.value
                    same = isinstance(v, ast.Name) and v.id == nm
                    if isinstance(v, (ast.Name, ast.Attribute)):
                        d = _dotted(v)
                        if d is not None:
                            head, *rest = d.split(".")
                            q = P.canonical(".".join([m.imports.get(head, f"{m.name}.{head}")] + rest))
                            same = q in by_name[nm]
                    if not same:
                        out.append((m.relpath, node.lineno, ast.unparse(node)[:70]))
    return sorted(set(out))


def _selftest():
    import types

    src = (
        "import numpy as np\nimport warnings\nimport pandas as pd\n"
        "np.seterr(all='raise')\n"
        "def f(x):\n"
        "    with warnings.catch_warnings():\n"
        "        warnings.simplefilter('ignore')\n"
        "        y = x + 1\n"
        "    warnings.simplefilter('error')\n"
        "    pd.options.mode.copy_on_write = True\n"
        "    with np.errstate(all='ignore'):\n"
        "        y = y / x\n"
        "    return y\n"
    )
    m = types.SimpleNamespace(tree=ast.parse(src), imports={"np": "numpy", "warnings": "warnings", "pd": "pandas"})
    P = types.SimpleNamespace(canonical=lambda d: d)
    return len(config_sites(P, m)) == 3


def check(ctx, rule, pinned_path):
    import json
    import os

    if not _selftest():
        raise AnalysisError("plumbing rule failed its built-in example")
    P = ctx.P
    for mn, m in sorted(P.modules.items()):
        sites = config_sites(P, m)
        ctx.check(
            not sites, rule, f"{mn}:process-wide configuration", m.relpath,
            "the package does not change numerical, warning, printing or pandas configuration of the process (np.seterr, warnings filters outside catch_warnings, pd.set_option, os.environ ...), at import or in a function",
            signature="global configuration " + "; ".join(t for _l, t in sites)[:150], sites=[f"line {l}: {t}" for l, t in sites],
            nontrivial=False,
        )
    pinned = json.load(open(pinned_path)) if os.path.exists(pinned_path) else {}
    bad = rebound_public_names(P, pinned)
    ctx.check(
        not bad, rule, "bluebonnet:one name, one function", "src/bluebonnet",
        "a public function name of the pinned tree is bound, wherever the package binds it, to the function of that name (no alias of another function, no wrapped re-binding)",
        signature="name re-bound " + "; ".join(t for _f, _l, t in bad)[:150], sites=[f"{f}:{l}: {t}" for f, l, t in bad],
        nontrivial=False,
    )
