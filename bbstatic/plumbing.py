"""Shared rule P - package plumbing (reported as `Cnn-pp`).

The property rules interpret the bodies of the library's functions.  What happens *around* those bodies is decided
here, over every module of the package (the `__init__.py` files included):

(a) **process-wide configuration.**  The package never changes numerical, warning, printing or pandas configuration
    of the process - `np.seterr`, `np.seterrcall`, `np.set_printoptions`, `warnings.simplefilter / filterwarnings /
    resetwarnings` outside a `with warnings.catch_warnings():` block, `pd.set_option`, stores to `pd.options...`,
    `sys.setrecursionlimit`, `locale.setlocale`, `decimal.getcontext().prec = ...`, `os.environ[...] = ...`,
    `random.seed` / `np.random.seed`, `np.errstate(...).__enter__()` - neither at import nor inside a function.  Such a
    call changes what *every* expression evaluated afterwards does (an overflow raises instead of giving inf, a
    RuntimeWarning becomes an exception, a round trip through `str` loses digits), for the library and for its caller:
    no function-level rule can see it, every property quantifies over it.
(b) **one name, one function.**  A public name of the pinned tree that is importable from a package `__init__` (or
    re-exported by any module) is bound to the function of that name: `from .gas import z_factor_hallyarbrough as
    z_factor_DAK`, or `viscosity_Sutton = functools.partial(...)` after the import, hand the user something else than
    the function the property is anchored in.

Each clause has a built-in positive example that must match on every run.
"""
from __future__ import annotations

import ast

from .model import AnalysisError

CONFIG_CALLS = {
    "numpy.seterr", "numpy.seterrcall", "numpy.set_printoptions", "numpy.setbufsize", "numpy.set_string_function",
    "warnings.simplefilter", "warnings.filterwarnings", "warnings.resetwarnings",
    "pandas.set_option", "pandas.reset_option", "pandas.options.mode.__setattr__",
    "sys.setrecursionlimit", "sys.setswitchinterval", "locale.setlocale", "decimal.setcontext",
    "random.seed", "numpy.random.seed", "os.putenv", "os.unsetenv", "faulthandler.enable",
    "scipy.special.seterr",
}
LOCAL_WARNING_CALLS = {"warnings.simplefilter", "warnings.filterwarnings", "warnings.resetwarnings"}


def _dotted(node):
    parts = []
    while isinstance(node, ast.Attribute):
        parts.append(node.attr)
        node = node.value
    if isinstance(node, ast.Name):
        parts.append(node.id)
        return ".".join(reversed(parts))
    return None


def _resolve(P, m, dotted):
    if dotted is None:
        return None
    head, *rest = dotted.split(".")
    base = m.imports.get(head)
    if base is None:
        base = {"np": "numpy", "pd": "pandas", "sp": "scipy"}.get(head, head)
    return P.canonical(".".join([base] + rest))


def config_sites(P, m):
    """[(lineno, text)] of process-wide configuration changes in module m"""
    out = []
    local_ok = set()  # ids of nodes inside `with warnings.catch_warnings():`
    for n in ast.walk(m.tree):
        if isinstance(n, ast.With) and any(
            isinstance(it.context_expr, ast.Call) and _resolve(P, m, _dotted(it.context_expr.func)) == "warnings.catch_warnings" for it in n.items
        ):
            for x in ast.walk(n):
                local_ok.add(id(x))
    for n in ast.walk(m.tree):
        if isinstance(n, ast.Call):
            q = _resolve(P, m, _dotted(n.func))
            if q in CONFIG_CALLS and not (q in LOCAL_WARNING_CALLS and id(n) in local_ok):
                out.append((n.lineno, ast.unparse(n)[:70]))
            # np.errstate(...).__enter__() : entered and never left
            if isinstance(n.func, ast.Attribute) and n.func.attr == "__enter__" and isinstance(n.func.value, ast.Call) and _resolve(P, m, _dotted(n.func.value.func)) in ("numpy.errstate", "warnings.catch_warnings"):
                out.append((n.lineno, ast.unparse(n)[:70]))
        targets = []
        if isinstance(n, ast.Assign):
            targets = n.targets
        elif isinstance(n, (ast.AugAssign, ast.AnnAssign)):
            targets = [n.target]
        for t in targets:
            base = t
            while isinstance(base, ast.Subscript):
                base = base.value
            d = _dotted(base) if isinstance(base, ast.Attribute) else (_dotted(base) if isinstance(base, ast.Name) else None)
            q = _resolve(P, m, d) if d else None
            if q and (q.startswith("pandas.options.") or q == "os.environ" or q.startswith("numpy.core.arrayprint") or q.startswith("matplotlib.rcParams") and False):
                out.append((n.lineno, ast.unparse(t)[:70] + " = ..."))
            if isinstance(base, ast.Attribute) and isinstance(base.value, ast.Call) and _resolve(P, m, _dotted(base.value.func)) in ("decimal.getcontext", "numpy.geterr"):
                out.append((n.lineno, ast.unparse(t)[:70] + " = ..."))
    return sorted(set(out))


def rebound_public_names(P, pinned):
    """[(module relpath, lineno, text)] - a pinned public function name bound, in some module of the package, to
    something else than the function of that name"""
    out = []
    by_name = {}
    for q in pinned:
        fi = P.functions.get(q)
        if fi is not None and fi.cls is None and fi.parent is None and not fi.name.startswith("_"):
            by_name.setdefault(fi.name, set()).add(q)
    for m in P.modules.values():
        for node in ast.walk(m.tree):
            if isinstance(node, ast.ImportFrom):
                for a in node.names:
                    if a.asname and a.asname != a.name and a.asname in by_name:
                        # imported under the name of a pinned public function: must be that function
                        base = node.module or ""
                        if node.level:
                            parts = m.name.split(".")
                            base = ".".join(parts[: len(parts) - node.level + (1 if m.path.endswith("__init__.py") else 0)] + ([base] if base else []))
                        q = P.canonical(f"{base}.{a.name}")
                        if q not in by_name[a.asname]:
                            out.append((m.relpath, node.lineno, f"{a.name} as {a.asname}"))
        for node in m.tree.body:
            # module-level re-binding of a pinned public name that the module imports or defines
            if isinstance(node, ast.Assign) and len(node.targets) == 1 and isinstance(node.targets[0], ast.Name):
                nm = node.targets[0].id
                if nm in by_name and (nm in m.imports or nm in m.functions):
                    v = node.value
                    same = isinstance(v, ast.Name) and v.id == nm
                    if isinstance(v, (ast.Name, ast.Attribute)):
                        d = _dotted(v)
                        if d is not None:
                            head, *rest = d.split(".")
                            q = P.canonical(".".join([m.imports.get(head, f"{m.name}.{head}")] + rest))
                            same = q in by_name[nm]
                    if not same and isinstance(v, ast.Call) and nm in m.functions and nm not in m.imports and not getattr(node, "_bb_conditional", False):
                        # f = wrap(f) below `def f` in the defining module: the program model records it on the function
                        # (FunctionInfo.rebinds), every analysis entry goes through the wrapper and rule W judges it
                        same = any(isinstance(x, ast.Name) and x.id == nm for x in ast.walk(v))
                    if not same:
                        out.append((m.relpath, node.lineno, ast.unparse(node)[:70]))
        # a star import that brings in another function of that name after this module bound the pinned one
        for nm, (base, line) in getattr(m, "star_imported", {}).items():
            if nm in by_name:
                q = P.canonical(f"{base}.{nm}")
                if q not in by_name[nm]:
                    out.append((m.relpath, line, f"from {base} import * (binds {nm})"))
        # a function of its own named like a pinned public function that the module imports: wrapped re-export
        for nm, fi in m.functions.items():
            if nm in by_name and fi.qualname.split("#")[0] not in by_name[nm]:
                # (a new helper that merely shares the name of a pinned function of another module is only a problem
                # where users get it in place of that function: in a package __init__, or when the module imports it)
                if m.path.endswith("__init__.py") or any(isinstance(st, ast.ImportFrom) and any((a.asname or a.name) == nm for a in st.names) for st in ast.walk(m.tree)):
                    out.append((m.relpath, fi.node.lineno, f"def {nm} replaces the imported {nm}"))
    return sorted(set(out))


def foreign_module_stores(P):
    """[(relpath, lineno, text)] - assignments to an attribute of another module of the package (or setattr on it): the
    importing module re-binds a name *inside* the module where the analysed functions look it up"""
    out = []
    for m in P.modules.values():
        modnames = {}
        for local, dotted in m.imports.items():
            if dotted in P.modules:
                modnames[local] = dotted
        for n in ast.walk(m.tree):
            targets = []
            if isinstance(n, ast.Assign):
                targets = n.targets
            elif isinstance(n, (ast.AugAssign, ast.AnnAssign)):
                targets = [n.target]
            for t in targets:
                if isinstance(t, ast.Attribute):
                    d = _dotted(t.value)
                    if d is None:
                        continue
                    head, *rest = d.split(".")
                    full = ".".join([m.imports.get(head, head)] + rest)
                    if full in P.modules and full != m.name:
                        out.append((m.relpath, n.lineno, ast.unparse(t)[:70] + " = ..."))
            if isinstance(n, ast.Call) and isinstance(n.func, ast.Name) and n.func.id in ("setattr", "delattr") and n.args:
                d = _dotted(n.args[0])
                if d is not None:
                    head, *rest = d.split(".")
                    full = ".".join([m.imports.get(head, head)] + rest)
                    if full in P.modules and full != m.name:
                        out.append((m.relpath, n.lineno, ast.unparse(n)[:70]))
    return sorted(set(out))


OVERWRITE_KW = {"overwrite_input", "overwrite_a", "overwrite_b", "overwrite_ab", "overwrite_x", "overwrite_y", "overwrite_data"}


def overwrite_sites(m):
    """[(lineno, text)] - library calls asked to destroy their input (np.median(x, overwrite_input=True) partially
    sorts x in place; scipy.linalg's overwrite_a / overwrite_b likewise): the array is a view of, or simply is, data that
    is used afterwards or belongs to the caller"""
    out = []
    for n in ast.walk(m.tree):
        if isinstance(n, ast.Call):
            for k in n.keywords:
                if k.arg in OVERWRITE_KW and not (isinstance(k.value, ast.Constant) and k.value.value is False):
                    out.append((n.lineno, ast.unparse(n)[:70]))
    return sorted(set(out))


def scale_name_clashes(P):
    """[(relpath, lineno, text)] - two classes registered with matplotlib's scale registry under one name (the registry
    is keyed by the class attribute `name`, looked up through the MRO: the later registration silently wins)"""
    regs = []
    for m in P.modules.values():
        for n in ast.walk(m.tree):
            if isinstance(n, ast.Call) and isinstance(n.func, (ast.Attribute, ast.Name)) and (n.func.attr if isinstance(n.func, ast.Attribute) else n.func.id) == "register_scale" and n.args and isinstance(n.args[0], ast.Name):
                cands = [c for c in P.classes.values() if c.name == n.args[0].id]
                if len(cands) == 1:
                    ci = cands[0]
                    nm = None
                    for c in ci.mro():
                        if "name" in c.class_attrs and isinstance(c.class_attrs["name"], ast.Constant):
                            nm = c.class_attrs["name"].value
                            break
                    regs.append((nm, ci.qualname, m.relpath, n.lineno))
    out = []
    seen = {}
    for nm, q, rel, line in regs:
        if nm in seen and seen[nm] != q:
            out.append((rel, line, f"{q.split('.')[-1]} registered as {nm!r} like {seen[nm].split('.')[-1]}"))
        seen.setdefault(nm, q)
    return out


def check_restore(ctx, rule):
    """Clause (c): an object that comes back from pickle / copy is the object that went in.  For every class of the
    package that defines `__setstate__` (with or without `__getstate__`): the constructor is interpreted with symbolic
    arguments, the state is taken (`__getstate__`, else the instance dictionary), a blank instance is restored from it,
    and every attribute the constructor had set must come back as the same term - an interpolator rebuilt over another
    column, a scale recomputed from other fields, a dropped attribute are reported."""
    from .rules.common import std_policy
    from .symeval import Interp, sym_num
    from .values import DictV, FuncV, Inst

    P = ctx.P
    for ci in sorted(P.classes.values(), key=lambda c: c.qualname):
        ss = ci.methods.get("__setstate__")
        if ss is None:
            continue
        gs = ci.lookup("__getstate__")
        init = ci.lookup("__init__")
        ctx.touch(ss.qualname)
        it = Interp(P, policy=std_policy(False))
        problems = []

        def run(x):
            kwargs = {p: sym_num(p) for p in (init.params[1:] if init is not None else ci.all_fields())}
            inst = x._construct(ci, [], kwargs, ci.node)
            before = dict(inst.attrs)
            state = x.call(FuncV(gs, None, inst, gs.cls), [], {}, gs.node, None) if gs is not None else DictV(dict(inst.attrs))
            if not isinstance(state, DictV):
                raise AnalysisError(f"{ci.qualname}.__getstate__ does not return a dictionary the analysis can follow")
            new = Inst(ci, {}, "self")
            x.call(FuncV(ss, None, new, ci), [state], {}, ss.node, None)
            return before, dict(new.attrs)

        n_paths = 0
        for p in it.explore(run):
            if p.outcome != "return" or p.value is None:
                continue
            n_paths += 1
            before, after = p.value
            for k, v in before.items():
                if k not in after:
                    problems.append(f"{k} is not restored")
                elif it.to_nf(after[k]) != it.to_nf(v):
                    problems.append(f"{k} is restored as another value")
        if not n_paths:
            raise AnalysisError(f"{ci.qualname}: no constructor path could be followed through __getstate__ / __setstate__")
        ctx.check(
            not problems, rule, ci.qualname + ":restored object", ss.where(),
            "an object restored from its pickled / copied state has, attribute by attribute, what its constructor had put there",
            signature="restore " + "; ".join(sorted(set(problems)))[:150], problems=sorted(set(problems))[:8],
        )


def _selftest():
    import types

    src = (
        "import numpy as np\nimport warnings\nimport pandas as pd\n"
        "np.seterr(all='raise')\n"
        "def f(x):\n"
        "    with warnings.catch_warnings():\n"
        "        warnings.simplefilter('ignore')\n"
        "        y = x + 1\n"
        "    warnings.simplefilter('error')\n"
        "    pd.options.mode.copy_on_write = True\n"
        "    with np.errstate(all='ignore'):\n"
        "        y = y / x\n"
        "    return y\n"
    )
    m = types.SimpleNamespace(tree=ast.parse(src), imports={"np": "numpy", "warnings": "warnings", "pd": "pandas"})
    P = types.SimpleNamespace(canonical=lambda d: d)
    return len(config_sites(P, m)) == 3


def check(ctx, rule, pinned_path):
    import json
    import os

    if not _selftest():
        raise AnalysisError("plumbing rule failed its built-in example")
    P = ctx.P
    for mn, m in sorted(P.modules.items()):
        sites = config_sites(P, m)
        ctx.check(
            not sites, rule, f"{mn}:process-wide configuration", m.relpath,
            "the package does not change numerical, warning, printing or pandas configuration of the process (np.seterr, warnings filters outside catch_warnings, pd.set_option, os.environ ...), at import or in a function",
            signature="global configuration " + "; ".join(t for _l, t in sites)[:150], sites=[f"line {l}: {t}" for l, t in sites],
            nontrivial=False,
        )
    for mn, m in sorted(P.modules.items()):
        sites = overwrite_sites(m)
        ctx.check(
            not sites, rule, f"{mn}:inputs are not destroyed", m.relpath,
            "no library routine is asked to overwrite its input (overwrite_input=True, overwrite_a=True ...): the array is used afterwards or belongs to the caller - also when the call sits in a __str__ that only a log handler runs",
            signature="overwrite " + "; ".join(t for _l, t in sites)[:150], sites=[f"line {l}: {t}" for l, t in sites], nontrivial=False,
        )
    fm = foreign_module_stores(P)
    ctx.check(
        not fm, rule, "bluebonnet:modules bind their own names", "src/bluebonnet",
        "no module assigns to an attribute of another module of the package: the functions defined there look their helpers up in that namespace when they are called",
        signature="foreign module store " + "; ".join(t for _f, _l, t in fm)[:150], sites=[f"{f}:{l}: {t}" for f, l, t in fm], nontrivial=False,
    )
    sc = scale_name_clashes(P)
    ctx.check(
        not sc, rule, "bluebonnet:one axis scale per name", "src/bluebonnet",
        "every class handed to matplotlib's register_scale has its own `name` (the registry is keyed by it; a subclass that inherits the name replaces its parent's scale)",
        signature="scale name " + "; ".join(t for _f, _l, t in sc)[:150], sites=[f"{f}:{l}: {t}" for f, l, t in sc], nontrivial=False,
    )
    check_restore(ctx, rule)
    pinned = json.load(open(pinned_path)) if os.path.exists(pinned_path) else {}
    bad = rebound_public_names(P, pinned)
    ctx.check(
        not bad, rule, "bluebonnet:one name, one function", "src/bluebonnet",
        "a public function name of the pinned tree is bound, wherever the package binds it, to the function of that name (no alias of another function, no wrapped re-binding)",
        signature="name re-bound " + "; ".join(t for _f, _l, t in bad)[:150], sites=[f"{f}:{l}: {t}" for f, l, t in bad],
        nontrivial=False,
    )
