"""Loop-carried names of a `for` loop: names assigned in the body that an iteration may read before it has assigned
them itself - their value then comes from the *previous* iteration (or from before the loop on the first one).

The interpreter executes a symbolic loop once, for a generic iteration; a loop-carried name is therefore not what it was
before the loop: it is replaced by an unknown (`name@carried`) so that no rule can mistake the first iteration's state
for every iteration's (a matrix assembled "once", a lagged time increment, an accumulator)."""
from __future__ import annotations

import ast

_SCOPES = (ast.FunctionDef, ast.AsyncFunctionDef, ast.Lambda, ast.ClassDef, ast.ListComp, ast.SetComp, ast.DictComp, ast.GeneratorExp)


def _walk_scope(node):
    """ast.walk that does not descend into nested scopes (their names are their own)"""
    stack = [node]
    while stack:
        n = stack.pop()
        yield n
        for c in ast.iter_child_nodes(n):
            if isinstance(c, _SCOPES):
                # free variables read inside a nested scope still count as reads of the enclosing one
                if isinstance(c, (ast.ListComp, ast.SetComp, ast.DictComp, ast.GeneratorExp)):
                    own = set()
                    for g in c.generators:
                        own |= {x.id for x in ast.walk(g.target) if isinstance(x, ast.Name)}
                    for x in ast.walk(c):
                        if isinstance(x, ast.Name) and isinstance(x.ctx, ast.Load) and x.id not in own:
                            yield x
                elif isinstance(c, ast.Lambda):
                    own = {a.arg for a in c.args.args + c.args.kwonlyargs + c.args.posonlyargs}
                    for x in ast.walk(c.body):
                        if isinstance(x, ast.Name) and isinstance(x.ctx, ast.Load) and x.id not in own:
                            yield x
                continue
            stack.append(c)


def stores(node):
    return {n.id for n in _walk_scope(node) if isinstance(n, ast.Name) and isinstance(n.ctx, (ast.Store, ast.Del))}


def reads(node):
    return {n.id for n in _walk_scope(node) if isinstance(n, ast.Name) and isinstance(n.ctx, ast.Load)}


def _leaves(stmts):
    """does the block always leave (raise / return / continue / break) at its end?"""
    return bool(stmts) and isinstance(stmts[-1], (ast.Raise, ast.Return, ast.Continue, ast.Break))


def carried(loop: ast.For):
    assigned = set()
    for st in loop.body:
        assigned |= stores(st)
    tgt = stores(loop.target)
    out = set()

    def check(rs, da):
        for r in rs:
            if r in assigned and r not in da and r not in tgt:
                out.add(r)

    def block(stmts, da):
        da = set(da)
        for st in stmts:
            if isinstance(st, ast.Assign):
                check(reads(st.value), da)
                for t in st.targets:
                    if isinstance(t, ast.Name):
                        da.add(t.id)
                    else:
                        check(reads(t), da)
                        da |= stores(t)
            elif isinstance(st, ast.AugAssign):
                check(reads(st.value) | reads(st.target) | ({st.target.id} if isinstance(st.target, ast.Name) else set()), da)
                if isinstance(st.target, ast.Name):
                    da.add(st.target.id)
            elif isinstance(st, ast.AnnAssign):
                if st.value is not None:
                    check(reads(st.value), da)
                    if isinstance(st.target, ast.Name):
                        da.add(st.target.id)
            elif isinstance(st, ast.If):
                check(reads(st.test), da)
                a, b = block(st.body, da), block(st.orelse, da)
                if _leaves(st.body):
                    da = b
                elif _leaves(st.orelse):
                    da = a
                else:
                    da = a & b
            elif isinstance(st, (ast.For, ast.While)):
                check(reads(st.iter if isinstance(st, ast.For) else st.test), da)
                block(st.body, set(da) | (stores(st.target) if isinstance(st, ast.For) else set()))
                block(st.orelse, da)
            elif isinstance(st, ast.Try):
                a = block(st.body, da)
                hs = [block(h.body, da) for h in st.handlers]
                a = block(st.orelse, a)
                live = [h for h, hd in zip(hs, st.handlers) if not _leaves(hd.body)]
                for h in live:
                    a = a & h
                da = block(st.finalbody, a)
            elif isinstance(st, ast.With):
                for it in st.items:
                    check(reads(it.context_expr), da)
                names = set()
                for it in st.items:
                    if it.optional_vars is not None:
                        names |= stores(it.optional_vars)
                da = block(st.body, da | names)
            elif isinstance(st, (ast.FunctionDef, ast.AsyncFunctionDef, ast.ClassDef)):
                da.add(st.name)
            else:
                check(reads(st), da)
                da |= stores(st)
        return da

    block(loop.body, set(tgt))
    return out


def selftest():
    src = """
for i in range(n):
    if m is None or not even:
        k = f(i)
        m = build(k)
    x[i + 1] = solve(m, x[i])
for i in range(n):
    try:
        a = g(i)
    except ValueError:
        raise
    y = a + 1
for i in range(n):
    total += v[i]
    w = [q for q in v if q > total]
"""
    loops = [n for n in ast.parse(src).body if isinstance(n, ast.For)]
    return carried(loops[0]) == {"m"} and carried(loops[1]) == set() and carried(loops[2]) == {"total"}
