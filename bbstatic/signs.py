"""Sign decisions for normal forms over a declared input box (E5): sound interval evaluation + branch and bound.

`decide(p, box, fn_env)` returns one of
    ('+', info)   p > 0 everywhere on the box        ('-', info)  p < 0 everywhere on the box
    ('?', info)   not decided within the cell budget; info['cell'] is an undecided cell and
                  info['neg_cell'] / info['pos_cell'] a cell on which the opposite sign is *proved*.

Method.  (1) the monomial content common to every term is split off (including the common part of the
exponent of e and of any other atom), because  A(x) * e^{g(x)}  expanded term by term would otherwise give
every term its own copy of the common factor's range;  (2) the remaining sum is bounded by outward-rounded
interval arithmetic (each elementary result widened by 1e-12 relative, three orders above the error of the
double operations involved);  (3) if the bound straddles zero the box is bisected along the symbol whose
halving shrinks the bound most, and the halves are decided recursively.  Natural interval extensions
converge under subdivision, so a strict sign that holds with a margin is eventually proved; a sign that does
not hold is *refuted* as soon as one cell is proved to have the opposite sign.  Nothing here evaluates
bluebonnet: the input is the normal form computed from its source.
"""
from __future__ import annotations

import math
from fractions import Fraction as F

from . import nf


class IntervalError(Exception):
    pass


W = 1e-12
TINY = 1e-300


def _widen(lo, hi):
    return (lo - abs(lo) * W - TINY, hi + abs(hi) * W + TINY)


def _mul(a, b):
    c = (a[0] * b[0], a[0] * b[1], a[1] * b[0], a[1] * b[1])
    return _widen(min(c), max(c))


def _add(a, b):
    return _widen(a[0] + b[0], a[1] + b[1])


def _safe_pow(x, y):
    try:
        return x**y
    except OverflowError:
        return math.inf
    except ZeroDivisionError:
        return math.inf


def _pow(base, expo):
    if expo[0] == expo[1] and float(expo[0]).is_integer() and abs(expo[0]) < 1e6:
        n = int(expo[0])
        if n == 0:
            return (1.0, 1.0)
        if n > 0:
            c = (_safe_pow(base[0], n), _safe_pow(base[1], n))
            if base[0] < 0 < base[1] and n % 2 == 0:
                return _widen(0.0, max(c))
            return _widen(min(c), max(c))
        if base[0] <= 0 <= base[1]:
            raise IntervalError("division by an interval containing zero")
        c = (_safe_pow(base[0], n), _safe_pow(base[1], n))
        return _widen(min(c), max(c))
    if base[0] <= 0:
        raise IntervalError("non-integer power of a base that may be non-positive")
    # x**y is monotone in x for fixed y and in y for fixed x (x > 0): extremes are at the corners
    c = (_safe_pow(base[0], expo[0]), _safe_pow(base[0], expo[1]), _safe_pow(base[1], expo[0]), _safe_pow(base[1], expo[1]))
    return _widen(min(c), max(c))


class Evaluator:
    """Interval evaluation of normal forms over one cell, memoised per (sub)polynomial key."""

    def __init__(self, cell, fn_env=None):
        self.cell = cell
        self.fn_env = fn_env or {}
        self.memo = {}

    def poly(self, p):
        return self.key(nf.key(p))

    def key(self, k):
        r = self.memo.get(k)
        if r is None:
            r = self.memo[k] = self._key(k)
        return r

    def _key(self, k):
        if len(k) == 1 and k[0][0] == () and k[0][1][1] == 1 and abs(k[0][1][0]) < 2**53:
            return (float(k[0][1][0]), float(k[0][1][0]))  # an integer constant is exact (it may be an exponent)
        lo = hi = 0.0
        for m, (n, d) in k:
            c = n / d
            t = _widen(c, c) if d != 1 else (float(c), float(c))
            for atom, e in m:
                try:
                    t = _mul(t, _pow(self.atom(atom), self.key(e) if e != nf.KONE else (1.0, 1.0)))
                except IntervalError as ex:
                    if " @ " in str(ex):
                        raise
                    raise IntervalError(f"{ex} @ {nf.show(nf.atom_poly(atom, nf.unkey(e)), 120)}") from None
            lo, hi = lo + t[0], hi + t[1]
        return _widen(lo, hi)

    def atom(self, atom):
        kind = atom[0]
        if kind == "sym":
            if atom[1] not in self.cell:
                raise IntervalError(f"no range declared for symbol {atom[1]}")
            return self.cell[atom[1]]
        if kind == "const":
            v = float(atom[1])
            return (v, v)
        if kind == "E":
            return _widen(math.e, math.e)
        if kind == "sum":
            return self.key(atom[1])
        if kind == "fn":
            name = atom[1]
            if name in self.fn_env:
                v = self.fn_env[name]
                return v(self, atom) if callable(v) else v
            args = [self.key(a) for a in atom[2]]
            if name == "log" and len(args) == 1:
                if args[0][0] <= 0:
                    raise IntervalError("log of an interval reaching zero")
                return _widen(math.log(args[0][0]), math.log(args[0][1]))
            if name == "abs" and len(args) == 1:
                a = args[0]
                if a[0] >= 0:
                    return a
                if a[1] <= 0:
                    return (-a[1], -a[0])
                return (0.0, max(-a[0], a[1]))
            if name in ("minimum", "min") and len(args) == 2:
                return (min(args[0][0], args[1][0]), min(args[0][1], args[1][1]))
            if name in ("maximum", "max") and len(args) == 2:
                return (max(args[0][0], args[1][0]), max(args[0][1], args[1][1]))
            if name == "clip" and len(args) == 3:
                lo = max(args[0][0], args[1][0])
                hi = min(args[0][1], args[2][1])
                return (min(lo, hi), max(lo, hi))
            raise IntervalError(f"no range declared for {name}(...)")
        raise IntervalError(f"unknown atom {kind}")


def factor_content(p):
    """(content, rest) with p == content * rest, content a single positive-or-sign-definite monomial.

    For every atom present in all terms: constant exponents -> the minimal one; symbolic exponents -> the
    terms (monomial, coefficient) shared by all the exponent polynomials."""
    monos = list(p)
    if len(monos) < 1:
        return nf.ONE, p
    common = []
    for atom, _ex in monos[0]:
        exs = [dict(m).get(atom) for m in monos]
        if any(x is None for x in exs):
            continue
        polys = [nf.unkey(x) for x in exs]
        if all(nf.is_const(q) for q in polys):
            common.append((atom, nf.key(nf.const(min(nf.cval(q) for q in polys)))))
            continue
        shared = dict(polys[0])
        for q in polys[1:]:
            for m in list(shared):
                if m == ():
                    continue
                if q.get(m) != shared[m]:
                    del shared[m]
        consts = [q.get((), F(0)) for q in polys]
        shared.pop((), None)
        c0 = min(consts)
        if c0:
            shared[()] = c0
        if shared:
            common.append((atom, nf.key(shared)))
    if not common:
        return nf.ONE, p
    gm = tuple(sorted(common, key=nf.rk))
    ginv = tuple((a, nf.key(nf.neg(nf.unkey(x)))) for a, x in gm)
    rest = {}
    for m, c in p.items():
        mm = nf.mono_mul(m, ginv)
        v = rest.get(mm, 0) + c
        if v:
            rest[mm] = v
        else:
            rest.pop(mm, None)
    return {gm: F(1)}, rest


def _sign_of(iv):
    if iv[0] > 0:
        return "+"
    if iv[1] < 0:
        return "-"
    return "?"


def _content_sign(content, cell, fn_env):
    """sign of the content monomial: every base must be sign-definite on the cell"""
    ev = Evaluator(cell, fn_env)
    return _sign_of(ev.poly(content))


def decide(p, box, fn_env=None, max_cells=4000, want=None):
    """Decide the sign of p on the box.  `want` ('+' or '-') lets the search stop at the first refuting cell."""
    info = {"cells": 0, "max_depth": 0}
    if not p:
        return "0", info
    content, rest = factor_content(p)
    free = sorted(nf.symbols(p) & set(box))
    missing = sorted(s for s in nf.symbols(p) if s not in box)
    if missing:
        return "?", dict(info, reason="no range declared for " + ",".join(missing))
    try:
        cs = _content_sign(content, {k: tuple(map(float, v)) for k, v in box.items()}, fn_env)
    except IntervalError as e:
        return "?", dict(info, reason=f"content: {e}")
    if cs == "?":
        content, rest, cs = nf.ONE, p, "+"
    rest_key = nf.key(rest)
    root = {k: (float(box[k][0]), float(box[k][1])) for k in box}
    widths0 = {k: (root[k][1] - root[k][0]) or 1.0 for k in free}
    stack = [(root, 0)]
    found = set()

    def bound(cell):
        return Evaluator(cell, fn_env).key(rest_key)

    while stack:
        cell, depth = stack.pop()
        info["cells"] += 1
        info["max_depth"] = max(info["max_depth"], depth)
        if info["cells"] > max_cells:
            return "?", dict(info, reason="cell budget exhausted", cell=_fmt(cell, free))
        try:
            iv = bound(cell)
        except IntervalError as e:
            return "?", dict(info, reason=str(e), cell=_fmt(cell, free))
        s = _sign_of(iv)
        if s != "?":
            found.add(s)
            full = s if cs == "+" else ("-" if s == "+" else "+")
            if want and full != want:
                return "?", dict(info, reason=f"opposite sign proved on a cell", refuted=True, cell=_fmt(cell, free), bound=iv)
            if len(found) == 2:
                return "?", dict(info, reason="both signs occur", refuted=True, cell=_fmt(cell, free))
            continue
        if not free:
            return "?", dict(info, reason="constant expression straddles zero", bound=iv)
        # split along the symbol whose bisection shrinks the bound most (tested on the two halves)
        best = None
        cands = sorted(free, key=lambda k: -(cell[k][1] - cell[k][0]) / widths0[k])
        for k in cands[:4]:
            lo, hi = cell[k]
            if hi - lo <= 1e-9 * widths0[k]:
                continue
            mid = 0.5 * (lo + hi)
            halves = []
            score = 0.0
            try:
                for part in ((lo, mid), (mid, hi)):
                    c2 = dict(cell)
                    c2[k] = part
                    b = bound(c2)
                    halves.append((c2, b))
                    score += max(0.0, min(-b[0], b[1]))  # how far the bound still straddles zero
            except IntervalError:
                continue
            if best is None or score < best[0]:
                best = (score, halves)
        if best is None:
            return "?", dict(info, reason="cell cannot be split further", cell=_fmt(cell, free), bound=iv)
        for c2, _b in best[1]:
            stack.append((c2, depth + 1))
    (s,) = found
    full = s if cs == "+" else ("-" if s == "+" else "+")
    return full, info


def _fmt(cell, free):
    return {k: [round(cell[k][0], 6), round(cell[k][1], 6)] for k in free}


def selftest():
    x, y = nf.sym("x"), nf.sym("y")
    box = {"x": (0.5, 3.0), "y": (1.0, 2.0)}
    # (x - y)^2 + 0.51 expanded: positive, but the natural extension straddles zero on the whole box
    p = nf.add(nf.add(nf.sub(nf.mul(x, x), nf.scale(nf.mul(x, y), 2)), nf.mul(y, y)), nf.const(F(1, 100)))
    a = decide(nf.add(p, nf.const(F(1, 2))), box, max_cells=20000)[0] == "+"
    # x*e^(-x) - 0.3 changes sign on [0.5, 3]
    q = nf.sub(nf.mul(x, nf.exp(nf.neg(x))), nf.const(F(3, 10)))
    b = decide(q, box)[0] == "?" and decide(q, box, want="+")[1].get("refuted")
    # content: e^(x y) * (2 - y^(1/2)) > 0
    r = nf.mul(nf.exp(nf.mul(x, y)), nf.sub(nf.const(2), nf.sqrt(y)))
    c = decide(r, box)[0] == "+"
    return bool(a and b and c)
