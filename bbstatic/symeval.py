"""E3 - abstract interpreter over the term domain (normal forms of nf.py).

This is a dataflow analysis whose abstract values are canonical terms: every local is bound
to the normal form of the expression that defines it, branches are partitioned by their
*syntactic* predicate (no predicate is ever solved or checked for feasibility), internal
callees are inlined, external callees become uninterpreted atoms and are logged with their
bound arguments.  Nothing from the analysed tree is imported or executed.
"""
from __future__ import annotations

import ast
import os
from dataclasses import dataclass, field
from fractions import Fraction as F

from . import nf
from .model import AnalysisError, ClassInfo, FunctionInfo, Program, mangle
from .values import (
    J, Arr2, BoolV, BoundExt, Buf, ClassV, DictV, EnumV, ExtObj, ExtV, FuncV, GenV, Inst, LambdaV, PartialV,
    NoneV, Num, RangeV, SetV, SliceV, StarV, StrV, SuperV, TupV, Val, Vec, const_num, sym_num,
)

MAX_DEPTH = 14
MAX_PATHS = 256

# positional parameter names of the external callables whose arguments rules bind by name.
# Cross-checked against inspect.signature of the installed libraries by `extsig.verify()`.
EXT_SIGS = {
    "scipy.integrate.cumulative_trapezoid": ["y", "x", "dx", "axis", "initial"],
    "scipy.integrate.trapezoid": ["y", "x", "dx", "axis"],
    "scipy.integrate.simpson": ["y", "x"],
    "numpy.trapezoid": ["y", "x", "dx", "axis"],
    "numpy.trapz": ["y", "x", "dx", "axis"],
    "scipy.integrate.quad": ["func", "a", "b", "args", "full_output", "epsabs", "epsrel", "limit"],
    "scipy.interpolate.interp1d": ["x", "y", "kind", "axis", "copy", "bounds_error", "fill_value", "assume_sorted"],
    "scipy.interpolate.LinearNDInterpolator": ["points", "values", "fill_value", "rescale"],
    "scipy.optimize.curve_fit": ["f", "xdata", "ydata", "p0", "sigma", "absolute_sigma", "check_finite", "bounds", "method", "jac"],
    "scipy.optimize.brentq": ["f", "a", "b", "args", "xtol", "rtol", "maxiter", "full_output", "disp"],
    "scipy.optimize.brenth": ["f", "a", "b", "args", "xtol", "rtol", "maxiter", "full_output", "disp"],
    "scipy.optimize.ridder": ["f", "a", "b", "args", "xtol", "rtol", "maxiter", "full_output", "disp"],
    "scipy.optimize.bisect": ["f", "a", "b", "args", "xtol", "rtol", "maxiter", "full_output", "disp"],
    "scipy.optimize.minimize": ["fun", "x0", "args", "method", "jac", "hess", "hessp", "bounds", "constraints", "tol", "callback", "options"],
    "scipy.sparse.diags": ["diagonals", "offsets", "shape", "format", "dtype"],
    "scipy.sparse.linalg.spsolve": ["A", "b", "permc_spec", "use_umfpack"],
    "scipy.sparse.linalg.bicgstab": ["A", "b", "x0"],
    "scipy.ndimage.uniform_filter1d": ["input", "size", "axis", "output", "mode", "cval", "origin"],
    "numpy.gradient": ["f", "*varargs"],
    "numpy.linspace": ["start", "stop", "num", "endpoint", "retstep", "dtype", "axis"],
    "numpy.arange": ["start", "stop", "step", "dtype"],
    "numpy.full": ["shape", "fill_value", "dtype", "order"],
    "numpy.full_like": ["a", "fill_value", "dtype", "order", "subok", "shape"],
    "numpy.empty_like": ["prototype", "dtype", "order", "subok", "shape"],
    "numpy.zeros_like": ["a", "dtype", "order", "subok", "shape"],
    "numpy.ones_like": ["a", "dtype", "order", "subok", "shape"],
    "numpy.clip": ["a", "a_min", "a_max", "out"],
    "numpy.sum": ["a", "axis", "dtype", "out", "keepdims"],
    "numpy.cumsum": ["a", "axis", "dtype", "out"],
    "numpy.where": ["condition", "x", "y"],
    "lmfit.minimize": ["fcn", "params", "method", "args", "kws", "iter_cb", "scale_covar", "nan_policy", "reduce_fcn", "calc_covar", "max_nfev"],
    "lmfit.Minimizer": ["userfcn", "params", "fcn_args", "fcn_kws", "iter_cb", "scale_covar", "nan_policy", "reduce_fcn", "calc_covar", "max_nfev"],
    "pandas.DataFrame": ["data", "index", "columns", "dtype", "copy"],
    "pandas.concat": ["objs"],
}
# parameters of methods of external receivers (receiver class unknown statically)
EXT_METHOD_SIGS = {
    "add": ["name", "value", "vary", "min", "max", "expr", "brute_step"],  # lmfit.Parameters.add
    "minimize": ["method", "params"],  # lmfit.Minimizer.minimize
}

_TABLE_METHODS = {"cumsum", "cumprod", "prod", "copy", "get", "keys", "items", "values", "update", "pop", "to_records", "to_numpy", "astype", "sum", "min", "max", "mean", "intersection", "rename", "drop", "reset_index", "sort_values"}

IDENTITY_EXT = {
    "numpy.array", "numpy.asarray", "numpy.asanyarray", "numpy.ascontiguousarray", "float", "numpy.float64",
    "copy.copy", "copy.deepcopy", "list", "tuple", "numpy.atleast_1d", "numpy.squeeze", "numpy.copy",
}


class _Rebind:
    """`name = expr` after `def name`: a post-definition wrapper, applied like an outermost decorator"""

    def __init__(self, name, expr):
        self.name, self.expr = name, expr
        self.func = expr  # so that code which looks at decorator expressions sees the statement's value

    lineno = property(lambda self: getattr(self.expr, "lineno", 0))


class _Return(Exception):
    def __init__(self, value):
        self.value = value


class _Raise(Exception):
    def __init__(self, exc_name, node, func):
        self.exc_name = exc_name
        self.node = node
        self.func = func


class _Break(Exception):
    pass


class _Continue(Exception):
    pass


class PathLimit(Exception):
    pass


@dataclass
class Event:
    kind: str  # ext_call | int_call | method_call | store_attr | store_sub | del_attr | raise | return
    func: str  # qualname of the function whose body contains the construct
    node: object
    data: dict
    conds: tuple = ()  # decisions in force when the event happened: ((descr, choice), ...)

    @property
    def line(self):
        return getattr(self.node, "lineno", 0)


@dataclass
class Path:
    decisions: list  # [(key, choice, descr)]
    outcome: str  # return | raise
    value: object
    events: list
    env: object
    exc: str = ""
    raise_node: object = None

    def took(self, descr_substr, choice=None):
        for _k, c, d in self.decisions:
            if descr_substr in d and (choice is None or c == choice):
                return True
        return False


class Decider:
    """Deterministic branch chooser: replays a prefix of choices, then takes True and records
    that the alternative has to be explored (trace partitioning by syntactic predicate)."""

    def __init__(self, prefix):
        self.prefix = list(prefix)
        self.trace = []  # [(key, choice, descr, forked)]
        self.by_key = {}

    def choose(self, key, descr, default=True):
        if key in self.by_key:
            return self.by_key[key]
        i = len(self.trace)
        if i < len(self.prefix):
            c = self.prefix[i]
            forked = False
        else:
            c = default
            forked = True
        self.trace.append((key, c, descr, forked))
        self.by_key[key] = c
        return c

    def conds(self):
        return tuple((d, c) for _k, c, d, _f in self.trace)


class Env:
    def __init__(self, parent=None, module=None, func=None):
        self.vars = {}
        self.parent = parent
        self.module = module
        self.func = func

    def lookup(self, name):
        e = self
        while e is not None:
            if name in e.vars:
                return e.vars[name]
            e = e.parent
        return None

    def set(self, name, val):
        if name in getattr(self, "nonlocals", ()):
            # `nonlocal name`: the binding lives in the nearest enclosing scope that has it
            e = self.parent
            while e is not None:
                if name in e.vars:
                    e.vars[name] = val
                    return
                e = e.parent
        self.vars[name] = val


class Interp:
    """One interpreter instance per analysed entry point and option set."""

    def __init__(
        self,
        program: Program,
        opaque=(),
        policy=None,
        array_mode=False,
        opaque_methods=(),
        attr_as_key=(),
        max_depth=MAX_DEPTH,
        keep_ext=(),
        stubs=None,
        erase_masks=True,
        log_divisions=False,
    ):
        self.P = program
        self.log_divisions = log_divisions  # record the denominator of every division (rules about vanishing denominators)
        self.opaque = set(opaque)  # internal qualnames that are not inlined
        self.opaque_methods = set(opaque_methods)
        self.policy = policy  # callable(BoolV, node, interp) -> True/False/None
        self.array_mode = array_mode
        self.attr_as_key = set(attr_as_key)
        self.max_depth = max_depth
        self.keep_ext = set(keep_ext)
        self.erase_masks = erase_masks  # x[mask] keeps the elementwise term (arrays); False: row selection is recorded
        self.stubs = dict(stubs or {})  # internal qualname -> callable(bound args) -> Val (replaces the call)
        self.decider = None
        self.events = []
        self.stack = []  # FunctionInfo being interpreted
        self.heap = {}  # (base key, index key) -> Val   (stores through opaque objects)
        self.attr_heap = {}  # (base key, attr) -> Val
        self._uid = 0
        self._mod_cache = {}

    # ------------------------------------------------------------------ drivers
    def explore(self, run):
        """run(interp) -> value.  Enumerates the trace partitions. Returns [Path]."""
        paths = []
        todo = [[]]
        while todo:
            prefix = todo.pop()
            if len(paths) >= MAX_PATHS:
                raise PathLimit(f"more than {MAX_PATHS} trace partitions")
            self.decider = Decider(prefix)
            self.events = []
            self.heap = {}
            self.attr_heap = {}
            self.stack = []
            self._uid = 0
            self.last_env = None
            outcome, value, exc, rnode = "return", None, "", None
            try:
                value = run(self)
            except _Raise as r:
                outcome, exc, rnode = "raise", r.exc_name, r.node
            tr = self.decider.trace
            paths.append(
                Path([(k, c, d) for k, c, d, _f in tr], outcome, value, self.events, self.last_env, exc, rnode)
            )
            for i in range(len(prefix), len(tr)):
                if tr[i][3]:
                    todo.append([t[1] for t in tr[:i]] + [not tr[i][1]])
        return paths

    def run_function(self, qualname, args=None, kwargs=None, self_val=None, parent_args=None):
        """Explore function `qualname` with symbolic parameters (or the given abstract values).
        For a nested function, `parent_args` gives the enclosing function's parameter values."""
        fi = self.P.func(qualname)
        self._parent_args = parent_args or {}

        def run(it):
            a = dict(args or {})
            sv = self_val
            params = fi.params
            if fi.cls is not None and params and params[0] == "self" and sv is None and "self" not in a:
                sv = Inst(fi.cls, {}, "self")
            bound = {}
            auto = it.symbolic_args(fi)
            for p in params + fi.kwonly:
                if p == "self" and fi.cls is not None:
                    continue
                if p in a:
                    bound[p] = a[p]() if callable(a[p]) else a[p]
                else:
                    bound[p] = auto[p]
            if fi.vararg:
                bound[fi.vararg] = a.get(fi.vararg, TupV([]))
            closure = None
            if fi.parent is not None:
                closure = it._closure_env_for(fi.parent)
            return it.enter(fi, bound, sv, closure, fi.cls)

        return self.explore(run)

    def enter(self, fi, bound, self_val=None, closure=None, owner=None):
        """Run an analysis entry point with the given parameter values.  A function that is decorated, or re-bound after
        its definition (`f = wrap(f)`), is what those wrappers make of it: it is then *called* the way the documentation
        calls it - positional parameters by position, keyword-only ones by name - so that the wrappers are interpreted."""
        if self._effective_decorators(fi) and fi.qualname not in self.opaque and fi.qualname not in self.stubs:
            first = fi.params[0] if fi.params else None
            pos_names = [p for p in fi.params if not (p in ("self", "cls") and fi.cls is not None and p == first)]
            if all(p in bound for p in pos_names):
                args = [bound[p] for p in pos_names]
                if fi.vararg and isinstance(bound.get(fi.vararg), TupV):
                    args += list(bound[fi.vararg].items)
                return self.call(FuncV(fi, closure, self_val, owner or fi.cls), args, {k: bound[k] for k in fi.kwonly if k in bound}, fi.node, None)
        return self._exec_function(fi, bound, self_val, closure, owner)

    _SIGNATURES = None
    _FIELDS = None
    _OPTION_CONTEXT = {}  # qualname -> {new optional parameter: ("const", expr, module) | ("sym",)}  (options.py)
    _ENTRY_SEEN = set()  # entry points at which a new optional parameter was bound

    def _new_optional(self, fi, names):
        """the parameters among `names` that the pinned signature of fi does not have and that have a default"""
        if Interp._SIGNATURES is None:
            self.symbolic_args(fi)
        known = Interp._SIGNATURES.get(fi.qualname.split("#")[0])
        if known is None or not getattr(self, "pin_defaults", True):
            return []
        d = fi.defaults()
        return [p for p in names if p not in known and p in d]

    _EQ_MEMO = None

    def _explicit_equals_default(self, fi, bound, extras, self_val):
        """Does fi, given `bound`, compute on every trace partition what it computes with `extras` left at their
        defaults?  Both are interpreted (the callee inlined, everything else as in this interpreter) and compared."""
        try:
            key = (id(self.P), fi.qualname, tuple(sorted(extras)), tuple((k, nf.key(self.to_nf(v))) for k, v in sorted(bound.items())), self.array_mode)
        except (AnalysisError, TypeError):
            return False
        memo = Interp._EQ_MEMO if Interp._EQ_MEMO is not None else {}
        Interp._EQ_MEMO = memo
        if key in memo:
            return memo[key]
        memo[key] = False  # a recursive question is answered conservatively

        def sig(args):
            sub = Interp(
                self.P, opaque=self.opaque - {fi.qualname}, policy=self.policy, array_mode=self.array_mode, opaque_methods=self.opaque_methods,
                attr_as_key=self.attr_as_key, keep_ext=self.keep_ext, stubs=self.stubs, erase_masks=self.erase_masks,
            )
            out = []
            for pth in sub.run_function(fi.qualname, args=args, self_val=self_val):
                v = pth.value
                out.append((tuple((k, c) for k, c, _d in pth.decisions), pth.outcome, pth.exc, nf.key(sub.to_nf(v)) if v is not None and pth.outcome == "return" else None))
            return sorted(out, key=repr)

        try:
            a = sig(dict(bound))
            b = sig({k: v for k, v in bound.items() if k not in extras})
            ok = a == b
        except (AnalysisError, nf.NFError, PathLimit):
            ok = False
        memo[key] = ok
        return ok

    def equal_calls(self, fi, args_a, args_b, self_val=None):
        """Does fi compute, on every trace partition, the same with the argument values `args_a` as with `args_b`
        (parameters not listed are symbols in both)?  Both are interpreted and compared."""

        def sig(args):
            sub = Interp(self.P, policy=self.policy, array_mode=self.array_mode)
            out = []
            for pth in sub.run_function(fi.qualname, args=args, self_val=self_val):
                v = pth.value
                out.append((tuple((k, c) for k, c, _d in pth.decisions), pth.outcome, pth.exc, nf.key(sub.to_nf(v)) if v is not None and pth.outcome == "return" else None, tuple((e.data.get("attr"), nf.key(sub.to_nf(e.data["value"])) if e.kind == "store_attr" else None) for e in pth.events if e.kind in ("store_attr", "del_attr"))))
            return sorted(out, key=repr)

        try:
            return sig(dict(args_a)) == sig(dict(args_b))
        except (AnalysisError, nf.NFError, PathLimit, TypeError):
            return False

    def _new_field_default(self, cls, attr):
        """A dataclass field with a default which the pinned field list of its class (signatures_pos.json,
        `<Class>.<fields>`) does not have is read at its default: existing users cannot have set it."""
        if not getattr(self, "pin_defaults", True):
            return None
        if Interp._FIELDS is None:
            import json as _json

            path = os.path.join(os.path.dirname(os.path.abspath(__file__)), "signatures_pos.json")
            Interp._FIELDS = _json.load(open(path)) if os.path.exists(path) else {}
        for c in cls.mro():
            if attr not in c.fields:
                continue
            known = Interp._FIELDS.get(f"{c.qualname}.<fields>")
            if known is None or attr in known or attr not in c.class_attrs:
                return None
            Interp._ENTRY_SEEN.add(f"{c.qualname}.<fields>")
            src = Interp._OPTION_CONTEXT.get(f"{c.qualname}.<fields>", {}).get(attr)
            if src is not None:
                return self.eval(src[1], Env(None, src[2], None)) if src[0] == "const" else sym_num(f"{attr}@option")
            d = c.class_attrs[attr]
            if isinstance(d, ast.Call) and ast.unparse(d.func).split(".")[-1] == "field":
                kw = {k.arg: k.value for k in d.keywords if k.arg}
                if "default" in kw:
                    d = kw["default"]
                elif "default_factory" in kw:
                    d = ast.Call(func=kw["default_factory"], args=[], keywords=[])
                    ast.copy_location(d, kw["default_factory"])
                    ast.fix_missing_locations(d)
                else:
                    return None
            return self.eval(d, Env(None, c.module, None))
        return None

    def symbolic_args(self, fi, skip_self=True):
        """{parameter: value} for an analysis entry point: a symbol per parameter - except that an optional parameter
        which the pinned signature of this function (bbstatic/signatures.json) does not have is evaluated at its
        default (extensions are analysed for the calls existing users can make)."""
        if Interp._SIGNATURES is None:
            import json as _json

            path = os.path.join(os.path.dirname(os.path.abspath(__file__)), "signatures.json")
            Interp._SIGNATURES = _json.load(open(path)) if os.path.exists(path) else {}
        known = Interp._SIGNATURES.get(fi.qualname.split("#")[0])
        defaults = fi.defaults()
        out = {}
        for p in fi.params + fi.kwonly:
            if skip_self and p in ("self", "cls") and fi.cls is not None and p == (fi.params[:1] or [None])[0]:
                continue
            if known is not None and p not in known and p in defaults and getattr(self, "pin_defaults", True):
                Interp._ENTRY_SEEN.add(fi.qualname.split("#")[0])
                src = Interp._OPTION_CONTEXT.get(fi.qualname.split("#")[0], {}).get(p)
                if src is None:
                    out[p] = self.eval(defaults[p], Env(None, fi.module, None))
                elif src[0] == "const":  # the value an internal caller hands over (options.py)
                    out[p] = self.eval(src[1], Env(None, src[2], None))
                else:
                    out[p] = sym_num(f"{p}@option")
            else:
                out[p] = sym_num(p)
        return out

    def _closure_env_for(self, parent: FunctionInfo):
        """Environment of an enclosing function, obtained by interpreting its body (first partition)
        with symbolic parameters up to the end; nested defs see its final bindings."""
        env = Env(None, parent.module, parent)
        if parent.parent is not None:
            env.parent = self._closure_env_for(parent.parent)
        pa = getattr(self, "_parent_args", {})
        for p in parent.params + parent.kwonly:
            v = pa.get(p)
            env.set(p, (v() if callable(v) else v) if v is not None else sym_num(p))
        self.stack.append(parent)
        try:
            try:
                self._exec_block(parent.node.body, env)
            except (_Return, _Raise):
                pass
        finally:
            self.stack.pop()
        return env

    # ------------------------------------------------------------------ helpers
    def cur_func(self):
        return self.stack[-1].qualname if self.stack else "<module>"

    def log(self, kind, node, **data):
        ev = Event(kind, self.cur_func(), node, data, self.decider.conds() if self.decider else ())
        self.events.append(ev)
        return ev

    def new_uid(self):
        self._uid += 1
        return self._uid

    def to_nf(self, v):
        """Numeric/term view of any value (opaque things become atoms)."""
        if isinstance(v, Num):
            return v.nf
        if isinstance(v, bool):
            return nf.const(int(v))
        if isinstance(v, BoolV):
            if v.kind == "const":
                return nf.const(1 if v.a else 0)
            if v.kind == "cmp":
                return nf.fn("cmp:" + v.op, v.a, v.b)
            if v.kind in ("and", "or"):
                return nf.fn("bool:" + v.kind, *sorted((self.to_nf(v.a), self.to_nf(v.b)), key=repr))
            if v.kind == "not":
                return nf.fn("bool:not", self.to_nf(v.a))
            return nf.sym(f"<bool:{v.kind}:{v.a!r}>")
        if isinstance(v, StrV):
            return nf.sym(repr(v.s))
        if isinstance(v, NoneV):
            return nf.sym("None")
        if isinstance(v, TupV):
            return nf.fn("tuple", *[self.to_nf(x) for x in v.items])
        if isinstance(v, SetV):
            return nf.fn("set", *sorted((self.to_nf(x) for x in v.items), key=repr))
        if isinstance(v, Vec):
            parts = [v.gen, v.length]
            for _k, (p, val) in sorted(v.over.items(), key=repr):
                parts += [p, val]
            return nf.fn("vec", *parts)
        if isinstance(v, ExtObj):
            names = sorted(v.args)
            return nf.fn(v.qual + "{" + ",".join(names) + "}", *[self.to_nf(v.args[n]) for n in names])
        if isinstance(v, Buf):
            if not v.items and not v.parts and v.fill is not None:
                return self.to_nf(v.fill)
            parts = []
            for k, x in sorted(v.items.items()):
                parts += [nf.const(k), self.to_nf(x)]
            for m, x in v.parts:
                parts += [self.to_nf(m), self.to_nf(x)]
            return nf.fn("buf:" + v.creator, *parts)
        if isinstance(v, FuncV):
            return nf.sym("<func " + v.info.qualname + ">")
        if isinstance(v, ClassV):
            return nf.sym("<class " + v.info.qualname + ">")
        if isinstance(v, ExtV):
            return nf.sym("<ext " + v.qual + ">")
        if isinstance(v, Inst):
            return nf.sym(v.name)
        if isinstance(v, DictV):
            parts = []
            for k in sorted(v.items, key=repr):
                parts += [nf.sym(repr(k)), self.to_nf(v.items[k])]
            return nf.fn("dict", *parts)
        if isinstance(v, Arr2):
            return nf.sym(v.name)
        if isinstance(v, LambdaV):
            return nf.sym(f"<lambda@{v.node.lineno}>")
        if isinstance(v, BoundExt):
            return nf.fn("." + v.meth, self.to_nf(v.recv))
        if isinstance(v, StarV):
            return nf.fn("*", self.to_nf(v.inner))
        if isinstance(v, SliceV):
            return nf.fn("slice", *[self.to_nf(x) for x in (v.lo, v.hi, v.step)])
        if isinstance(v, RangeV):
            return nf.fn("range", *[self.to_nf(a) for a in v.args])
        if isinstance(v, EnumV):
            return nf.fn("enumerate", self.to_nf(v.inner))
        return nf.sym(f"<{type(v).__name__}>")

    def num(self, v):
        return Num(self.to_nf(v))

    @staticmethod
    def single_atom(p):
        if len(p) == 1:
            ((m, c),) = p.items()
            if c == 1 and len(m) == 1 and m[0][1] == nf.KONE:
                return m[0][0]
        return None

    def name_of(self, p):
        a = self.single_atom(p)
        if a is not None and a[0] == "sym":
            return a[1]
        return nf.show(p, 300)

    # ------------------------------------------------------------------ statements
    def _exec_function(self, fi: FunctionInfo, bound: dict, self_val, closure_env, owner=None):
        if len(self.stack) >= self.max_depth or sum(1 for f in self.stack if f is fi) >= 2:
            raise AnalysisError(f"inlining depth/recursion limit reached at {fi.qualname}")
        env = Env(closure_env, fi.module, fi)
        if self_val is not None and fi.params and fi.params[0] == "self":
            env.set("self", self_val)
        if fi.cls is not None and fi.params and fi.params[0] == "cls" and self_val is not None:
            env.set("cls", self_val)
        for k, v in bound.items():
            env.set(k, v)
        env.owner = owner
        self.stack.append(fi)
        try:
            try:
                self._exec_block(fi.node.body, env)
                ret = NoneV()
            except _Return as r:
                ret = r.value
            self.last_env = env
            return ret
        finally:
            self.stack.pop()

    def _exec_block(self, stmts, env):
        for s in stmts:
            self._exec_stmt(s, env)

    def _exec_stmt(self, s, env):
        if isinstance(s, ast.Expr):
            if isinstance(s.value, ast.Constant):
                return
            v = self.eval(s.value, env)
            self._bind_out(s.value, v, env)
        elif isinstance(s, ast.Assign):
            v = self.eval(s.value, env)
            self._bind_out(s.value, v, env)
            for t in s.targets:
                self._assign(t, v, env, s)
        elif isinstance(s, ast.AnnAssign):
            if s.value is not None:
                self._assign(s.target, self.eval(s.value, env), env, s)
        elif isinstance(s, ast.AugAssign):
            cur = self.eval(_load(s.target), env)
            if isinstance(s.op, ast.BitOr) and isinstance(cur, DictV):
                # d |= other: d.update(other) on the same object
                self._call_method(cur, "update", [self.eval(s.value, env)], {}, s)
                return
            v = self._binop(s.op, cur, self.eval(s.value, env), s)
            self._assign(s.target, v, env, s)
        elif isinstance(s, ast.Return):
            raise _Return(self.eval(s.value, env) if s.value is not None else NoneV())
        elif isinstance(s, ast.If):
            t = self.eval(s.test, env)
            if self.decide(t, s.test):
                self._exec_block(s.body, env)
            else:
                self._exec_block(s.orelse, env)
        elif isinstance(s, ast.For):
            self._exec_for(s, env)
        elif isinstance(s, ast.While):
            self.log("while_test", s, test=self.eval(s.test, env))
            # loop-carried scalars (read in the body before the body assigns them) stand for "the value of the
            # previous iteration": they become symbols, so the body is the generic iteration
            for nm in _loop_carried(s.body):
                if isinstance(env.lookup(nm), Num):
                    env.set(nm, sym_num(nm))
            broke = False
            try:
                self._exec_block(s.body, env)
            except _Break:
                broke = True
            except _Continue:
                pass
            if s.orelse and not broke:
                self._exec_block(s.orelse, env)  # while ... else: runs when the loop ends without break
        elif isinstance(s, ast.Raise):
            name = ""
            if s.exc is not None:
                e = s.exc.func if isinstance(s.exc, ast.Call) else s.exc
                name = ast.unparse(e)
            self.log("raise", s, exc=name)
            raise _Raise(name, s, self.cur_func())
        elif isinstance(s, ast.Try):
            # each handler is a trace partition "the try body raised <type>" (never decided, only labelled)
            for h in s.handlers:
                name = ast.unparse(h.type) if h.type is not None else "BaseException"
                if self.decider.choose(("exc", name, s.lineno), f"{name} raised in try block at line {s.lineno}", default=False):
                    if h.name:
                        env.set(h.name, ExtObj("exception:" + name, {}, h))
                    # `finally` runs whatever leaves the handler (a return, a raise, a break); a return inside it overrides
                    try:
                        self._exec_block(h.body, env)
                    finally:
                        self._exec_block(s.finalbody, env)
                    return
            try:
                self._exec_block(s.body, env)
                self._exec_block(s.orelse, env)
            finally:
                self._exec_block(s.finalbody, env)
        elif isinstance(s, ast.With):
            for item in s.items:
                v = self.eval(item.context_expr, env)
                if item.optional_vars is not None:
                    self._assign(item.optional_vars, v, env, s)
            self._exec_block(s.body, env)
        elif isinstance(s, (ast.FunctionDef, ast.AsyncFunctionDef)):
            fi = self.P.by_node.get(id(s))
            if fi is None:
                raise AnalysisError(f"nested function {s.name} not indexed")
            env.set(s.name, FuncV(fi, env))
        elif isinstance(s, ast.Delete):
            for t in s.targets:
                if isinstance(t, ast.Attribute):
                    base = self.eval(t.value, env)
                    aname = self._mangled(t.attr, env)
                    self.log("del_attr", s, base=base, attr=aname)
                    if isinstance(base, Inst):
                        base.attrs.pop(aname, None)
                elif isinstance(t, ast.Name):
                    env.vars.pop(t.id, None)
        elif isinstance(s, ast.Nonlocal):
            env.nonlocals = set(getattr(env, "nonlocals", ())) | set(s.names)
        elif isinstance(s, (ast.Import, ast.ImportFrom)):
            # an import inside a function binds local names (a dependency imported where it is used)
            mod = env.module
            for a in s.names:
                if isinstance(s, ast.Import):
                    local = a.asname or a.name.split(".")[0]
                    dotted = a.name if a.asname else a.name.split(".")[0]
                else:
                    if a.name == "*":
                        continue
                    base = s.module or ""
                    if s.level and mod is not None:
                        parts = mod.name.split(".")
                        base = ".".join(parts[: len(parts) - s.level + (1 if mod.path.endswith("__init__.py") else 0)] + ([base] if base else []))
                    local, dotted = a.asname or a.name, f"{base}.{a.name}"
                q = self.P.canonical(dotted)
                if q in self.P.functions:
                    env.set(local, FuncV(self.P.functions[q], None))
                elif q in self.P.classes:
                    env.set(local, ClassV(self.P.classes[q]))
                else:
                    mname_, _, attr_ = dotted.rpartition(".")
                    src_ = self.P.modules.get(mname_)
                    if src_ is not None and attr_ and (attr_ in src_.constants or attr_ in src_.rebinds or attr_ in src_.imports):
                        env.set(local, self._global(attr_, src_))
                    else:
                        env.set(local, ExtV(q))
        elif isinstance(s, (ast.Pass, ast.Global, ast.ClassDef, ast.Assert)):
            return
        elif isinstance(s, ast.Break):
            raise _Break()
        elif isinstance(s, ast.Continue):
            raise _Continue()
        elif isinstance(s, ast.Match):
            self._exec_match(s, env)
        else:
            raise AnalysisError(f"{self.cur_func()}:{s.lineno}: unsupported statement {type(s).__name__}")

    def _exec_match(self, s, env):
        """match on literal values, `|` alternatives of them, captures and the wildcard: the if / elif chain it abbreviates"""
        subj = self.eval(s.subject, env)

        def test(pat):
            if isinstance(pat, ast.MatchValue):
                return self._compare(ast.Eq(), subj, self.eval(pat.value, env))
            if isinstance(pat, ast.MatchSingleton):
                v = NoneV() if pat.value is None else BoolV("const", bool(pat.value))
                return self._compare(ast.Is(), subj, v)
            if isinstance(pat, ast.MatchOr):
                out = None
                for q in pat.patterns:
                    t = test(q)
                    out = t if out is None else BoolV("or", out, t)
                return out
            if isinstance(pat, ast.MatchAs):
                if pat.pattern is None:
                    if pat.name:
                        env.set(pat.name, subj)  # a capture (or `_`): matches everything
                    return BoolV("const", True)
                t = test(pat.pattern)
                if pat.name:
                    env.set(pat.name, subj)
                return t
            raise AnalysisError(f"{self.cur_func()}:{s.lineno}: unsupported match pattern {type(pat).__name__}")

        for case in s.cases:
            if self.decide(test(case.pattern), case.pattern) and (case.guard is None or self.decide(self.eval(case.guard, env), case.guard)):
                self._exec_block(case.body, env)
                return

    def _bind_out(self, call, result, env):
        """np.f(..., out=name): afterwards the array called `name` holds the result (a buffer that is not an explicit
        vector cannot be updated in place in the term domain: the name is re-bound to the result)"""
        if not (isinstance(call, ast.Call) and result is not None):
            return
        for k in call.keywords:
            if k.arg in ("out", "output") and isinstance(k.value, ast.Name):
                cur = env.lookup(k.value.id)
                if cur is not None and not (isinstance(cur, Vec) and isinstance(result, Vec)) and not isinstance(result, NoneV):
                    env.set(k.value.id, result)

    def _exec_for(self, s, env):
        it = self.eval(s.iter, env)
        shift = None
        if isinstance(it, RangeV) and len(it.args) == 2 and all(isinstance(a, Num) for a in it.args):
            k0 = nf.as_int(it.args[0].nf)
            if k0 is not None and k0 != 0 and nf.as_int(it.args[1].nf) is None:
                # range(a, n) with a constant start: the counter is i + a with i running over range(n - a) - the loop is
                # recorded in that normal form, so `for k in range(1, n): x[k] = f(x[k - 1])` reads like the 0-based loop
                shift = it.args[0]
                it = RangeV([Num(nf.sub(it.args[1].nf, it.args[0].nf))])
        self.log("for_iter", s, iter=it)
        items = None
        if isinstance(it, ClassV):
            items = self._enum_members(it, s)
        if isinstance(it, (TupV, SetV)):
            items = it.items
        elif isinstance(it, DictV):
            items = [StrV(k) if isinstance(k, str) else const_num(k) for k in it.items]
        elif isinstance(it, EnumV) and isinstance(it.inner, TupV) and not it.inner.rowview:
            # enumerate(<literal sequence>): the literal pairs (k, item)
            items = [TupV([const_num(k), x]) for k, x in enumerate(it.inner.items)]
        elif isinstance(it, StrV) and it.s != "<str-expr>":
            items = [StrV(ch) for ch in it.s]  # a string iterates over its characters
        if items is not None and len(items) <= 12:
            for x in items:
                self._assign(s.target, x, env, s)
                try:
                    self._exec_block(s.body, env)
                except _Continue:
                    continue
                except _Break:
                    break
            else:
                self._exec_block(s.orelse, env)
            return
        if isinstance(it, GenV):
            # run the generator's body; at every `yield v` bind the target to v and run the loop body
            def consume(v):
                self._assign(s.target, v, env, s)
                try:
                    self._exec_block(s.body, env)
                except _Continue:
                    pass
                except _Break:
                    raise _GenStop() from None

            self.run_generator(it, consume)
            return
        name = s.target.id if isinstance(s.target, ast.Name) else None
        # the body is executed once, for a generic iteration: a name that an iteration may read before assigning it holds
        # what the previous iteration left there (loops.py) - not what it held before the loop
        from . import loops

        for cn in sorted(loops.carried(s)):
            if env.lookup(cn) is not None:
                self.log("carried", s, name=cn, before=env.lookup(cn))
                env.set(cn, sym_num(f"{cn}@carried"))
        if isinstance(it, RangeV):
            cv = sym_num(self._counter_symbol(name, s) if name else "@k")
            if shift is not None:
                cv = Num(nf.add(cv.nf, shift.nf))
            self._assign(s.target, cv, env, s)
        elif isinstance(it, EnumV):
            if isinstance(s.target, ast.Tuple) and len(s.target.elts) == 2 and isinstance(s.target.elts[0], ast.Name):
                iv = sym_num(self._counter_symbol(s.target.elts[0].id, s))
                self._assign(s.target.elts[0], iv, env, s)
                self._assign(s.target.elts[1], self._index(it.inner, iv, s), env, s)
            else:
                self._assign(s.target, self.num(it), env, s)
        elif isinstance(it, ExtObj) and it.qual == "zip" and it.args and all(k.isdigit() for k in it.args) and all(isinstance(v, (Num, Vec)) for v in it.args.values()):
            # zip(a, b, ...) of arrays: the generic element is the tuple of the arrays' generic elements
            self._assign(s.target, TupV([self._element_of(it.args[k]) for k in sorted(it.args, key=int)]), env, s)
        else:
            # elementwise view of an array-like iterable
            self._assign(s.target, self._element_of(it), env, s)
        # `out = []` ... `for x in array: out.append(f(x))`: lists that are empty when the loop over an array starts
        arrayish = isinstance(it, (Num, Vec)) or (isinstance(it, ExtObj) and it.qual == "zip" and it.args and all(isinstance(v, (Num, Vec)) for v in it.args.values()))
        empties = {k: v for k, v in env.vars.items() if isinstance(v, TupV) and v.is_list and not v.items} if arrayish else {}
        lens = {k: len(v.items) for k, v in env.vars.items() if isinstance(v, TupV) and v.is_list}
        self._loop_depth = getattr(self, "_loop_depth", 0) + 1
        broke = False
        try:
            self._exec_block(s.body, env)
        except _Break:
            broke = True
        except _Continue:
            pass
        finally:
            self._loop_depth -= 1
        if s.orelse and not broke:
            self._exec_block(s.orelse, env)  # for ... else: on the partition where no iteration breaks
        for k, lst in empties.items():
            if env.vars.get(k) is lst and len(lst.items) == 1 and isinstance(lst.items[0], Num) and not any(isinstance(n_, (ast.Break, ast.Continue, ast.If)) for st in s.body for n_ in ast.walk(st)):
                # one unconditional append per element: the list is the comprehension [f(x) for x in array] - its
                # elementwise view is the element term
                v = lst.items[0]
                self._listviews = getattr(self, "_listviews", set())
                self._listviews.add(id(v))
                self._keepalive = getattr(self, "_keepalive", [])
                self._keepalive.append(v)
                env.vars[k] = v
        for k, n0 in lens.items():
            v = env.vars.get(k)
            if isinstance(v, TupV) and v.is_list and len(v.items) != n0:
                # a list that grows in a loop executed for a generic iteration has an unknown number of entries: it is
                # not the literal list the single pass over the body left behind
                env.vars[k] = Num(nf.fn("list@loop", *[self.to_nf(x) for x in v.items]))

    def run_generator(self, gen, consume):
        if gen.consumed:
            return  # an exhausted generator yields nothing
        gen.consumed = True
        self._yield_stack = getattr(self, "_yield_stack", [])
        self._yield_stack.append((consume, len(self.stack)))
        depth = getattr(self, "_loop_depth", 0)
        try:
            self._exec_function(gen.info, gen.bound, gen.self_val, gen.env, gen.owner)
        except _GenStop:
            pass
        finally:
            self._yield_stack.pop()
            self._loop_depth = depth

    def collect_generator(self, gen):
        """list(gen): only for generators whose body has no loop (every yield is reached at most once per path)"""
        if any(isinstance(n, (ast.For, ast.While)) for n in ast.walk(gen.info.node)):
            raise AnalysisError(f"{gen.info.qualname}: a generator with a loop is consumed as a whole sequence (unsupported)")
        out = []
        self.run_generator(gen, out.append)
        return TupV(out)

    def _e_Yield(self, n, env):
        v = self.eval(n.value, env) if n.value is not None else NoneV()
        stack = getattr(self, "_yield_stack", None)
        if not stack:
            raise AnalysisError(f"{self.cur_func()}:{n.lineno}: yield outside a consumed generator")
        # the consumer's body runs in the consumer's frame: suspend the generator's frames and its yield handler
        consume, base = stack.pop()
        frames = self.stack[base:]
        del self.stack[base:]
        try:
            consume(v)
        finally:
            self.stack.extend(frames)
            stack.append((consume, base))
        return NoneV()

    def _counter_symbol(self, name, s):
        """Symbol for the counter of an index loop.  The counter of an outermost index loop is written `i` whatever it
        is called in the source (step, k, n, ...), so that normal forms do not depend on the programmer's choice of
        name - unless the enclosing function uses the name `i` for something else."""
        if name == "i" or getattr(self, "_loop_depth", 0) > 0 or not self.stack:
            return name
        fn = self.stack[-1].node
        for n in ast.walk(fn):
            if isinstance(n, ast.Name) and n.id == "i" or isinstance(n, ast.arg) and n.arg == "i":
                return name
        return "i"

    def _element_of(self, it):
        if isinstance(it, (Num, Vec)):
            return it if isinstance(it, Num) else Num(it.gen)
        return self.num(it)

    def _assign(self, t, v, env, stmt):
        if isinstance(t, ast.Name):
            env.set(t.id, v)
        elif isinstance(t, (ast.Tuple, ast.List)):
            n = len(t.elts)
            star = [k for k, e in enumerate(t.elts) if isinstance(e, ast.Starred)]
            if star:
                # head, *rest = seq: the starred name gets the list of what the others leave
                if len(star) != 1:
                    raise AnalysisError(f"{self.cur_func()}: two starred targets at line {stmt.lineno}")
                k = star[0]
                tail = n - 1 - k
                if not (isinstance(v, TupV) and len(v.items) >= n - 1):
                    if isinstance(v, (Vec, Arr2, Buf, Inst, DictV)):
                        raise AnalysisError(f"{self.cur_func()}: starred unpacking of something else than a sequence of known length at line {stmt.lineno}")
                    # an opaque sequence: its elements by position (from the front, from the back), the rest as one term
                    base = self.to_nf(v)
                    for i, e in enumerate(t.elts[:k]):
                        # (element i of the tuple an external call returns: the same object as in `a, b = f()`)
                        self._assign(e, ExtObj(v.qual + f"[{i}]", {"of": v}, v.node, uid=self.new_uid()) if isinstance(v, ExtObj) else Num(nf.fn("item", base, nf.const(i))), env, stmt)
                    self._assign(t.elts[k].value, Num(nf.fn("items", base, nf.const(k), nf.const(-tail))), env, stmt)
                    for i, e in enumerate(t.elts[k + 1 :]):
                        self._assign(e, Num(nf.fn("item", base, nf.const(i - tail))), env, stmt)
                    return
                items = list(v.items)
                mid = items[k : len(items) - tail]
                for e, x in zip(t.elts[:k], items[:k]):
                    self._assign(e, x, env, stmt)
                self._assign(t.elts[k].value, TupV(mid, is_list=True) if "is_list" in getattr(TupV, "__dataclass_fields__", {}) else TupV(mid), env, stmt)
                for e, x in zip(t.elts[k + 1 :], items[len(items) - tail :] if tail else []):
                    self._assign(e, x, env, stmt)
                return
            if isinstance(v, TupV) and len(v.items) == n:
                parts = v.items
            elif isinstance(v, ExtObj) and v.qual == "zip" and v.args and all(k.isdigit() for k in v.args):
                # a, b, ... = zip(s, t, ...): element k of the zip is the tuple (s[k], t[k], ...)
                seqs = [v.args[k] for k in sorted(v.args, key=int)]
                parts = [TupV([self._index(sq, const_num(i), stmt) for sq in seqs]) for i in range(n)]
            else:
                base = self.to_nf(v)
                parts = [Num(nf.fn("item", base, nf.const(i))) for i in range(n)]
                if isinstance(v, ExtObj):
                    parts = [ExtObj(v.qual + f"[{i}]", {"of": v}, v.node, uid=self.new_uid()) for i in range(n)]
            for e, x in zip(t.elts, parts):
                self._assign(e, x, env, stmt)
        elif isinstance(t, ast.Attribute):
            base = self.eval(t.value, env)
            self.store_attribute(base, self._mangled(t.attr, env), v, stmt)
        elif isinstance(t, ast.Subscript):
            base = self.eval(t.value, env)
            self._store_sub(base, t, v, env, stmt)
        elif isinstance(t, ast.Starred):
            self._assign(t.value, v, env, stmt)
        else:
            raise AnalysisError(f"unsupported assignment target {type(t).__name__}")

    def store_attribute(self, base, attr, v, stmt, raw=False):
        """obj.attr = v.  A class that defines __setattr__ decides what is stored: its method is interpreted (the plain
        store happens when it reaches object.__setattr__ / super().__setattr__)."""
        if isinstance(base, Inst) and not raw:
            hook = base.cls.lookup("__setattr__")
            active = getattr(self, "_setattr_active", set())
            if hook is not None and id(base) not in active:
                self._setattr_active = active | {id(base)}
                try:
                    owner = next(c for c in base.cls.mro() if "__setattr__" in c.methods)
                    self.call(FuncV(hook, None, base, owner, raw=True), [StrV(attr), v], {}, stmt, None)
                finally:
                    self._setattr_active = active
                return
        self.log("store_attr", stmt, base=base, attr=attr, value=v)
        if isinstance(base, (Inst, ExtObj)):
            base.attrs[attr] = v
        else:
            self.attr_heap[(nf.key(self.to_nf(base)), attr)] = v

    def _store_sub(self, base, t, v, env, stmt):
        idx = self._eval_index(t.slice, env)
        if isinstance(base, Num) and isinstance(idx, BoolV) and idx.kind == "cmp" and isinstance(t.value, ast.Name) and getattr(self, "array_mode", False):
            # a masked store into an array that so far is an element-wise expression (mu = f(p); mu[p >= pb] = g(...)):
            # from here on the name is a result buffer filled with that expression, with one masked part
            a_ = self.single_atom(base.nf)
            if not (a_ is not None and a_[0] == "sym"):
                buf = Buf(base, None, {}, [], "expression", stmt)
                env.set(t.value.id, buf)
                base = buf
        self._store_index(base, idx, v, stmt)

    def _store_index(self, base, idx, v, stmt):
        self.log("store_sub", stmt, base=base, index=idx, value=v)
        if isinstance(base, Buf):
            if isinstance(idx, Num) and nf.as_int(idx.nf) is not None:
                base.items[nf.as_int(idx.nf)] = v
            else:
                base.parts.append((idx, v))
                a = self.single_atom(idx.nf) if isinstance(idx, Num) else None
                if a is not None and a[0] == "fn" and a[1] == "argsort" and isinstance(v, Vec) and not v.over and v.gen == nf.sym(J) and len(base.parts) == 1 and not base.items:
                    # buf[order] = arange(n) with order a permutation (argsort): buf is the inverse permutation
                    base.kwargs = dict(base.kwargs or {}, invperm_of=idx)
            return
        if isinstance(base, Vec) and isinstance(idx, Num):
            k = nf.as_int(idx.nf)
            pos = base.norm_pos(k) if k is not None else idx.nf
            base.over[nf.key(pos)] = (pos, self.to_nf(v))
            return
        if isinstance(base, DictV) and isinstance(idx, StrV):
            base.items[idx.s] = v
            return
        if isinstance(base, TupV) and isinstance(idx, Num) and nf.as_int(idx.nf) is not None:
            k = nf.as_int(idx.nf)
            if -len(base.items) <= k < len(base.items):
                base.items[k] = v
                return
        if isinstance(base, Arr2):
            self._store_row(base, idx, v)
            return
        self.heap[(nf.key(self.to_nf(base)), nf.key(self.to_nf(idx)))] = v

    def _store_row(self, arr, idx, v):
        """arr[level, <all | j | a:>] = v with a constant level: keep the row as an explicit vector"""
        if isinstance(idx, TupV) and len(idx.items) == 2 and _is_slice(idx.items[0]) and _slice_bounds(idx.items[0]) == (None, None) and isinstance(idx.items[1], Num) and nf.as_int(idx.items[1].nf) is not None:
            # arr[:, j] = v : column j of every row
            arr.cols[nf.as_int(idx.items[1].nf)] = v
            return
        if not (isinstance(idx, TupV) and len(idx.items) == 2 and isinstance(idx.items[0], Num)):
            return
        lev, col = idx.items
        if nf.as_int(lev.nf) is None:
            return
        k = nf.key(lev.nf)
        old = arr.rows.get(k)
        ncol = arr.shape[1]
        init = nf.const(0) if arr.creator in ("zeros", "zeros_like") else nf.ONE if arr.creator in ("ones", "ones_like") else nf.sym("<uninitialised>")
        if _is_slice(col):
            lo, hi = _slice_bounds(col)
            if lo is False or hi is False or (lo or 0) < 0 or (lo or 0) > 4 or (hi is not None and not -4 <= hi <= -1):
                arr.rows.pop(k, None)
                return
            lo = lo or 0
            if isinstance(v, Vec):
                new = Vec(nf.subst_sym(v.gen, {J: nf.sub(nf.sym(J), nf.const(lo))}), ncol, {})
                for _kk, (pos, x) in v.over.items():
                    np_ = nf.add(pos, nf.const(lo))
                    new.over[nf.key(np_)] = (np_, x)
            else:
                new = Vec(self.to_nf(v), ncol, {})
            for j in range(lo):  # positions before the slice keep what was there
                pj = nf.const(j)
                if old is not None:
                    new.over[nf.key(pj)] = (pj, old.at(pj))
                else:
                    new.over[nf.key(pj)] = (pj, init)
            for j in range(hi or 0, 0):  # positions after the slice (arr[r, lo:-m]) keep what was there
                pj = nf.add(ncol, nf.const(j))
                new.over[nf.key(pj)] = (pj, old.at(pj) if old is not None else init)
            arr.rows[k] = new
            return
        if isinstance(col, Num) and nf.as_int(col.nf) is not None:
            j = nf.as_int(col.nf)
            if old is None:
                old = Vec(init, ncol, {})
            pos = old.norm_pos(j)
            old.over[nf.key(pos)] = (pos, self.to_nf(v))
            arr.rows[k] = old

    # ------------------------------------------------------------------ decisions
    def decide(self, t, node):
        if isinstance(t, BoolV):
            if t.kind == "const":
                return bool(t.a)
            if t.kind == "not":
                return not self.decide(t.a, node)
            if t.kind == "and":
                return self.decide(t.a, node) and self.decide(t.b, node)
            if t.kind == "or":
                return self.decide(t.a, node) or self.decide(t.b, node)
        elif isinstance(t, NoneV):
            return False
        elif isinstance(t, Inst) and (t.cls.lookup("__bool__") is not None or t.cls.lookup("__len__") is not None):
            # truth of an object is what its __bool__ (else its __len__) says
            m = t.cls.lookup("__bool__") or t.cls.lookup("__len__")
            r = self.call(FuncV(m, None, t, m.cls), [], {}, node, None)
            if m.name == "__len__":
                r = self._compare(ast.NotEq(), r, Num(nf.const(0)))
            return self.decide(r, node)
        elif isinstance(t, Num) and nf.is_const(t.nf):
            return bool(nf.cval(t.nf))
        elif not isinstance(t, BoolV):
            t = BoolV("opaque", nf.show(self.to_nf(t), 200))
        if self.policy is not None:
            r = self.policy(t, node, self)
            if r is not None:
                return r
        key, negated, descr = self._cond_key(t)
        c = self.decider.choose(key, descr)
        return (not c) if negated else c

    def _cond_key(self, t: BoolV):
        if t.kind == "cmp":
            d = nf.sub(t.a, t.b)
            a, b = nf.show(t.a, 160), nf.show(t.b, 160)
            if t.op == ">=":
                return ("ge", nf.key(d)), False, f"{a} >= {b}"
            if t.op == "<":
                return ("ge", nf.key(d)), True, f"{a} >= {b}"
            if t.op == ">":
                return ("gt", nf.key(d)), False, f"{a} > {b}"
            if t.op == "<=":
                return ("gt", nf.key(d)), True, f"{a} > {b}"
            if t.op == "==":
                return ("eq", nf.key(d)), False, f"{a} == {b}"
            if t.op == "!=":
                return ("eq", nf.key(d)), True, f"{a} == {b}"
            return ("cmp", t.op, nf.key(t.a), nf.key(t.b)), False, f"{a} {t.op} {b}"
        return ("opaque", str(t.a)), False, str(t.a)

    # ------------------------------------------------------------------ expressions
    def eval(self, n, env) -> Val:
        m = getattr(self, "_e_" + type(n).__name__, None)
        if m is None:
            raise AnalysisError(f"{self.cur_func()}:{getattr(n, 'lineno', 0)}: unsupported expression {type(n).__name__}")
        return m(n, env)

    def _e_Constant(self, n, env):
        v = n.value
        if isinstance(v, bool):
            return BoolV("const", v)
        if isinstance(v, (int, float)):
            mod = env.module
            txt = mod.segment(n) if mod is not None else None
            try:
                return Num(nf.const_text(txt)) if txt else Num(nf.const(F(str(v))))
            except Exception:
                return Num(nf.const(F(repr(v))))
        if isinstance(v, str):
            return StrV(v)
        if v is None:
            return NoneV()
        if v is Ellipsis:
            return StrV("...")
        return sym_num(repr(v))

    def _e_Name(self, n, env):
        v = env.lookup(n.id)
        if v is not None:
            return v
        return self._global(n.id, env.module)

    def _global(self, name, mod):
        if mod is not None and name in getattr(mod, "alternatives", {}) and self.decider is not None:
            # bound differently by the arms of a module-level `if / else` or `try / except`: one partition per arm
            alts = mod.alternatives[name]
            pick = len(alts) - 1
            for k, (lab, _kind, _pl) in enumerate(alts[:-1]):
                if self.decider.choose(("modalt", mod.name, name, k), f"{mod.name.split('.')[-1]}.{name} bound where {lab}"):
                    pick = k
                    break
            lab, kind, pl = alts[pick]
            if kind == "func":
                return FuncV(self.P.by_node[id(pl)], None)
            if kind == "import":
                st, a = pl
                base = st.module or ""
                if st.level:
                    parts = mod.name.split(".")
                    base = ".".join(parts[: len(parts) - st.level + (1 if mod.path.endswith("__init__.py") else 0)] + ([base] if base else []))
                q = self.P.canonical(f"{base}.{a.name}")
                if q in self.P.functions:
                    return FuncV(self.P.functions[q], None)
                if q in self.P.classes:
                    return ClassV(self.P.classes[q])
                return ExtV(q)
            if kind == "importmod":
                return ExtV(self.P.canonical(pl))
            return self.eval(pl, Env(None, mod, None))
        if mod is not None:
            if name in mod.functions:
                return FuncV(mod.functions[name], None)
            if name in mod.classes:
                return ClassV(mod.classes[name])
            if name in mod.imports:
                mname_, _, attr_ = mod.imports[name].rpartition(".")
                src_ = self.P.modules.get(mname_)
                if src_ is not None and src_ is not mod and attr_ and (attr_ in src_.rebinds or attr_ in src_.constants or attr_ in getattr(src_, "alternatives", {})) and attr_ not in src_.functions and attr_ not in src_.classes:
                    # imported from a module of the package that itself (re-)binds the name: what that module holds
                    return self._global(attr_, src_)
                q = self.P.canonical(mod.imports[name])
                if q in self.P.functions:
                    v = FuncV(self.P.functions[q], None)
                elif q in self.P.classes:
                    v = ClassV(self.P.classes[q])
                else:
                    v = ExtV(q)
                upto = getattr(self, "_modline", None)
                for e in mod.rebinds.get(name, ()):  # imported name re-bound at module level: `f = wrap(f)`
                    if upto is not None and getattr(e, "lineno", 0) >= upto:
                        continue  # a module-level statement sees the bindings made above it only
                    renv = Env(None, mod, None)
                    renv.set(name, v)
                    old_line, self._modline = upto, getattr(e, "lineno", None)
                    try:
                        v = self.eval(e, renv)
                    finally:
                        self._modline = old_line
                return v
            if name in mod.constants:
                ck = (mod.name, name)
                if ck not in self._mod_cache:
                    self._mod_cache[ck] = sym_num(f"{mod.name}.{name}")  # recursion guard
                    genv = Env(None, mod, None)
                    old_line, self._modline = getattr(self, "_modline", None), getattr(mod.constants[name], "lineno", None)
                    n_dec = len(self.decider.trace) if self.decider is not None else 0
                    try:
                        self._mod_cache[ck] = self.eval(mod.constants[name], genv)
                    except AnalysisError:
                        pass
                    finally:
                        self._modline = old_line
                    if self.decider is not None and len(self.decider.trace) != n_dec:
                        # the value depends on a decision of this trace partition (an environment switch, a version test
                        # at import): it is this partition's value only
                        return self._mod_cache.pop(ck)
                return self._mod_cache[ck]
        if name in ("True", "False"):
            return BoolV("const", name == "True")
        return ExtV(name)  # builtin

    def _e_UnaryOp(self, n, env):
        v = self.eval(n.operand, env)
        if isinstance(n.op, ast.USub):
            return self._map1(v, nf.neg)
        if isinstance(n.op, ast.UAdd):
            return v
        if isinstance(n.op, ast.Not):
            if isinstance(v, BoolV) and v.kind == "const":
                return BoolV("const", not v.a)
            return BoolV("not", v if isinstance(v, BoolV) else BoolV("opaque", nf.show(self.to_nf(v), 200)))
        if isinstance(n.op, ast.Invert):
            return BoolV("not", v) if isinstance(v, BoolV) else Num(nf.fn("invert", self.to_nf(v)))
        raise AnalysisError("unsupported unary operator")

    def _arr_rows(self, v):
        """a 2-D buffer filled column by column (arr[:, j] = v_j for every j): its generic row (v_0[i], ..., v_n-1[i])"""
        if isinstance(v, Arr2) and v.cols and not v.rows and len(v.shape) == 2:
            n = nf.as_int(v.shape[1])
            if n is not None and set(v.cols) == set(range(n)):
                return TupV([self._element_of(v.cols[j]) if isinstance(v.cols[j], (Num, Vec)) else v.cols[j] for j in range(n)], rowview=True)
        return v

    def _map1(self, v, f):
        v = self._arr_rows(v)
        if isinstance(v, Vec):
            return Vec(f(v.gen), v.length, {k: (p, f(x)) for k, (p, x) in v.over.items()})
        if isinstance(v, TupV):
            return TupV([self._map1(x, f) for x in v.items], v.is_list, rowview=v.rowview, arr=True)
        return Num(f(self.to_nf(v)))

    def _e_BinOp(self, n, env):
        return self._binop(n.op, self.eval(n.left, env), self.eval(n.right, env), n)

    _DUNDER = {ast.Add: "add", ast.Sub: "sub", ast.Mult: "mul", ast.Div: "truediv", ast.Pow: "pow", ast.FloorDiv: "floordiv", ast.Mod: "mod", ast.MatMult: "matmul"}

    def _binop(self, op, a, b, node):
        if isinstance(a, Inst) or isinstance(b, Inst):
            # arithmetic on an object of a package class is what its operator methods say
            nm = self._DUNDER.get(type(op))
            if nm is not None:
                if isinstance(a, Inst):
                    m = a.cls.lookup(f"__{nm}__")
                    if m is not None:
                        return self.call(FuncV(m, None, a, m.cls), [b], {}, node, None)
                if isinstance(b, Inst):
                    m = b.cls.lookup(f"__r{nm}__")
                    if m is not None:
                        return self.call(FuncV(m, None, b, m.cls), [a], {}, node, None)
            raise AnalysisError(f"{self.cur_func()}:{getattr(node, 'lineno', 0)}: arithmetic on an object whose class defines no method for it")
        if isinstance(op, ast.Div) and isinstance(b, (Num, Vec)) and getattr(self, "log_divisions", False):
            self.log("div", node, den=b)
        if isinstance(op, ast.MatMult):
            return self._matmul(a, b)
        if isinstance(op, ast.BitAnd) and (isinstance(a, BoolV) or isinstance(b, BoolV)):
            return BoolV("and", a, b)
        if isinstance(op, ast.BitOr) and (isinstance(a, BoolV) or isinstance(b, BoolV)):
            return BoolV("or", a, b)
        if isinstance(op, ast.Add) and isinstance(a, StrV) and isinstance(b, StrV):
            return StrV(a.s + b.s)
        if isinstance(a, StrV) or isinstance(b, StrV):
            return StrV("<str-expr>")
        if isinstance(op, ast.Add) and isinstance(a, TupV) and isinstance(b, TupV) and not (a.arr or b.arr):
            return TupV(a.items + b.items, a.is_list)
        f = _ARITH.get(type(op))
        if f is None:
            return Num(nf.fn("op:" + type(op).__name__, self.to_nf(a), self.to_nf(b)))
        try:
            return self._zip2(a, b, f)
        except nf.NFError as e:
            raise AnalysisError(f"{self.cur_func()}:{getattr(node, 'lineno', 0)}: {e}") from e

    def _zip2(self, a, b, f):
        if isinstance(a, Buf) and not a.items and not a.parts and a.fill is not None:
            a = a.fill
        if isinstance(b, Buf) and not b.items and not b.parts and b.fill is not None:
            b = b.fill
        if isinstance(a, Vec) or isinstance(b, Vec):
            if isinstance(a, Vec) and isinstance(b, Vec):
                if not nf.equal(a.length, b.length) and not _len_compatible(a.length, b.length):
                    raise AnalysisError(
                        f"{self.cur_func()}: vectors of different lengths combined ({nf.show(a.length)} vs {nf.show(b.length)})"
                    )
                over = {}
                for k, (p, _x) in list(a.over.items()) + list(b.over.items()):
                    if k not in over:
                        over[k] = (p, f(a.at(p), b.at(p)))
                return Vec(f(a.gen, b.gen), a.length, over)
            if isinstance(a, Vec):
                bn = self.to_nf(b)
                return Vec(f(a.gen, bn), a.length, {k: (p, f(x, bn)) for k, (p, x) in a.over.items()})
            an = self.to_nf(a)
            return Vec(f(an, b.gen), b.length, {k: (p, f(an, x)) for k, (p, x) in b.over.items()})
        if isinstance(a, TupV) and isinstance(b, TupV) and len(a.items) == len(b.items):
            return TupV([self._zip2(x, y, f) for x, y in zip(a.items, b.items)], a.is_list, rowview=a.rowview or b.rowview, arr=a.arr or b.arr)
        if isinstance(a, TupV) and not isinstance(b, TupV):
            return TupV([self._zip2(x, b, f) for x in a.items], a.is_list, rowview=a.rowview, arr=a.arr)
        if isinstance(b, TupV) and not isinstance(a, TupV):
            return TupV([self._zip2(a, y, f) for y in b.items], b.is_list, rowview=b.rowview, arr=b.arr)
        return Num(f(self.to_nf(a), self.to_nf(b)))

    def _matmul(self, a, b):
        a, b = self._arr_rows(a), self._arr_rows(b)
        if isinstance(a, TupV) and not a.rowview and a.items and all(isinstance(r, TupV) for r in a.items) and isinstance(b, TupV):
            # explicit rows @ vector: one dot product per row
            return TupV([self._matmul(r, b) for r in a.items], True, arr=True)
        if isinstance(a, TupV) and isinstance(b, TupV) and len(a.items) == len(b.items):
            acc = {}
            for x, y in zip(a.items, b.items):
                acc = nf.add(acc, nf.mul(self.to_nf(x), self.to_nf(y)))
            return Num(acc)
        return Num(nf.fn("matmul", self.to_nf(a), self.to_nf(b)))

    def _has_internal_call(self, expr, env):
        """does evaluating expr call a function of the package (whose body may store something)?"""
        for c in ast.walk(expr):
            if isinstance(c, ast.Call):
                try:
                    f = self.eval(c.func, env)
                except Exception:
                    continue
                if isinstance(f, (FuncV, PartialV, LambdaV)):
                    return True
        return False

    def _e_BoolOp(self, n, env):
        if any(self._has_internal_call(v, env) for v in n.values[1:]):
            # `a or f(x)` / `a and f(x)`: whether f runs depends on a - short-circuit evaluation as a trace partition
            is_or = isinstance(n.op, ast.Or)
            cur = self.eval(n.values[0], env)
            for nxt in n.values[1:]:
                t = cur if isinstance(cur, BoolV) else self._truth(cur)
                if self.decide(t, n) == is_or:
                    return cur  # `or`: first truthy operand; `and`: first falsy operand
                cur = self.eval(nxt, env)
            return cur
        vals = [self.eval(v, env) for v in n.values]
        out = vals[0] if isinstance(vals[0], BoolV) else self._truth(vals[0])
        for v in vals[1:]:
            vb = v if isinstance(v, BoolV) else self._truth(v)
            out = BoolV("and" if isinstance(n.op, ast.And) else "or", out, vb)
        return out

    def _truth(self, v):
        if isinstance(v, NoneV):
            return BoolV("const", False)
        if isinstance(v, TupV) and not v.rowview:
            return BoolV("const", bool(v.items))
        if id(v) in getattr(self, "_listviews", ()):
            return BoolV("const", True)  # the elementwise view of a comprehension that produced its generic element
        return BoolV("opaque", nf.show(self.to_nf(v), 200))

    def _e_Compare(self, n, env):
        left = self.eval(n.left, env)
        out = None
        for op, rn in zip(n.ops, n.comparators):
            right = self.eval(rn, env)
            c = self._compare(op, left, right)
            out = c if out is None else BoolV("and", out, c)
            left = right
        return out

    def _compare(self, op, a, b):
        if isinstance(op, (ast.Is, ast.IsNot)):
            an, bn = isinstance(a, NoneV), isinstance(b, NoneV)
            sentinel = lambda v: isinstance(v, ExtObj) and v.qual == "object" and not v.args
            if (sentinel(a) or sentinel(b)) and not (an or bn):
                # a module-level `object()` marker is identical to itself and to nothing else
                r = BoolV("const", a is b)
            elif an and bn:
                r = BoolV("const", True)
            elif (an or bn) and not self._maybe_none(a if bn else b):
                r = BoolV("const", False)
            else:
                r = BoolV("opaque", f"{nf.show(self.to_nf(a), 120)} is {nf.show(self.to_nf(b), 120)}")
            if isinstance(op, ast.IsNot):
                return BoolV("const", not r.a) if r.kind == "const" else BoolV("not", r)
            return r
        if isinstance(op, (ast.In, ast.NotIn)):
            r = None
            if isinstance(a, StrV) and isinstance(b, (TupV, SetV)) and all(isinstance(x, StrV) for x in b.items):
                r = BoolV("const", a.s in [x.s for x in b.items])
            elif isinstance(a, StrV) and isinstance(b, DictV) and not b.fallback:
                r = BoolV("const", a.s in b.items)
            else:
                r = BoolV("opaque", f"{nf.show(self.to_nf(a), 120)} in {nf.show(self.to_nf(b), 120)}")
            if isinstance(op, ast.NotIn):
                return BoolV("const", not r.a) if r.kind == "const" else BoolV("not", r)
            return r
        sym = {ast.Eq: "==", ast.NotEq: "!=", ast.Lt: "<", ast.LtE: "<=", ast.Gt: ">", ast.GtE: ">="}[type(op)]
        for x, y, refl in ((a, b, False), (b, a, True)):
            if isinstance(x, Inst):
                nm = {"==": "eq", "!=": "ne", "<": "lt", "<=": "le", ">": "gt", ">=": "ge"}[sym]
                if refl:
                    nm = {"lt": "gt", "le": "ge", "gt": "lt", "ge": "le"}.get(nm, nm)
                m = x.cls.lookup(f"__{nm}__")
                if m is None and nm == "ne" and x.cls.lookup("__eq__") is not None:
                    r = self.call(FuncV(x.cls.lookup("__eq__"), None, x, x.cls.lookup("__eq__").cls), [y], {}, None, None)
                    return BoolV("const", not r.a) if isinstance(r, BoolV) and r.kind == "const" else BoolV("not", r if isinstance(r, BoolV) else BoolV("opaque", nf.show(self.to_nf(r), 120)))
                if m is not None:
                    r = self.call(FuncV(m, None, x, m.cls), [y], {}, None, None)
                    return r if isinstance(r, BoolV) else BoolV("opaque", nf.show(self.to_nf(r), 120))
        if sym == "==":
            # np.arange(n) == k : the mask that selects position k of a length-n vector
            for x, y in ((a, b), (b, a)):
                if isinstance(x, Vec) and not x.over and x.gen == nf.sym(J) and isinstance(y, Num):
                    return BoolV("pos", y.nf, x.length)
        if isinstance(a, SetV) and isinstance(b, SetV) and sym in ("==", "!=") and all(
            isinstance(x, StrV) for x in a.items + b.items
        ):
            return BoolV("const", ({x.s for x in a.items} == {x.s for x in b.items}) == (sym == "=="))
        if isinstance(a, StrV) and isinstance(b, StrV) and sym in ("==", "!="):
            return BoolV("const", (a.s == b.s) == (sym == "=="))
        # need.intersection(table) ==/!= need  is the predicate "table has all of need"
        if sym in ("==", "!="):
            for x, y in ((a, b), (b, a)):
                if isinstance(y, SetV) and isinstance(x, Num) and all(isinstance(i, StrV) for i in y.items):
                    at = self.single_atom(x.nf)
                    if at is not None and at[0] == "fn" and at[1] == "intersection" and len(at[2]) == 2 and nf.unkey(at[2][0]) == self.to_nf(y):
                        t = BoolV("opaque", "has_all(" + nf.show(nf.unkey(at[2][1]), 120) + "; " + ", ".join(sorted(repr(i.s) for i in y.items)) + ")")
                        return t if sym == "==" else BoolV("not", t)
        an, bn = self.to_nf(a), self.to_nf(b)
        if nf.is_const(an) and nf.is_const(bn) and isinstance(a, Num) and isinstance(b, Num):
            x, y = nf.cval(an), nf.cval(bn)
            return BoolV("const", {"==": x == y, "!=": x != y, "<": x < y, "<=": x <= y, ">": x > y, ">=": x >= y}[sym])
        if isinstance(a, Num) and isinstance(b, Num) and an == bn:
            # the same exact term on both sides (mathematically equal; a float implementation decides it by rounding)
            return BoolV("const", sym in ("==", "<=", ">="))
        return BoolV("cmp", an, bn, sym)

    def _maybe_none(self, v):
        """Can this abstract value be None at run time?  Only symbolic scalars can."""
        if not isinstance(v, Num):
            return False
        a = Interp.single_atom(v.nf)
        if a is not None and a[0] == "sym" and (a[1].endswith("@option") or a[1] in getattr(self, "not_none", ())):
            return False  # a value an internal caller computes for a new option (options.py), or an argument the rule supplies
        return a is not None

    def _e_NamedExpr(self, n, env):
        """name := value: binds in the enclosing function's scope (also from inside a comprehension) and is the value"""
        v = self.eval(n.value, env)
        e = env
        while e.parent is not None and e.parent.func is e.func and e.func is not None:
            e = e.parent
        e.set(n.target.id, v)
        if e is not env:
            env.vars.pop(n.target.id, None)
        return v

    def _e_IfExp(self, n, env):
        if self.decide(self.eval(n.test, env), n.test):
            return self.eval(n.body, env)
        return self.eval(n.orelse, env)

    def _e_Tuple(self, n, env):
        return TupV(self._elts(n.elts, env))

    def _e_List(self, n, env):
        return TupV(self._elts(n.elts, env), True)

    def _e_Set(self, n, env):
        return SetV(self._elts(n.elts, env))

    def _elts(self, elts, env):
        out = []
        for e in elts:
            if isinstance(e, ast.Starred):
                v = self.eval(e.value, env)
                if isinstance(v, TupV):
                    out += v.items
                else:
                    out.append(StarV(v))
            else:
                out.append(self.eval(e, env))
        return out

    def _e_Dict(self, n, env):
        d = DictV({})
        for k, v in zip(n.keys, n.values):
            if k is None:
                vv = self.eval(v, env)
                if isinstance(vv, DictV):
                    d.items.update(vv.items)
                else:
                    d.fallback.append(vv)
                continue
            kv = self.eval(k, env)
            if isinstance(kv, BoolV) and kv.kind == "const":
                key = "True" if kv.a else "False"
            else:
                key = kv.s if isinstance(kv, StrV) else nf.show(self.to_nf(kv))
            d.items[key] = self.eval(v, env)
        return d

    def _e_JoinedStr(self, n, env):
        return StrV("<f-string>")

    def _e_Lambda(self, n, env):
        return LambdaV(n, env, env.module)

    def _e_Starred(self, n, env):
        return self.eval(n.value, env)

    def _e_Slice(self, n, env):
        return SliceV(
            self.eval(n.lower, env) if n.lower else NoneV(),
            self.eval(n.upper, env) if n.upper else NoneV(),
            self.eval(n.step, env) if n.step else NoneV(),
        )

    # comprehensions -----------------------------------------------------------
    def _comp(self, n, env, build):
        gen = n.generators[0]
        if len(n.generators) != 1:
            raise AnalysisError("nested comprehension generators are not supported")
        it = self.eval(gen.iter, env)
        self.log("for_iter", n, iter=it, comprehension=True)
        items = None
        if isinstance(it, (TupV, SetV)):
            items = it.items
        elif isinstance(it, DictV):
            items = [StrV(k) for k in it.items]
        elif isinstance(it, EnumV) and isinstance(it.inner, TupV) and not it.inner.rowview:
            items = [TupV([const_num(k), x]) for k, x in enumerate(it.inner.items)]
        elif isinstance(it, ClassV):
            items = self._enum_members(it, n)
        sub = Env(env, env.module, env.func)
        if items is not None and len(items) <= 24:
            out = []
            for x in items:
                self._assign(gen.target, x, sub, n)
                if all(self.decide(self.eval(c, sub), c) for c in gen.ifs):
                    out.append(build(sub))
            return out, True
        if isinstance(it, EnumV) and isinstance(gen.target, ast.Tuple) and len(gen.target.elts) == 2 and isinstance(gen.target.elts[0], ast.Name):
            # [f(i, row) for i, row in enumerate(a)]: the generic element, with the index as a symbol
            iv = sym_num(self._counter_symbol(gen.target.elts[0].id, n))
            self._assign(gen.target.elts[0], iv, sub, n)
            self._assign(gen.target.elts[1], self._index(it.inner, iv, n), sub, n)
        elif isinstance(it, ExtObj) and it.qual == "zip" and it.args and all(k.isdigit() for k in it.args) and all(isinstance(v, (Num, Vec)) for v in it.args.values()):
            # zip(a, b, ...) of arrays: the generic element is the tuple of the arrays' generic elements
            self._assign(gen.target, TupV([self._element_of(it.args[k]) for k in sorted(it.args, key=int)]), sub, n)
        else:
            self._assign(gen.target, self._element_of(it), sub, n)
        # a filter is a trace partition: on the partition where it fails the generic element is not in the list
        for c in gen.ifs:
            if not self.decide(self.eval(c, sub), c):
                return [], False
        return [build(sub)], False

    def _e_ListComp(self, n, env):
        out, unrolled = self._comp(n, env, lambda e: self.eval(n.elt, e))
        if unrolled:
            return TupV(out, True)
        if not out:
            return TupV([], True)  # the generic element was filtered out on this partition
        self._listviews = getattr(self, "_listviews", set())
        self._listviews.add(id(out[0]))
        self._keepalive = getattr(self, "_keepalive", [])
        self._keepalive.append(out[0])
        return out[0]  # elementwise view: the list *is* the element term

    def _e_GeneratorExp(self, n, env):
        return self._e_ListComp(n, env)

    def _e_SetComp(self, n, env):
        out, unrolled = self._comp(n, env, lambda e: self.eval(n.elt, e))
        return SetV(out) if unrolled or not out else out[0]

    def _e_DictComp(self, n, env):
        pairs, unrolled = self._comp(n, env, lambda e: (self.eval(n.key, e), self.eval(n.value, e)))
        d = DictV({})
        for k, v in pairs:
            d.items[k.s if isinstance(k, StrV) else nf.show(self.to_nf(k))] = v
        if not unrolled and pairs:
            d.fallback.append(Num(nf.fn("dictcomp", self.to_nf(pairs[0][0]), self.to_nf(pairs[0][1]))))
        return d

    # attribute ------------------------------------------------------------------
    def _mangled(self, attr, env):
        """an attribute name written inside a class body is subject to private-name mangling"""
        f = getattr(env, "func", None)
        while f is not None and f.cls is None and f.parent is not None:
            f = f.parent
        cname = f.cls.name if f is not None and f.cls is not None else None
        return mangle(attr, cname)

    def _e_Attribute(self, n, env):
        base = self.eval(n.value, env)
        return self.getattr(base, self._mangled(n.attr, env), n)

    def getattr(self, base, attr, node=None):
        if isinstance(base, ExtV):
            q = self.P.canonical(f"{base.qual}.{attr}")
            if q in self.P.functions:
                return FuncV(self.P.functions[q], None)
            if q in self.P.classes:
                return ClassV(self.P.classes[q])
            return ExtV(q)
        if isinstance(base, Inst):
            if attr in base.attrs:
                return base.attrs[attr]
            m = base.cls.lookup(attr)
            if m is not None:
                owner = next(c for c in base.cls.mro() if attr in c.methods)
                decos = {ast.unparse(d.func if isinstance(d, ast.Call) else d) for d in m.node.decorator_list}
                if decos & {"property", "functools.cached_property", "cached_property"}:
                    # reading a property runs its getter
                    return self.call(FuncV(m, None, base, owner, raw=True), [], {}, node or m.node, None)
                return FuncV(m, None, base, owner)
            for c in base.cls.mro():
                if attr in c.nested:
                    return ClassV(c.nested[attr])
            for c in base.cls.mro():
                if attr in c.class_attrs and attr not in c.fields:
                    # plain class attribute (not a dataclass field): shared constant of the class
                    return self.eval(c.class_attrs[attr], Env(None, c.module, None))
            if attr == "__dict__":
                return ExtObj("__dict__", {"of": base}, node)
            dv = self._new_field_default(base.cls, attr)
            if dv is not None:
                return dv
            return sym_num(f"{base.name}.{attr}")
        if isinstance(base, SuperV):
            m = base.inst.cls.lookup_after(base.cls, attr) if isinstance(base.inst, Inst) else None
            if m is None:
                return BoundExt(base, attr)
            owner = m.cls
            return FuncV(m, None, base.inst, owner)
        if isinstance(base, ClassV):
            ci = base.info
            if attr in ci.nested:
                return ClassV(ci.nested[attr])
            m = ci.lookup(attr)
            if m is not None:
                return FuncV(m, None, None, None)
            for c in ci.mro():
                if attr in c.class_attrs:
                    v = self.eval(c.class_attrs[attr], Env(None, c.module, None))
                    if not attr.startswith("_") and any(b.split(".")[-1] in ("Enum", "IntEnum", "StrEnum", "Flag", "IntFlag") for b in ci.external_bases()):
                        # an enumeration member: an object with .name and .value
                        return ExtObj(f"{ci.qualname}.{attr}", {}, node, attrs={"value": v, "name": StrV(attr)})
                    return v
            return ExtV(f"{ci.qualname}.{attr}")
        if isinstance(base, ExtObj):
            if attr in base.attrs:
                return base.attrs[attr]
            if attr in ("shape", "size") and base.qual.endswith("curve_fit[0]") and isinstance(base.args.get("of"), ExtObj):
                # the fitted parameter vector has one entry per entry of the first guess p0
                p0 = base.args["of"].args.get("p0")
                n = None
                if isinstance(p0, TupV) and not p0.rowview:
                    n = len(p0.items)
                elif isinstance(p0, Num):
                    at = self.single_atom(p0.nf)
                    if at is not None and at[0] == "fn" and at[2]:
                        for x in at[2]:
                            xa = self.single_atom(nf.unkey(x))
                            if xa is not None and xa[0] == "fn" and xa[1] in ("tuple", "list"):
                                n = len(xa[2])  # an opaque method of the package given a literal guess: same length back
                                break
                if n is not None:
                    return TupV([const_num(n)]) if attr == "shape" else const_num(n)
            return BoundExt(base, attr)
        if isinstance(base, Vec):
            if attr == "shape":
                return TupV([Num(base.length)])
            return BoundExt(base, attr)
        if isinstance(base, TupV) and attr in base.names:
            return base.items[base.names.index(attr)]
        if isinstance(base, TupV) and attr == "T" and base.arr:
            # transpose of an array given by its rows: explicit rows -> explicit columns; the generic row of a comprehension
            # (one tuple standing for every row) read column-wise is the tuple of its element-wise columns: itself
            if base.items and all(isinstance(r, TupV) and len(r.items) == len(base.items[0].items) for r in base.items) and not base.rowview:
                return TupV([TupV([r.items[k] for r in base.items], True, arr=True) for k in range(len(base.items[0].items))], True, arr=True)
            return base
        if isinstance(base, TupV) and getattr(base, "ntcls", None) is not None:
            # an instance of a typing.NamedTuple subclass of the package: its own methods and properties
            m = base.ntcls.lookup(attr)
            if m is not None:
                owner = next(c for c in base.ntcls.mro() if attr in c.methods)
                decos = {ast.unparse(d.func if isinstance(d, ast.Call) else d) for d in m.node.decorator_list}
                if decos & {"property", "functools.cached_property", "cached_property"}:
                    return self.call(FuncV(m, None, base, owner, raw=True), [], {}, node or m.node, None)
                return FuncV(m, None, base, owner)
        if isinstance(base, (TupV, DictV, SetV, Buf, StrV, Arr2)):
            if isinstance(base, Arr2) and attr == "shape":
                return TupV([Num(x) for x in base.shape])
            return BoundExt(base, attr)
        bn = self.to_nf(base)
        hk = (nf.key(bn), attr)
        if hk in self.attr_heap:
            return self.attr_heap[hk]
        a = self.single_atom(bn)
        nm = a[1] if a is not None and a[0] == "sym" else None
        if nm is not None and nm in self.attr_as_key and attr not in _TABLE_METHODS:
            return self._index(base, StrV(attr), node)
        if attr in _TABLE_METHODS or attr in ("ravel", "flatten", "reshape", "tolist", "squeeze", "item", "tobytes", "argsort", "round", "clip", "all", "any", "dot", "fill", "view", "transpose", "take", "repeat", "cumprod", "std", "var", "argmax", "argmin", "nonzero", "searchsorted", "sort"):
            return BoundExt(base, attr)
        if nm is not None:
            return sym_num(f"{nm}.{attr}")
        return Num(nf.fn("." + attr, bn))

    # subscripts -----------------------------------------------------------------
    def _eval_index(self, sl, env):
        return self.eval(sl, env)

    def _e_Subscript(self, n, env):
        base = self.eval(n.value, env)
        idx = self.eval(n.slice, env)
        return self._index(base, idx, n)

    def _loop_mask(self, buf):
        """A boolean buffer filled position by position in an index loop - mask[i] = P(i) as its only store, zeros (False)
        elsewhere: the element-wise mask P(position).  Returns its term with the loop counter as the position symbol."""
        if not (isinstance(buf, Buf) and len(buf.parts) == 1 and not buf.items):
            return None
        idx, val = buf.parts[0]
        if not (isinstance(idx, Num) and isinstance(val, BoolV)):
            return None
        at = self.single_atom(idx.nf)
        if at is None or at[0] != "sym":
            return None
        if not (isinstance(buf.fill, Num) and not buf.fill.nf):
            return None
        return nf.subst_sym(self.to_nf(val), {at[1]: nf.sym(J)})

    def _index(self, base, idx, node):
        if isinstance(base, Num) and isinstance(idx, TupV) and len(idx.items) == 2 and _is_slice(idx.items[0]) and _slice_bounds(idx.items[0]) == (None, None):
            a_ = self.single_atom(base.nf)
            if a_ is not None and isinstance(idx.items[1], (StrV, TupV)):
                # frame.loc[:, name(s)]: all rows of the named column(s) - the label-based spelling of frame[name(s)]
                if a_[0] == "sym" and a_[1].endswith(".loc"):
                    return self._index(sym_num(a_[1][: -len(".loc")]), idx.items[1], node)
                if a_[0] == "fn" and a_[1] == ".loc" and len(a_[2]) == 1:
                    return self._index(Num(nf.unkey(a_[2][0])), idx.items[1], node)
        if isinstance(base, Num) and isinstance(idx, TupV) and len(idx.items) == 2 and isinstance(idx.items[0], BoolV) and isinstance(idx.items[1], (StrV, TupV)):
            # frame.loc[mask, name(s)]: the rows a boolean mask selects, then the named column(s) - frame[mask][name(s)]
            a_ = self.single_atom(base.nf)
            frame_ = None
            if a_ is not None and a_[0] == "sym" and a_[1].endswith(".loc"):
                frame_ = sym_num(a_[1][: -len(".loc")])
            elif a_ is not None and a_[0] == "fn" and a_[1] == ".loc" and len(a_[2]) == 1:
                frame_ = Num(nf.unkey(a_[2][0]))
            if frame_ is not None:
                return self._index(self._index(frame_, idx.items[0], node), idx.items[1], node)
        if isinstance(idx, Buf) and isinstance(base, Num):
            m_ = self._loop_mask(idx)
            if m_ is not None:
                return Num(nf.fn("rows", base.nf, m_))
        if isinstance(base, DictV) and isinstance(idx, BoolV) and set(base.items) == {"True", "False"} and not base.fallback:
            # a two-entry dispatch table read with a truth value: the elementwise form of  a if P else b
            return base.items["True"] if self.decide(idx, node) else base.items["False"]
        if isinstance(idx, BoolV):  # boolean mask: elementwise view keeps the term
            if isinstance(base, Buf):
                # reading a masked buffer under a mask: the part stored under the same predicate, or the fill
                # value under the exact complement of the only stored part
                if idx.kind == "cmp":
                    k, neg, _d = self._cond_key(idx)
                    for m, v in base.parts:
                        if isinstance(m, BoolV) and m.kind == "cmp":
                            k2, neg2, _ = self._cond_key(m)
                            if k2 == k and neg2 == neg:
                                return v
                    if base.fill is not None and len(base.parts) == 1 and isinstance(base.parts[0][0], BoolV) and base.parts[0][0].kind == "cmp":
                        k2, neg2, _ = self._cond_key(base.parts[0][0])
                        if k2 == k and neg2 != neg:
                            return base.fill
                return Num(self.to_nf(base))
            if not self.erase_masks:
                return Num(nf.fn("rows", self.to_nf(base), self.to_nf(idx)))
            return base
        if isinstance(base, DictV):
            k = idx.s if isinstance(idx, StrV) else nf.show(self.to_nf(idx))
            if k in base.items:
                return base.items[k]
            for fb in reversed(base.fallback):
                return self._index(fb, idx, node)
            return Num(nf.fn("[]", self.to_nf(base), self.to_nf(idx)))
        if isinstance(base, TupV):
            if isinstance(idx, Num):
                k = nf.as_int(idx.nf)
                if k is not None and -len(base.items) <= k < len(base.items):
                    return base.items[k]
            if _is_slice(idx):
                lo, hi = _slice_bounds(idx)
                if lo is not False and hi is not False:
                    return TupV(base.items[lo:hi], base.is_list)
            return Num(nf.fn("[]", self.to_nf(base), self.to_nf(idx)))
        if isinstance(base, Buf) and isinstance(idx, Num) and isinstance((base.kwargs or {}).get("invperm_of"), Num) and len(base.parts) == 1:
            return Num(nf.fn("[]", nf.fn("invperm", base.kwargs["invperm_of"].nf), idx.nf))
        if isinstance(base, Buf):
            if isinstance(idx, Num) and nf.as_int(idx.nf) is not None and nf.as_int(idx.nf) in base.items:
                return base.items[nf.as_int(idx.nf)]
            if isinstance(idx, Num) and nf.as_int(idx.nf) is not None and base.fill is not None and not base.parts:
                return base.fill
            return Num(nf.fn("[]", self.to_nf(base), self.to_nf(idx)))
        if isinstance(base, Vec):
            if isinstance(idx, Num):
                k = nf.as_int(idx.nf)
                if k is None and base.over and nf.key(idx.nf) not in base.over:
                    # a symbolic position may coincide with an explicitly stored one (the first element of
                    # np.diff(x, prepend=c), a boundary entry): that case is a trace partition of its own
                    for _kk, (pos, val) in sorted(base.over.items(), key=lambda kv: repr(kv[0])):
                        d = nf.sub(idx.nf, pos)
                        if nf.is_const(d):
                            continue  # differs from the stored position by a non-zero constant
                        if nf.depends(d, "@J"):
                            continue  # generic element of a vector expression, handled positionally
                        if self.decide(BoolV("cmp", idx.nf, pos, "=="), node):
                            return Num(val)
                return Num(base.at(base.norm_pos(k) if k is not None else idx.nf))
            if _is_slice(idx):
                return self._slice_vec(base, idx)
            return Num(nf.fn("[]", self.to_nf(base), self.to_nf(idx)))
        if isinstance(base, Arr2):
            if isinstance(idx, Num):
                return Vec(nf.fn("[]", nf.sym(base.name), idx.nf, nf.sym(J)), base.shape[1])
            return Num(nf.fn("[]", nf.sym(base.name), self.to_nf(idx)))
        if isinstance(base, ExtObj) and base.qual == "__dict__":
            return Num(nf.fn("[]", self.to_nf(base), self.to_nf(idx)))
        if isinstance(base, ExtObj) and isinstance(idx, Num) and nf.as_int(idx.nf) is not None and nf.as_int(idx.nf) >= 0 and "." in base.qual and not base.args.get("of"):
            # element k of the tuple returned by an external call (fig, ax = f(); f()[1]): the same object either way
            hk = ("extitem", id(base), nf.as_int(idx.nf))
            if hk not in self.attr_heap:
                self.attr_heap[hk] = ExtObj(base.qual + f"[{nf.as_int(idx.nf)}]", {"of": base}, base.node, uid=self.new_uid())
            return self.attr_heap[hk]
        bn = self.to_nf(base)
        if _is_slice(idx) and isinstance(base, Num):
            lo, hi = _slice_bounds(idx)
            if lo is not False and hi is not False and (lo or 0) >= 0 and (hi is None or hi <= 0):
                v = Vec(nf.fn("[]", bn, nf.sym(J)), _term_len(bn))
                return self._slice_vec(v, idx)
        if isinstance(idx, Num) and isinstance(base, Num):
            r = self._gather(bn, idx.nf)
            if r is not None:
                return Num(r)
        hk = (nf.key(bn), nf.key(self.to_nf(idx)))
        if isinstance(idx, StrV):
            self.log("read_sub", node, base=base, key=idx.s, stored=hk in self.heap)
        if hk in self.heap:
            return self.heap[hk]
        return Num(self._sub_atom(bn, idx))

    def _gather(self, bn, ix):
        """Exact identities of fancy indexing (gather) by index arrays, applied structurally:
             uniq(x)[uniq_inv(x)]            == x
             A[P][invperm(P)[Q]]             == A[Q]          (P a permutation: an argsort)
             (call of an element-wise table function on A)[Q] == the same call on A[Q]   (interp1d objects)
        returns the rewritten term or None"""
        a = self.single_atom(bn)
        q = self.single_atom(ix)
        # x[uniq_first(x)] == uniq(x)   and   x[uniq_first(x)[P]] == uniq(x)[P]
        if a is not None and q is not None and q[0] == "fn":
            if q[1] == "uniq_first" and nf.unkey(q[2][0]) == bn:
                return nf.fn("uniq", bn)
            if q[1] == "[]" and len(q[2]) == 2:
                q0 = self.single_atom(nf.unkey(q[2][0]))
                if q0 is not None and q0[0] == "fn" and q0[1] == "uniq_first" and nf.unkey(q0[2][0]) == bn:
                    return nf.fn("[]", nf.fn("uniq", bn), nf.unkey(q[2][1]))
        if a is None or a[0] != "fn":
            return None
        # uniq(x)[uniq_inv(x)]
        if a[1] == "uniq" and q is not None and q[0] == "fn" and q[1] == "uniq_inv" and q[2] == a[2]:
            return nf.unkey(a[2][0])
        # A[P][invperm(P)[Q]]
        if a[1] == "[]" and len(a[2]) == 2 and q is not None and q[0] == "fn" and q[1] == "[]" and len(q[2]) == 2:
            P = self.single_atom(nf.unkey(a[2][1]))
            inv = self.single_atom(nf.unkey(q[2][0]))
            if P is not None and P[0] == "fn" and P[1] == "argsort" and inv is not None and inv[0] == "fn" and inv[1] == "invperm" and nf.unkey(inv[2][0]) == nf.unkey(a[2][1]):
                A, Q = nf.unkey(a[2][0]), nf.unkey(q[2][1])
                r = self._gather(A, Q)
                return r if r is not None else nf.fn("[]", A, Q)
        # element-wise call: f(A)[Q] == f(A[Q]) for table interpolators called with one array argument
        if a[2] and (a[1].startswith("call:") and ("interp1d" in a[1] or "_func" in a[1]) or a[1].endswith(".m_scaled_func") or a[1].endswith(".alpha")) and len(a[2]) >= 1:
            arg = nf.unkey(a[2][-1])
            inner = self._gather(arg, ix)
            if inner is not None:
                return nf.fn(a[1], *[nf.unkey(x) for x in a[2][:-1]], inner)
            va = self.single_atom(arg)
            if va is not None and va[0] == "fn" and va[1] == "vec" and len(va[2]) == 2 and not nf.depends(ix, J):
                # element `ix` of an element-wise function of an explicit vector without stored positions
                return nf.fn(a[1], *[nf.unkey(x) for x in a[2][:-1]], nf.subst_sym(nf.unkey(va[2][0]), {J: ix}))
        # a scalar function of the package evaluated per element of a sequence (comprehension / loop over X[P]): element
        # ix of the results is the function at element ix of the sequence - applies when exactly one argument is such a
        # permuted sequence
        if a[1].startswith("bluebonnet.") and a[1] in self.opaque:
            hits = []
            for k_, x in enumerate(a[2]):
                g = self._gather(nf.unkey(x), ix)
                if g is not None:
                    hits.append((k_, g))
            if len(hits) == 1:
                k_, g = hits[0]
                return nf.fn(a[1], *[g if j == k_ else nf.unkey(x) for j, x in enumerate(a[2])])
        return None

    def _sub_atom(self, bn, idx):
        """Canonical subscript atom; simple index composition base[:, :k][:, j] -> base[:, j]."""
        specs = self._specs(idx)
        a = self.single_atom(bn)
        if a is not None and a[0] == "fn" and a[1] == "[]" and len(a[2]) - 1 == len(specs):
            inner = [nf.unkey(x) for x in a[2][1:]]
            composed = []
            for old, new in zip(inner, specs):
                oa = self.single_atom(old)
                if oa is not None and oa[0] == "sym" and oa[1].startswith("'") is False and oa[1].startswith("slice("):
                    lo, hi = _parse_slice_sym(oa[1])
                    k = nf.as_int(new)
                    if lo in (None, 0) and k is not None and k >= 0 and (hi is None or (hi > 0 and k < hi)):
                        composed.append(new)
                        continue
                    na = self.single_atom(new)
                    if lo in (None, 0) and hi is None and na is not None:
                        composed.append(new)
                        continue
                    composed = None
                    break
                composed = None
                break
            if composed is not None:
                return nf.fn("[]", nf.unkey(a[2][0]), *composed)
        return nf.fn("[]", bn, *specs)

    def _specs(self, idx):
        if isinstance(idx, TupV):
            out = []
            for x in idx.items:
                out += self._specs(x)
            return out
        if _is_slice(idx):
            lo, hi = _slice_bounds(idx)
            if lo is not False and hi is not False:
                return [nf.sym(f"slice({lo},{hi})")]
            return [nf.fn("slice", *[self.to_nf(x) for x in (idx.lo, idx.hi, idx.step)])]
        return [self.to_nf(idx)]

    def _slice_vec(self, v: Vec, sl):
        lo, hi = _slice_bounds(sl)
        if lo is False or hi is False or (lo or 0) < 0 or (hi is not None and hi > 0 and (lo or 0) != 0 and False):
            return Num(nf.fn("[]", self.to_nf(v), self.to_nf(sl)))
        lo = lo or 0
        if hi is None:
            new_len = nf.sub(v.length, nf.const(lo))
        elif hi <= 0:
            new_len = nf.add(nf.sub(v.length, nf.const(lo)), nf.const(hi))
        else:
            new_len = nf.const(hi - lo)
        gen = nf.subst_sym(v.gen, {J: nf.add(nf.sym(J), nf.const(lo))})
        over = {}
        for _k, (p, x) in v.over.items():
            np_ = nf.sub(p, nf.const(lo))
            # keep the override only if it is certainly inside the new range
            c = nf.as_int(np_)
            if c is not None:
                if c < 0:
                    continue
                nl = nf.as_int(new_len)
                if nl is not None and c >= nl:
                    continue
                over[nf.key(np_)] = (np_, x)
            else:
                d = nf.as_int(nf.sub(np_, new_len))  # position relative to the new end
                if d is not None and d >= 0:
                    continue
                over[nf.key(np_)] = (np_, x)
        return Vec(gen, new_len, over)

    # calls ----------------------------------------------------------------------
    def _e_Call(self, n, env):
        # super()
        if isinstance(n.func, ast.Name) and n.func.id == "super" and not n.args:
            inst = env.lookup("self")
            owner = getattr(env, "owner", None) or (env.func.cls if env.func is not None else None)
            return SuperV(owner, inst)
        if isinstance(n.func, ast.Name) and n.func.id == "super" and len(n.args) == 2:
            # super(C, self): the method resolution continues after C (not after the class the call is written in)
            c = self.eval(n.args[0], env)
            inst = self.eval(n.args[1], env)
            if not isinstance(c, ClassV):
                raise AnalysisError(f"{self.cur_func()}:{n.lineno}: super() with a non-class first argument")
            return SuperV(c.info, inst)
        if isinstance(n.func, ast.Name) and n.func.id in ("all", "any") and len(n.args) == 1 and not n.keywords and isinstance(n.args[0], ast.GeneratorExp) and len(n.args[0].generators) == 1:
            r = self._all_any_lazily(n, env, n.func.id == "all")
            if r is not None:
                return r
        callee = self.eval(n.func, env)
        args = self._elts(n.args, env)
        kwargs = {}
        for kw in n.keywords:
            if kw.arg is None:
                v = self.eval(kw.value, env)
                if isinstance(v, DictV):
                    kwargs.update(v.items)
                else:
                    kwargs["**"] = v
            else:
                kwargs[kw.arg] = self.eval(kw.value, env)
        return self.call(callee, args, kwargs, n, env)

    def _enum_members(self, cv, node):
        """the members of an Enum class in definition order (what iterating the class yields), else None"""
        ci = cv.info
        if not any(b.split(".")[-1] in ("Enum", "IntEnum", "StrEnum", "Flag", "IntFlag") for b in ci.external_bases()):
            return None
        out = []
        for nm, expr in ci.class_attrs.items():
            if nm.startswith("_") or nm in ci.methods:
                continue
            v = self.eval(expr, Env(None, ci.module, None))
            out.append(ExtObj(f"{ci.qualname}.{nm}", {}, node, attrs={"value": v, "name": StrV(nm)}))
        return out

    def _all_any_lazily(self, n, env, want_all):
        """all(<generator over a literal sequence>) / any(...): the generator is consumed element by element and left at
        the first element that settles the answer - the elements after it are never evaluated (nor are the tests a
        helper called for them would make).  None when the sequence is not literal (the caller evaluates the call as
        before) or the name is re-bound."""
        try:
            if env.lookup(n.func.id) is not None:
                return None
        except Exception:
            pass
        comp = n.args[0]
        gen = comp.generators[0]
        if not isinstance(gen.iter, (ast.Tuple, ast.List, ast.Name, ast.Attribute)):
            return None
        # only where evaluating an element takes decisions of its own (it calls a function of the package): a plain
        # expression is one truth value, and the whole all(...) stays the single test it was
        calls_own = False
        for c in ast.walk(comp.elt):
            if isinstance(c, ast.Call) and isinstance(c.func, (ast.Name, ast.Attribute)):
                try:
                    if isinstance(self.eval(c.func, env), (FuncV, LambdaV, PartialV)):
                        calls_own = True
                        break
                except (AnalysisError, nf.NFError):
                    return None
        if not calls_own:
            return None
        it = self.eval(gen.iter, env)
        if not (isinstance(it, TupV) and not it.rowview and not it.arr and len(it.items) <= 24):
            return None
        self.log("for_iter", comp, iter=it, comprehension=True)
        sub = Env(env, env.module, env.func)
        for x in it.items:
            self._assign(gen.target, x, sub, comp)
            if not all(self.decide(self.eval(c, sub), c) for c in gen.ifs):
                continue
            t = self.decide(self.eval(comp.elt, sub), comp.elt)
            if want_all and not t:
                return BoolV("const", False)
            if not want_all and t:
                return BoolV("const", True)
        return BoolV("const", want_all)

    def bind_internal(self, fi: FunctionInfo, args, kwargs, has_self, node):
        params = list(fi.params)
        if has_self and params and params[0] in ("self", "cls"):
            params = params[1:]
        bound = {}
        pos = list(args)
        if any(isinstance(a, StarV) for a in pos):
            # f(a, *t, b): t supplies as many positional parameters as the others leave unfilled
            required = [p for p in params if p not in kwargs and p not in fi.defaults()]
            n_other = sum(1 for a in pos if not isinstance(a, StarV))
            n_star = max(len(required) - n_other, 0)
            if sum(isinstance(a, StarV) for a in pos) != 1:
                raise AnalysisError(f"{fi.qualname}: more than one starred argument at line {getattr(node, 'lineno', 0)}")
            exp = []
            for a in pos:
                if isinstance(a, StarV):
                    if isinstance(a.inner, TupV) and not a.inner.rowview:
                        exp += list(a.inner.items)  # *t of a known tuple: exactly its items
                        continue
                    base = self.to_nf(a.inner)
                    exp += [Num(nf.fn("item", base, nf.const(k))) for k in range(n_star)]
                else:
                    exp.append(a)
            pos = exp
        for p in params:
            if pos:
                bound[p] = pos.pop(0)
        if pos:
            if fi.vararg:
                bound[fi.vararg] = TupV(pos)
            else:
                raise AnalysisError(f"{fi.qualname}: too many positional arguments at line {getattr(node, 'lineno', 0)}")
        elif fi.vararg:
            bound[fi.vararg] = TupV([])
        extra_kw = {}
        for k, v in kwargs.items():
            if k == "**":
                continue
            if k in bound:
                raise AnalysisError(f"{fi.qualname}: duplicate argument {k}")
            if k not in params and k not in fi.kwonly and fi.kwarg:
                extra_kw[k] = v  # collected by **kwargs
                continue
            bound[k] = v
        if fi.kwarg:
            bound[fi.kwarg] = DictV(extra_kw)
        defaults = fi.defaults()
        denv = Env(None, fi.module, None)
        for p in params + fi.kwonly:
            if p not in bound:
                if p in defaults:
                    bound[p] = self.eval(defaults[p], denv)
                else:
                    raise AnalysisError(f"{fi.qualname}: missing argument {p} at line {getattr(node, 'lineno', 0)}")
        return bound

    TRANSPARENT_DECORATORS = {
        "staticmethod", "classmethod", "property", "abstractmethod", "abc.abstractmethod", "overload", "typing.overload",
        "functools.lru_cache", "lru_cache", "functools.cache", "cache", "functools.wraps", "np.vectorize", "numpy.vectorize",
        "dataclass", "dataclasses.dataclass", "final", "typing.final", "override", "typing.override",
    }

    def _effective_decorators(self, fi):
        out = []
        for d in getattr(fi.node, "decorator_list", []):
            name = ast.unparse(d.func if isinstance(d, ast.Call) else d)
            if name not in self.TRANSPARENT_DECORATORS:
                out.append(d)
        # `f = expr` after the def re-binds the name: applied after the decorators, with f bound to the function so far
        return out + [_Rebind(fi.name, e) for e in fi.rebinds]

    def call(self, callee, args, kwargs, node, env):
        if isinstance(callee, FuncV) and not callee.raw:
            decos = self._effective_decorators(callee.info)
            if decos and callee.info.qualname not in self.opaque and callee.info.qualname not in self.stubs:
                # a decorated function is what its decorators make of it: apply them (innermost first) to the raw
                # function and call the result, so that a wrapper's effect on arguments and results is interpreted
                fi0 = callee.info
                target = FuncV(fi0, callee.env, None, callee.owner, raw=True)
                denv = Env(None, fi0.module, None)
                for d in [x for x in reversed(decos) if not isinstance(x, _Rebind)] + [x for x in decos if isinstance(x, _Rebind)]:
                    if isinstance(d, _Rebind):
                        renv = Env(None, fi0.module, None)
                        renv.set(d.name, target)
                        target = self.eval(d.expr, renv)
                    else:
                        target = self.call(self.eval(d, denv), [target], {}, node, env)
                pre = [callee.self_val] if callee.self_val is not None else []
                return self.call(target, pre + list(args), kwargs, node, env)
        if isinstance(callee, FuncV):
            fi = callee.info
            has_self = callee.self_val is not None or (fi.cls is not None and fi.params[:1] == ["cls"])
            self_val = callee.self_val
            if fi.cls is not None and fi.params[:1] == ["cls"] and self_val is None:
                self_val = ClassV(fi.cls)
            bound = self.bind_internal(fi, args, kwargs, has_self, node)
            is_opaque = fi.qualname in self.opaque or (fi.cls is not None and (fi.name in self.opaque_methods or f"{fi.module.name}:{fi.name}" in self.opaque_methods))
            if not is_opaque and sum(1 for g in self.stack if g is fi) >= 2:
                # a function that calls itself (per element of its own argument, say): the inner call is kept as one term
                is_opaque = True
            self.log("int_call", node, callee=fi.qualname, args=bound, recv=self_val, inlined=not is_opaque)
            if fi.qualname in self.stubs:
                return self.stubs[fi.qualname](bound)
            if not is_opaque and _is_generator(fi.node):
                return GenV(fi, bound, self_val, callee.env, callee.owner or fi.cls)
            if is_opaque:
                names = [p for p in fi.params + fi.kwonly if p in bound]
                extras = self._new_optional(fi, names)
                if extras and self._explicit_equals_default(fi, bound, extras, self_val):
                    # a new optional parameter handed a value with which the callee computes what it computes
                    # without it (decided by interpreting the callee both ways): the call is the pinned call
                    names = [p for p in names if p not in extras]
                parts = [self.to_nf(bound[p]) for p in names]
                if self_val is not None and isinstance(self_val, (Inst, ExtObj, Num)):
                    parts = [self.to_nf(self_val)] + parts
                return Num(nf.fn(fi.qualname, *parts))
            return self._exec_function(fi, bound, self_val, callee.env, callee.owner or fi.cls)
        if isinstance(callee, PartialV):
            if callee.vectorized:
                self.log("vectorized_call", node, func=callee.func)
            return self.call(callee.func, list(callee.args) + list(args), {**callee.kwargs, **kwargs}, node, env)
        if isinstance(callee, LambdaV):
            sub = Env(callee.env, callee.module, callee.env.func if callee.env else None)
            a = callee.node.args
            names = [x.arg for x in a.posonlyargs + a.args]
            for nme, v in zip(names, args):
                sub.set(nme, v)
            for k, v in kwargs.items():
                sub.set(k, v)
            return self.eval(callee.node.body, sub)
        if isinstance(callee, ClassV):
            return self._construct(callee.info, args, kwargs, node)
        if isinstance(callee, ExtV):
            return self._call_ext(callee.qual, args, kwargs, node, env)
        if isinstance(callee, BoundExt):
            return self._call_method(callee.recv, callee.meth, args, kwargs, node)
        if isinstance(callee, ExtObj):
            return self._call_extobj(callee, args, kwargs, node)
        if isinstance(callee, Num):
            # calling an opaque value (an interpolator stored in a table, a callable attribute)
            name = self.name_of(callee.nf)
            parts = [self.to_nf(a) for a in args] + [
                nf.fn("kw:" + k, self.to_nf(v)) for k, v in sorted(kwargs.items())
            ]
            self.log("opaque_call", node, callee=callee, name=name, args=args, kwargs=kwargs)
            if len(args) == 1 and not kwargs and isinstance(args[0], Vec):
                return self._map1(args[0], lambda x: nf.fn(name, x))
            return Num(nf.fn(name, *parts))
        if isinstance(callee, Inst):
            m = callee.cls.lookup("__call__")
            if m is not None:
                return self.call(FuncV(m, None, callee, m.cls), args, kwargs, node, env)
        raise AnalysisError(f"{self.cur_func()}:{getattr(node, 'lineno', 0)}: cannot call {type(callee).__name__}")

    def _construct(self, ci: ClassInfo, args, kwargs, node):
        self._uid += 1
        inst = Inst(ci, {}, f"<{ci.name}#{self._uid}>")
        init = ci.lookup("__init__")
        if init is not None:
            bound = self.bind_internal(init, args, kwargs, True, node)
            self.log("construct", node, cls=ci.qualname, args=bound, inst=inst)
            if init.qualname in self.opaque or ci.qualname in self.opaque:
                inst.attrs["@args"] = DictV(dict(bound))
                return inst
            owner = next(c for c in ci.mro() if "__init__" in c.methods)
            self._exec_function(init, bound, inst, None, owner)
            return inst
        ext = ci.external_bases()
        fields = ci.all_fields()
        if any(b.split(".")[-1] == "NamedTuple" for b in ext):
            # typing.NamedTuple: an immutable tuple with named fields - modelled as the tuple it is
            vals = {}
            pos = list(args)
            for f in fields:
                if pos:
                    vals[f] = pos.pop(0)
            if pos:
                raise AnalysisError(f"{self.cur_func()}: too many positional arguments for NamedTuple {ci.name}")
            for k, v in kwargs.items():
                if k not in fields:
                    raise AnalysisError(f"{self.cur_func()}: NamedTuple {ci.name} has no field {k}")
                vals[k] = v
            for c in ci.mro():
                for f, dv in c.class_attrs.items():
                    if f in fields and f not in vals:
                        vals[f] = self.eval(dv, Env(None, c.module, None))
            missing = [f for f in fields if f not in vals]
            if missing:
                raise AnalysisError(f"{self.cur_func()}: NamedTuple {ci.name} constructed without {missing}")
            out = TupV([vals[f] for f in fields], names=tuple(fields))
            if any(c.methods for c in ci.mro()):
                out.ntcls = ci
            return out
        if ci.is_dataclass or any(c.is_dataclass for c in ci.mro()):
            bound = {}
            pos = list(args)
            for f in fields:
                if pos:
                    bound[f] = pos.pop(0)
            for k, v in kwargs.items():
                bound[k] = v
            for c in ci.mro():
                for f, dv in c.class_attrs.items():
                    if f in fields and f not in bound:
                        bound[f] = self.eval(dv, Env(None, c.module, None))
            inst.attrs.update(bound)
            self.log("construct", node, cls=ci.qualname, args=bound, inst=inst)
            post = ci.lookup("__post_init__")
            if post is not None and ci.qualname not in self.opaque:
                owner = next(c for c in ci.mro() if "__post_init__" in c.methods)
                self._exec_function(post, {}, inst, None, owner)
            return inst
        self.log("construct", node, cls=ci.qualname, args={str(i): a for i, a in enumerate(args)} | kwargs, inst=inst, external_bases=ext)
        return inst

    def bind_ext(self, qual, args, kwargs, table=None):
        sig = (table or EXT_SIGS).get(qual)
        bound = {}
        if sig is None:
            for i, a in enumerate(args):
                bound[str(i)] = a
        else:
            pos = list(args)
            for p in sig:
                if p.startswith("*"):
                    for j, a in enumerate(pos):
                        bound[f"{p}[{j}]"] = a
                    pos = []
                    break
                if not pos:
                    break
                bound[p] = pos.pop(0)
            for j, a in enumerate(pos):
                bound[f"extra{j}"] = a
        for k, v in kwargs.items():
            bound[k] = v
        return bound

    def _call_extobj(self, obj: ExtObj, args, kwargs, node):
        if obj.qual in ("functools.lru_cache", "functools.cache") and len(args) == 1 and not kwargs and isinstance(args[0], (FuncV, LambdaV, PartialV)):
            # cached = functools.lru_cache(maxsize=..., typed=...)(f): f, remembered per argument tuple (what may be
            # remembered is rule M's business: the memoising-decorator clause reads this form too)
            return args[0]
        if obj.qual == "collections.namedtuple" and not obj.args.get("recv"):
            # T = namedtuple("T", "a b c") / namedtuple("T", ["a", "b", "c"]); T(...) is the tuple with those field names
            spec = obj.args.get("field_names", obj.args.get("1"))
            fields = None
            if isinstance(spec, StrV):
                fields = spec.s.replace(",", " ").split()
            elif isinstance(spec, TupV) and all(isinstance(x, StrV) for x in spec.items):
                fields = [x.s for x in spec.items]
            if fields and not (set(obj.args) - {"0", "1", "typename", "field_names"}) and len(args) + len(kwargs) == len(fields) and set(kwargs) <= set(fields[len(args) :]):
                return TupV(list(args) + [kwargs[f] for f in fields[len(args) :]], names=tuple(fields))
        parts = [self.to_nf(a) for a in args]
        ev = self.log("extobj_call", node, obj=obj, args=args, kwargs=kwargs)
        base = self.to_nf(obj)
        a = self.single_atom(base)
        name = a[1] if a is not None and a[0] == "fn" else obj.qual
        inner = [nf.unkey(x) for x in a[2]] if a is not None and a[0] == "fn" else []
        if len(args) == 1 and not kwargs and isinstance(args[0], (Vec, TupV)):
            res = self._map1(args[0], lambda x: nf.fn("call:" + name, *inner, x))
        else:
            res = Num(nf.fn("call:" + name, *inner, *parts))
        ev.data["result"] = res
        return res

    def _call_method(self, recv, meth, args, kwargs, node):
        if isinstance(recv, ExtObj) and recv.qual.startswith("scipy.sparse.") and meth in ("tocsr", "tocsc", "tocoo", "todia", "asformat", "copy", "tolil", "toarray", "todense"):
            return recv  # the same matrix in another storage format
        if meth == "cumsum" and "axis" in kwargs and isinstance(kwargs["axis"], NoneV):
            kwargs = {k: v for k, v in kwargs.items() if k != "axis"}  # axis=None is the default
        if meth == "__setattr__" and isinstance(recv, SuperV) and len(args) == 2 and isinstance(args[0], StrV):
            self.store_attribute(recv.inst, args[0].s, args[1], node, raw=True)
            return NoneV()
        if isinstance(recv, BoolV) and meth in ("to_numpy", "copy") and not args and not kwargs:
            return recv  # a boolean mask as an array: the same mask
        if isinstance(recv, (Num, Vec, Buf, TupV)):
            if meth == "reshape" and isinstance(recv, Num) and "order" not in kwargs:
                return recv  # the same elements in the same (C) order: an opaque array stands for its generic element
            if meth in ("flatten", "ravel") and (kwargs or args):
                # ravel(order="K" / "F" / "A") walks memory or column order: not the element sequence of the array
                od = kwargs.get("order", args[0] if args else None)
                if not (isinstance(od, StrV) and od.s == "C"):
                    return Num(nf.fn("ravel:" + (od.s if isinstance(od, StrV) else "?"), self.to_nf(recv)))
            if meth in ("copy", "astype", "to_records", "to_numpy", "flatten", "ravel", "tolist", "reset_index"):
                return recv.copy() if isinstance(recv, Vec) else recv
            if meth in ("sum", "min", "max", "mean", "cumsum", "prod", "any", "all") and not isinstance(recv, TupV):
                if "axis" in kwargs and not args:
                    args = [kwargs["axis"]]
                    kwargs = {k: v for k, v in kwargs.items() if k != "axis"}
                if meth == "sum" and len(args) == 1:
                    return _h_sum(self, [recv] + list(args), kwargs, {}, node, "numpy.sum")
                extra = [nf.fn("kw:" + k, self.to_nf(v)) for k, v in sorted(kwargs.items())]
                return Num(nf.fn(meth, self.to_nf(recv), *[self.to_nf(a) for a in args], *extra))
        if isinstance(recv, TupV) and meth == "index" and len(args) == 1 and isinstance(args[0], StrV) and all(isinstance(x, StrV) for x in recv.items):
            if args[0].s in [x.s for x in recv.items]:
                return const_num([x.s for x in recv.items].index(args[0].s))
        if isinstance(recv, TupV) and recv.is_list:
            if meth == "append" and len(args) == 1:
                recv.items.append(args[0])
                return NoneV()
            if meth == "extend" and len(args) == 1 and isinstance(args[0], TupV):
                recv.items.extend(args[0].items)
                return NoneV()
        if isinstance(recv, DictV):
            if meth == "update" and len(args) == 1:
                if isinstance(args[0], DictV):
                    recv.items.update(args[0].items)
                else:
                    recv.fallback.append(args[0])
                self.log("method_call", node, recv=recv, meth=meth, args={"0": args[0]})
                return NoneV()
            if meth == "copy":
                return DictV(dict(recv.items), list(recv.fallback))
            if meth == "assign" and not args and kwargs and not any(isinstance(v, (FuncV, LambdaV, PartialV)) for v in kwargs.values()):
                # DataFrame.assign(name=values, ...): a new table with those columns added (or replaced); the receiver is untouched
                out_ = DictV(dict(recv.items), list(recv.fallback))
                out_.items.update(kwargs)
                return out_
            if meth == "get" and args and isinstance(args[0], StrV) and args[0].s in recv.items:
                return recv.items[args[0].s]
            if not recv.fallback and all(isinstance(k, str) for k in recv.items):
                if meth == "items":
                    return TupV([TupV([StrV(k), v]) for k, v in recv.items.items()])
                if meth == "values":
                    return TupV(list(recv.items.values()))
                if meth == "keys":
                    return TupV([StrV(k) for k in recv.items])
            if meth in ("keys", "items", "values"):
                return recv
        if isinstance(recv, SetV) and meth == "issubset" and len(args) == 1 and all(isinstance(x, StrV) for x in recv.items):
            other = args[0]
            if isinstance(other, DictV) and not other.fallback:
                return BoolV("const", {x.s for x in recv.items} <= set(other.items))
            if isinstance(other, (SetV, TupV)) and all(isinstance(x, StrV) for x in other.items):
                return BoolV("const", {x.s for x in recv.items} <= {x.s for x in other.items})
            return BoolV("opaque", _has_all_descr(self, other, recv))
        if isinstance(recv, SetV) and meth == "intersection":
            if len(args) == 1 and all(isinstance(x, StrV) for x in recv.items):
                other = args[0]
                keys = None
                if isinstance(other, DictV) and not other.fallback:
                    keys = set(other.items)
                elif isinstance(other, (SetV, TupV)) and all(isinstance(x, StrV) for x in other.items):
                    keys = {x.s for x in other.items}
                if keys is not None:
                    return SetV([x for x in recv.items if x.s in keys])
            return Num(nf.fn("intersection", self.to_nf(recv), *[self.to_nf(a) for a in args]))
        if isinstance(recv, StrV):
            return StrV("<str>")
        if isinstance(recv, ExtObj) and recv.qual == "__dict__" and meth == "update" and len(args) == 1 and isinstance(args[0], DictV) and not args[0].fallback:
            inst = recv.args["of"]
            for k, v in args[0].items.items():  # obj.__dict__.update(state): one attribute store per key
                self.store_attribute(inst, k, v, node, raw=True)
            return NoneV()
        if isinstance(recv, ExtObj) and recv.qual == "__dict__" and meth == "copy" and not args and isinstance(recv.args["of"], Inst):
            return DictV(dict(recv.args["of"].attrs))  # a snapshot of the instance dictionary
        if isinstance(recv, ExtObj) and recv.qual == "__dict__" and meth == "pop" and args and isinstance(args[0], StrV):
            inst = recv.args["of"]
            self.log("del_attr", node, base=inst, attr=args[0].s)
            if isinstance(inst, Inst):
                inst.attrs.pop(args[0].s, None)
            return NoneV()
        if meth == "get" and isinstance(recv, Num) and args and isinstance(args[0], StrV):
            return self._index(recv, args[0], node)
        sig = EXT_METHOD_SIGS.get(meth)
        bound = self.bind_ext(meth, args, kwargs, {meth: sig} if sig else {})
        self._uid += 1
        ev = self.log("method_call", node, recv=recv, meth=meth, args=bound)
        res = ExtObj(f"{self._recv_name(recv)}.{meth}", {"recv": recv, **bound}, node, uid=self._uid)
        ev.data["result"] = res
        return res

    def _recv_name(self, recv):
        if isinstance(recv, ExtObj):
            return recv.qual
        if isinstance(recv, Inst):
            return recv.cls.qualname
        return nf.show(self.to_nf(recv), 120)

    def _call_ext(self, qual, args, kwargs, node, env):
        if qual in ("functools.lru_cache", "functools.cache") and len(args) == 1 and not kwargs and isinstance(args[0], (FuncV, LambdaV, PartialV)):
            return args[0]
        dflt = _EXT_DEFAULTS.get(qual)
        if dflt and kwargs:
            # a keyword spelled out at the library's own default is the call without it
            kwargs = {k: v for k, v in kwargs.items() if not (k in dflt and _is_literal(v, dflt[k]))}
        out = kwargs.get("out")
        if isinstance(out, Vec) and qual.startswith("numpy."):
            # ufunc(..., out=v): the elementwise result is stored into v itself
            res = self._call_ext(qual, args, {k: v for k, v in kwargs.items() if k != "out"}, node, env)
            if isinstance(res, Vec):
                out.gen, out.length, out.over = dict(res.gen), dict(res.length), dict(res.over)
                return out
        h = _EXT_HANDLERS.get(qual)
        bound = self.bind_ext(qual, args, kwargs)
        if h is not None:
            r = h(self, args, kwargs, bound, node, qual)
            if r is not None:
                if qual in self.keep_ext:
                    self.log("ext_call", node, callee=qual, args=bound, result=r)
                return r
        self._uid += 1
        res = ExtObj(qual, bound, node, uid=self._uid)
        self.log("ext_call", node, callee=qual, args=bound, result=res)
        return res


# defaults of library routines the package calls (scipy 1.11+ / numpy 1.26+ / pandas 2): a keyword given at this value is dropped
_EXT_DEFAULTS = {
    "scipy.interpolate.interp1d": {"kind": "linear", "axis": -1, "copy": True, "bounds_error": None, "assume_sorted": False},
    "scipy.integrate.cumulative_trapezoid": {"axis": -1},
    "scipy.integrate.quad": {"full_output": 0, "epsabs": "1.49e-08", "epsrel": "1.49e-08", "points": None, "weight": None, "wvar": None, "wopts": None, "maxp1": 50, "limlst": 50, "args": (), "complex_func": False},
    "scipy.optimize.curve_fit": {"sigma": None, "absolute_sigma": False, "check_finite": None, "method": None, "jac": None, "full_output": False, "nan_policy": None},
    "scipy.optimize.brentq": {"maxiter": 100, "full_output": False, "disp": True, "xtol": "2e-12", "args": ()},
    "scipy.ndimage.uniform_filter1d": {"axis": -1, "mode": "reflect", "cval": 0, "origin": 0, "output": None},
    "numpy.cumsum": {"axis": None, "dtype": None, "out": None},
    "numpy.sum": {"dtype": None, "out": None, "keepdims": False},
    "numpy.vectorize": {"otypes": None, "cache": False, "doc": None, "excluded": None, "signature": None},
    "numpy.asarray": {"dtype": None, "order": None},
    "numpy.array": {"dtype": None, "copy": True, "order": "K", "subok": False, "ndmin": 0},
    "numpy.linspace": {"endpoint": True, "retstep": False, "dtype": None, "axis": 0},
    "numpy.diff": {"n": 1, "axis": -1},
    "pandas.DataFrame": {"index": None, "columns": None, "dtype": None},
}


def _is_literal(v, d):
    """the abstract value v is the Python literal d"""
    if d is None:
        return isinstance(v, NoneV)
    if isinstance(d, bool):
        return (isinstance(v, BoolV) and v.kind == "const" and bool(v.a) == d) or (isinstance(v, Num) and nf.as_int(v.nf) == int(d) and d in (0, 1) and False)
    if isinstance(d, int):
        return (isinstance(v, Num) and nf.is_const(v.nf) and nf.cval(v.nf) == d) or (d in (0, 1) and isinstance(v, BoolV) and v.kind == "const" and int(bool(v.a)) == d)
    if isinstance(d, str):
        if isinstance(v, StrV):
            return v.s == d
        try:
            return isinstance(v, Num) and nf.is_const(v.nf) and nf.equal(v.nf, nf.const_text(d))
        except Exception:
            return False
    if isinstance(d, tuple):
        return isinstance(v, TupV) and len(v.items) == len(d)  and not d
    return False


# ---------------------------------------------------------------------- small helpers
_ARITH = {
    ast.Add: nf.add,
    ast.Sub: nf.sub,
    ast.Mult: nf.mul,
    ast.Div: nf.div,
    ast.Pow: nf.power,
}


def _is_generator(fnode):
    """the function's own body (not a nested def / lambda) contains yield"""
    stack = list(fnode.body)
    while stack:
        n = stack.pop()
        if isinstance(n, (ast.Yield, ast.YieldFrom)):
            return True
        if isinstance(n, (ast.FunctionDef, ast.AsyncFunctionDef, ast.Lambda, ast.ClassDef)):
            continue
        stack.extend(ast.iter_child_nodes(n))
    return False


class _GenStop(Exception):
    """the consumer of a generator left its loop (break)"""


def _has_all_descr(it, table, need):
    return "has_all(" + nf.show(it.to_nf(table), 120) + "; " + ", ".join(sorted(repr(i.s) for i in need.items)) + ")"


def _loop_carried(body):
    """names read in a loop body before the body (re)assigns them, and assigned somewhere in the body"""
    assigned_anywhere = set()
    for st in body:
        for n in ast.walk(st):
            if isinstance(n, ast.Name) and isinstance(n.ctx, ast.Store):
                assigned_anywhere.add(n.id)
    carried, assigned = [], set()

    def reads(expr):
        for n in ast.walk(expr):
            if isinstance(n, ast.Name) and isinstance(n.ctx, ast.Load) and n.id in assigned_anywhere and n.id not in assigned and n.id not in carried:
                carried.append(n.id)

    for st in body:
        if isinstance(st, ast.Assign):
            reads(st.value)
            for t in st.targets:
                if isinstance(t, ast.Name):
                    assigned.add(t.id)
                else:
                    reads(t)
        elif isinstance(st, ast.AugAssign):
            reads(st.value)
            if isinstance(st.target, ast.Name):
                if st.target.id not in assigned and st.target.id not in carried:
                    carried.append(st.target.id)
                assigned.add(st.target.id)
        else:
            reads(st)
    return carried


_SOLVERS = ("scipy.sparse.linalg.spsolve{", "scipy.linalg.solve_banded{", "numpy.linalg.solve{", "scipy.linalg.solve{", "scipy.linalg.solveh_banded{")


def _term_len(t, depth=0):
    """len() of an opaque array term where the term itself says it: a vector built in the trace, the solution of a
    linear system (as long as its right-hand side), a one-argument property function of such an array (applied
    element by element: numpy would raise on a real mismatch, and such code could not pass the suite)"""
    at = Interp.single_atom(t)
    if at is not None and at[0] == "fn" and depth < 6:
        name, args = at[1], [nf.unkey(a) for a in at[2]]
        if name == "vec" and len(args) >= 2:
            return args[1]
        inner = None
        if name.startswith(_SOLVERS):
            names = name[name.index("{") + 1 : -1].split(",")
            if "b" in names:
                inner = args[names.index("b")]
        elif len(args) == 1 and "{" not in name and name not in ("len", "[]", "vec", "tuple"):
            inner = args[0]
        if inner is not None:
            r = _term_len(inner, depth + 1)
            ra = Interp.single_atom(r)
            if not (ra is not None and ra[0] == "fn" and ra[1] == "len"):
                return r
    if at is None and depth < 6 and isinstance(t, dict):
        # an element-wise expression: as long as the arrays in it
        found = {}
        for mono in t:
            for atom, _e in mono:
                if atom[0] == "fn" and atom[2]:
                    r = _term_len(nf.atom_poly(atom), depth + 1)
                    ra = Interp.single_atom(r)
                    if not (ra is not None and ra[0] == "fn" and ra[1] == "len"):
                        found[nf.key(r)] = r
        if len(found) == 1:
            return next(iter(found.values()))
    return nf.fn("len", t)


def _len_compatible(a, b):
    """two symbolic lengths that differ only in *which* elementwise-related array len() was taken of
    (numpy would raise on a real mismatch, and such code could not pass the suite)"""
    f = lambda x: nf.sym("@len") if x[0] == "fn" and x[1] == "len" else None
    return nf.equal(nf.subst(a, f), nf.subst(b, f))


def _load(t):
    t2 = ast.copy_location(type(t)(**{f: getattr(t, f) for f in t._fields}), t)
    t2.ctx = ast.Load()
    return t2


def _is_slice(v):
    return isinstance(v, SliceV)


def _slice_bounds(sl):
    """(lo, hi) as python ints / None; False when not literal."""
    out = []
    for x in (sl.lo, sl.hi):
        if isinstance(x, NoneV):
            out.append(None)
        else:
            k = nf.as_int(x.nf) if isinstance(x, Num) else None
            out.append(k if k is not None else False)
    if not isinstance(sl.step, NoneV):
        return False, False
    return out[0], out[1]


def _parse_slice_sym(s):
    inner = s[len("slice(") : -1]
    lo, hi = inner.split(",")
    return (None if lo == "None" else int(lo)), (None if hi == "None" else int(hi))


# ---------------------------------------------------------------------- external handlers
def _h_unary(f):
    def h(it, args, kwargs, bound, node, qual):
        if not args:
            return None
        return it._map1(args[0], f)

    return h


def _h_identity(it, args, kwargs, bound, node, qual):
    if qual == "numpy.squeeze" and args and isinstance(args[0], Num):
        ax = kwargs.get("axis", args[1] if len(args) > 1 else None)
        axn = it.to_nf(ax) if ax is not None else None

        def unkeep(a):
            if a[0] == "fn" and a[1] == "sum_kd" and len(a[2]) == 2 and (axn is None or nf.unkey(a[2][1]) == axn):
                return nf.fn("sum", nf.unkey(a[2][0]), nf.unkey(a[2][1]))
            return None

        return Num(nf.subst(args[0].nf, unkeep))
    if qual == "numpy.atleast_1d" and len(args) == 1 and isinstance(args[0], Num) and not getattr(it, "array_mode", False) and getattr(it, "scalar_inputs", True):
        # scalar analysis mode: the argument is a 0-d value, atleast_1d makes it a one-element sequence
        at = it.single_atom(args[0].nf)
        if at is None or at[0] != "fn" or at[1] not in ("[]",):
            return TupV([args[0]], True)
    if len(args) >= 1:
        if qual in ("numpy.array", "numpy.copy", "copy.copy", "copy.deepcopy") and isinstance(args[0], Vec):
            return args[0].copy()  # a new array: later in-place writes do not reach the original
        if qual in ("numpy.array", "numpy.asarray", "numpy.asanyarray") and isinstance(args[0], TupV) and not args[0].arr:
            out = TupV(list(args[0].items), args[0].is_list, names=args[0].names, rowview=args[0].rowview, arr=True)
            dt = kwargs.get("dtype", args[1] if len(args) > 1 else None)
            txt = (dt.qual if isinstance(dt, ExtV) else dt.s if isinstance(dt, StrV) else "") if dt is not None else ""
            # an array built from a list takes the common type of its entries unless a floating dtype is named
            out.float_dtype = txt in ("float", "numpy.float64", "numpy.double", "float64", "f8", "d", "numpy.float_", "numpy.longdouble")
            return out
        return args[0]
    return None


def _h_fn(name, sort=False):
    def h(it, args, kwargs, bound, node, qual):
        if name == "abs" and len(args) == 1 and isinstance(args[0], Num) and nf.is_const(args[0].nf):
            return Num(nf.const(abs(nf.cval(args[0].nf))))
        if len(args) == 1 and isinstance(args[0], TupV) and name in ("max", "min", "sum"):
            args = args[0].items
            if name == "sum":
                acc = {}
                for a in args:
                    acc = nf.add(acc, it.to_nf(a))
                return Num(acc)
        vec = next((a for a in args if isinstance(a, Vec)), None)
        if vec is not None and name in ("minimum", "maximum", "clip", "abs"):
            others = [a for a in args if a is not vec]
            if all(not isinstance(o, Vec) for o in others):
                def f(x):
                    parts = [x if a is vec else it.to_nf(a) for a in args]
                    if sort:
                        parts = sorted(parts, key=repr)
                    return nf.fn(name, *parts)
                return it._map1(vec, f)
        parts = [it.to_nf(a) for a in args]
        if sort:
            parts = sorted(parts, key=repr)
        parts += [nf.fn("kw:" + k, it.to_nf(v)) for k, v in sorted(kwargs.items())]
        return Num(nf.fn(name, *parts))

    return h


def _h_clip(it, args, kwargs, bound, node, qual):
    """np.clip(a, None, hi) == np.minimum(a, hi); np.clip(a, lo, None) == np.maximum(a, lo)"""
    a, lo, hi = bound.get("a"), bound.get("a_min", bound.get("min")), bound.get("a_max", bound.get("max"))
    if a is not None and isinstance(lo, NoneV) and hi is not None and not isinstance(hi, NoneV):
        return _h_fn("minimum", sort=True)(it, [a, hi], {}, {}, node, "numpy.minimum")
    if a is not None and isinstance(hi, NoneV) and lo is not None and not isinstance(lo, NoneV):
        return _h_fn("maximum", sort=True)(it, [a, lo], {}, {}, node, "numpy.maximum")
    if a is not None and lo is not None and hi is not None:
        return _h_fn("clip")(it, [a, lo, hi], {}, {}, node, qual)
    return _h_fn("clip")(it, args, kwargs, bound, node, qual)


def _h_sum(it, args, kwargs, bound, node, qual):
    if "axis" in kwargs and len(args) == 1:
        args = list(args) + [kwargs["axis"]]
        kwargs = {k: v for k, v in kwargs.items() if k != "axis"}
    if len(args) == 1 and isinstance(args[0], TupV):
        acc = {}
        for a in args[0].items:
            acc = nf.add(acc, it.to_nf(a))
        return Num(acc)
    kd = kwargs.get("keepdims")
    kd_val = bool(kd.a) if isinstance(kd, BoolV) and kd.kind == "const" else (bool(nf.cval(kd.nf)) if isinstance(kd, Num) and nf.is_const(kd.nf) else None)
    if kd_val is not None and len(args) == 2:
        # keepdims changes the shape only: kept apart (`sum_kd`) until a squeeze of the same axis gives the plain reduction
        kwargs = {k: v for k, v in kwargs.items() if k != "keepdims"}
        if kd_val and not kwargs:
            return Num(nf.fn("sum_kd", *[it.to_nf(a) for a in args]))
    parts = [it.to_nf(a) for a in args] + [nf.fn("kw:" + k, it.to_nf(v)) for k, v in sorted(kwargs.items())]
    return Num(nf.fn("sum", *parts))


def _h_bsum(it, args, kwargs, bound, node, qual):
    """builtin sum(): over the items of a literal sequence, else an uninterpreted reduction `bsum`"""
    if len(args) == 1 and isinstance(args[0], TupV):
        acc = {}
        for a in args[0].items:
            acc = nf.add(acc, it.to_nf(a))
        return Num(acc)
    return Num(nf.fn("bsum", *[it.to_nf(a) for a in args]))


def _h_len(it, args, kwargs, bound, node, qual):
    a = args[0]
    if isinstance(a, Vec):
        return Num(a.length)
    if isinstance(a, (TupV, SetV)):
        return const_num(len(a.items))
    if isinstance(a, Arr2):
        return Num(a.shape[0])
    return Num(nf.fn("len", it.to_nf(a)))


def _h_linspace(it, args, kwargs, bound, node, qual):
    if not all(k in bound for k in ("start", "stop", "num")):
        return None
    a, b, n = (it.to_nf(bound[k]) for k in ("start", "stop", "num"))
    gen = nf.add(a, nf.div(nf.mul(nf.sub(b, a), nf.sym(J)), nf.sub(n, nf.ONE)))
    return Vec(gen, n)


def _h_arange(it, args, kwargs, bound, node, qual):
    vals = [it.to_nf(a) for a in args]
    if len(vals) == 1:
        start, stop, step = {}, vals[0], nf.ONE
    elif len(vals) == 2:
        start, stop, step = vals[0], vals[1], nf.ONE
    elif len(vals) == 3:
        start, stop, step = vals
    else:
        return None
    gen = nf.add(start, nf.mul(step, nf.sym(J)))
    try:
        ratio = nf.div(nf.sub(stop, start), step)
        if nf.as_int(step) is None and nf.is_const(ratio) and nf.cval(ratio).denominator == 1:
            # the stop is an exact multiple of a non-integer step away from the start: whether the end point is included
            # (n or n + 1 elements) is decided by the rounding of (stop - start) / step
            it.log("arange_hazard", node, start=Num(start), stop=Num(stop), step=Num(step), count=Num(ratio))
    except Exception:  # noqa: BLE001
        pass
    if not start and step == nf.ONE:
        length = stop
    else:
        length = nf.fn("arange_len", start, stop, step)
    return Vec(gen, length)


def _h_full(it, args, kwargs, bound, node, qual):
    if "shape" in bound and "fill_value" in bound and isinstance(bound["shape"], Num):
        v = Vec(it.to_nf(bound["fill_value"]), bound["shape"].nf)
        it.log("alloc_full", node, callee=qual, args=bound, result=v)
        return v
    return None


def _h_like(fill):
    def h(it, args, kwargs, bound, node, qual):
        proto = args[0] if args else None
        fv = fill
        if qual == "numpy.full_like":
            fv = bound.get("fill_value")
        elif fill is not None:
            fv = const_num(fill)
        shp = bound.get("shape")
        if isinstance(shp, TupV) and len(shp.items) == 2:
            it._uid += 1
            arr = Arr2(f"<arr2#{it._uid}@{getattr(node, 'lineno', 0)}>", [it.to_nf(x) for x in shp.items], qual.split(".")[-1], proto, dict(bound), node)
            it.log("alloc", node, buf=arr, callee=qual, args=bound)
            return arr
        if isinstance(proto, Vec) and fv is not None:
            return Vec(it.to_nf(fv), proto.length)
        b = Buf(fv, proto, creator=qual.split(".")[-1], node=node, kwargs={k: v for k, v in bound.items()})
        it.log("alloc", node, buf=b, callee=qual, args=bound)
        return b

    return h


def _h_alloc(fill):
    def h(it, args, kwargs, bound, node, qual):
        shape = args[0] if args else bound.get("shape")
        if isinstance(shape, TupV) and len(shape.items) == 2:
            it._uid += 1
            arr = Arr2(f"<arr2#{it._uid}@{getattr(node, 'lineno', 0)}>", [it.to_nf(x) for x in shape.items], qual.split(".")[-1], None, dict(bound), node)
            it.log("alloc", node, buf=arr, callee=qual, args=bound)
            return arr
        b = Buf(const_num(fill) if fill is not None else None, None, creator=qual.split(".")[-1], node=node, kwargs=dict(bound))
        it.log("alloc", node, buf=b, callee=qual, args=bound)
        return b

    return h


def _h_range(it, args, kwargs, bound, node, qual):
    return RangeV(list(args))


def _h_enumerate(it, args, kwargs, bound, node, qual):
    st = kwargs.get("start", args[1] if len(args) > 1 else None)
    if len(args) in (1, 2) and not (set(kwargs) - {"start"}) and isinstance(st, Num) and st.nf and nf.as_int(st.nf) is not None and isinstance(args[0], TupV) and not args[0].rowview and not args[0].arr:
        # enumerate(<literal sequence>, start=k): the literal pairs (k, item0), (k + 1, item1), ...
        k0 = nf.as_int(st.nf)
        return TupV([TupV([const_num(k0 + j), x]) for j, x in enumerate(args[0].items)], is_list=True)
    if len(args) > 2 or set(kwargs) - {"start"} or (st is not None and not (isinstance(st, Num) and not st.nf)):
        return None  # enumerate(x, start) with start != 0: the counter does not start at 0 - not modelled
    return EnumV(args[0])


def _h_none(it, args, kwargs, bound, node, qual):
    return NoneV()


def _h_pow10(it, args, kwargs, bound, node, qual):
    return None


def _h_hasattr(it, args, kwargs, bound, node, qual):
    nm = args[1].s if len(args) > 1 and isinstance(args[1], StrV) else "?"
    if args and isinstance(args[0], Inst) and nm in args[0].attrs:
        return BoolV("const", True)
    if args and isinstance(args[0], Inst) and nm != "?" and args[0].cls.lookup(nm) is None and nm not in args[0].cls.all_fields() and not any(nm in c.class_attrs for c in args[0].cls.mro()) and not it.P.attribute_is_stored(nm):
        # no class of the package ever stores an attribute of that name, and the class declares none
        return BoolV("const", False)
    return BoolV("opaque", f"hasattr({nf.show(it.to_nf(args[0]), 120)}, {nm!r})")


def _h_getattr(it, args, kwargs, bound, node, qual):
    if len(args) < 2 or not isinstance(args[1], StrV):
        return None
    obj, name = args[0], args[1].s
    if isinstance(obj, Inst) and (name in obj.attrs or obj.cls.lookup(name) is not None):
        return it.getattr(obj, name, node)
    if len(args) >= 3:
        t = BoolV("opaque", f"hasattr({nf.show(it.to_nf(obj), 120)}, {name!r})")
        if not it.decide(t, node):
            return args[2]
    return it.getattr(obj, name, node)


def _h_operator(it, args, kwargs, bound, node, qual):
    """operator.gt(a, b) etc. are the comparison / arithmetic operators themselves"""
    name = qual.split(".")[-1]
    cmp_ops = {"gt": ast.Gt, "lt": ast.Lt, "ge": ast.GtE, "le": ast.LtE, "eq": ast.Eq, "ne": ast.NotEq, "is_": ast.Is, "is_not": ast.IsNot, "contains": None}
    if name in cmp_ops and cmp_ops[name] is not None and len(args) == 2 and not kwargs:
        return it._compare(cmp_ops[name](), args[0], args[1])
    bin_ops = {"add": ast.Add, "sub": ast.Sub, "mul": ast.Mult, "truediv": ast.Div, "pow": ast.Pow}
    if name in bin_ops and len(args) == 2 and not kwargs:
        return it._binop(bin_ops[name](), args[0], args[1], node)
    if name == "neg" and len(args) == 1:
        return it._binop(ast.Sub(), const_num(0), args[0], node)
    if name == "getitem" and len(args) == 2 and not kwargs:
        return it._index(args[0], args[1], node)
    if name in ("itemgetter", "attrgetter") and args and not kwargs:
        # itemgetter('a', 'b') is  lambda o: (o['a'], o['b']);  attrgetter('x.y') is  lambda o: o.x.y
        keys = []
        for a in args:
            if isinstance(a, StrV) and (name == "itemgetter" or all(part.isidentifier() for part in a.s.split("."))):
                keys.append(repr(a.s) if name == "itemgetter" else a.s)
            elif name == "itemgetter" and isinstance(a, Num) and nf.as_int(a.nf) is not None:
                keys.append(str(nf.as_int(a.nf)))
            else:
                return None
        parts = [f"_o[{k}]" if name == "itemgetter" else f"_o.{k}" for k in keys]
        body = parts[0] if len(parts) == 1 else "(" + ", ".join(parts) + ")"
        return LambdaV(ast.parse(f"lambda _o: {body}", mode="eval").body, None, None)
    return None


def _h_wraps(it, args, kwargs, bound, node, qual):
    """functools.wraps(f) -> a decorator that returns its argument (metadata only)"""
    ident = ast.parse("lambda _wrapped: _wrapped", mode="eval").body
    return LambdaV(ident, None, None)


def _h_partial(it, args, kwargs, bound, node, qual):
    if args and isinstance(args[0], (FuncV, LambdaV, PartialV, ClassV, ExtV, BoundExt)):
        return PartialV(args[0], list(args[1:]), dict(kwargs))
    return None


def _h_bool(it, args, kwargs, bound, node, qual):
    """bool(x): the truth value `if x:` decides on (same partition key)"""
    if len(args) == 1 and not kwargs:
        v = args[0]
        if isinstance(v, BoolV):
            return v
        if isinstance(v, NoneV):
            return BoolV("const", False)
        if isinstance(v, Num):
            if nf.is_const(v.nf):
                return BoolV("const", bool(nf.cval(v.nf)))
            return BoolV("opaque", nf.show(v.nf, 200))
    if not args:
        return BoolV("const", False)
    return None


def _h_set(it, args, kwargs, bound, node, qual):
    """set(x) / frozenset(x) of a literal sequence of items: the set of those items"""
    if not args and not kwargs:
        return SetV([])
    if len(args) == 1 and isinstance(args[0], (TupV, SetV)):
        seen, items = set(), []
        for x in args[0].items:
            k = x.s if isinstance(x, StrV) else nf.show(it.to_nf(x))
            if k not in seen:
                seen.add(k)
                items.append(x)
        return SetV(items)
    return None


def _h_zip(it, args, kwargs, bound, node, qual):
    """zip(s, t, ...) with at least one literal sequence: the literal tuple of (s[k], t[k], ...) up to the shortest literal
    length (an opaque sequence is taken to be at least that long - as the tuple-unpacking form would require)"""
    lits = [a for a in args if isinstance(a, TupV) and not a.rowview]
    if not lits or set(kwargs) - {"strict"} or not all(isinstance(a, (TupV, ExtObj, Num)) for a in args):
        return None
    if "strict" in kwargs and len({len(a.items) for a in lits}) != 1:
        return None  # strict=True with literal sequences of different lengths raises
    if any(isinstance(a, TupV) and a.rowview for a in args):
        return None
    n = min(len(a.items) for a in lits)
    return TupV([TupV([it._index(a, const_num(k), node) for a in args]) for k in range(n)], True)


def _h_map(it, args, kwargs, bound, node, qual):
    """map(f, s, ...) over literal sequences: the literal tuple of the calls f(s[k], ...)"""
    if len(args) == 2 and not kwargs and isinstance(args[1], (Num, Vec)):
        # map(f, array): f at the generic element, like the comprehension [f(x) for x in array]
        it.log("for_iter", node, iter=args[1], comprehension=True)
        return it.call(args[0], [it._element_of(args[1])], {}, node, None)
    if len(args) < 2 or kwargs or not all(isinstance(a, TupV) and not a.rowview for a in args[1:]):
        return None
    n = min(len(a.items) for a in args[1:])
    return TupV([it.call(args[0], [a.items[k] for a in args[1:]], {}, node, None) for k in range(n)], True)


def _h_sorted(it, args, kwargs, bound, node, qual):
    """sorted(x[, key=f][, reverse=b]) of a literal sequence whose sort keys are all literal strings or all constant
    numbers (the keys of a literal dict when x is one): the sorted list"""
    if len(args) != 1 or set(kwargs) - {"reverse", "key"}:
        return None
    x = args[0]
    if isinstance(x, DictV) and not x.fallback and all(isinstance(k, str) for k in x.items):
        items = [StrV(k) for k in x.items]
    elif isinstance(x, (TupV, SetV)) and not getattr(x, "rowview", False):
        items = list(x.items)
    else:
        return None
    rev = kwargs.get("reverse")
    if rev is not None and not (isinstance(rev, BoolV) and rev.kind == "const"):
        return None
    keyf = kwargs.get("key")
    keys = [it.call(keyf, [i], {}, node, None) for i in items] if keyf is not None and not isinstance(keyf, NoneV) else items
    if all(isinstance(k, StrV) for k in keys):
        ks = [k.s for k in keys]
    elif all(isinstance(k, Num) and nf.is_const(k.nf) for k in keys):
        ks = [nf.cval(k.nf) for k in keys]
    else:
        return None
    order = sorted(range(len(items)), key=lambda i: ks[i], reverse=bool(rev.a) if rev is not None else False)
    return TupV([items[i] for i in order], True)


def _h_masked_store(it, args, kwargs, bound, node, qual):
    """np.place(a, mask, vals) with vals packed by the mask, np.putmask(a, mask, values) with full-size values (the rule
    on masked helpers checks that shape of use): both are the masked store a[mask] = ..."""
    if len(args) != 3 or kwargs or not isinstance(args[1], BoolV):
        return None
    a, mask, vals = args
    if qual.endswith("putmask") and not (isinstance(vals, Num) and nf.is_const(vals.nf)):
        vals = it._index(vals, mask, node)
    it._store_index(a, mask, vals, node)
    return NoneV()


def _h_ufunc(it, args, kwargs, bound, node, qual):
    """np.add / subtract / multiply / divide / power / negative / square are the arithmetic operators"""
    name = qual.split(".")[-1]
    ops = {"add": ast.Add, "subtract": ast.Sub, "multiply": ast.Mult, "divide": ast.Div, "true_divide": ast.Div, "power": ast.Pow, "float_power": ast.Pow}
    if set(kwargs) - {"out", "dtype"}:
        return None
    if "dtype" in kwargs:
        return None
    if name in ops and len(args) == 2:
        return it._binop(ops[name](), args[0], args[1], node)
    if name == "negative" and len(args) == 1:
        return it._binop(ast.Sub(), const_num(0), args[0], node)
    if name == "square" and len(args) == 1:
        return it._binop(ast.Mult(), args[0], args[0], node)
    # np.reciprocal is NOT 1 / x: on an integer array it is integer reciprocal (0 for every |x| > 1) - kept opaque
    return None


def _h_average(it, args, kwargs, bound, node, qual):
    """np.average(x, weights=w) over literal sequences: sum(w_i x_i) / sum(w_i) - the division by the weight sum is kept
    (it is what fails when all weights vanish)"""
    w = kwargs.get("weights", args[1] if len(args) > 1 else None)
    if not args or w is None or set(kwargs) - {"weights"}:
        return None
    x = args[0]
    if isinstance(x, TupV) and isinstance(w, TupV) and len(x.items) == len(w.items) and not x.rowview and not w.rowview:
        num, den = {}, {}
        for a, b in zip(x.items, w.items):
            num = nf.add(num, nf.mul(it.to_nf(a), it.to_nf(b)))
            den = nf.add(den, it.to_nf(b))
        it.log("weighted_average", node, weights_sum=Num(den))
        return Num(nf.div(num, den))
    return None


def _h_select(it, args, kwargs, bound, node, qual):
    """np.select(condlist, choicelist, default=0): a fresh float buffer filled with `default` and overwritten, for each
    condition in turn, where that condition holds (masked stores; the first true condition wins)"""
    conds = bound.get("condlist", args[0] if args else None)
    vals = bound.get("choicelist", args[1] if len(args) > 1 else None)
    if not (isinstance(conds, TupV) and isinstance(vals, TupV) and len(conds.items) == len(vals.items) and all(isinstance(c, BoolV) for c in conds.items)):
        return None
    default = bound.get("default", kwargs.get("default", args[2] if len(args) > 2 else const_num(0)))
    b = Buf(default, None, creator="select", node=node, kwargs={"dtype": ExtV("numpy.float64")})
    it.log("alloc", node, buf=b, callee=qual, args=bound)
    # later conditions apply only where no earlier one held; stored in reverse so that earlier stores overwrite later ones
    for c, v in reversed(list(zip(conds.items, vals.items))):
        vv = it._index(v, c, node) if not (isinstance(v, Num) and nf.is_const(v.nf)) else v
        it._store_index(b, c, vv, node)
    return b


def _h_unique(it, args, kwargs, bound, node, qual):
    """np.unique(x, return_index=..., return_inverse=...): named parts of one decomposition of x -
    uniq(x)[uniq_inv(x)] == x is the identity the interpreter knows about them"""
    if len(args) != 1 or set(kwargs) - {"return_index", "return_inverse", "return_counts"}:
        return None
    flags = {}
    for k in ("return_index", "return_inverse", "return_counts"):
        v = kwargs.get(k)
        if v is None:
            flags[k] = False
        elif isinstance(v, BoolV) and v.kind == "const":
            flags[k] = bool(v.a)
        else:
            return None
    x = it.to_nf(args[0])
    parts = [Num(nf.fn("uniq", x))]
    if flags["return_index"]:
        parts.append(Num(nf.fn("uniq_first", x)))
    if flags["return_inverse"]:
        parts.append(Num(nf.fn("uniq_inv", x)))
    if flags["return_counts"]:
        parts.append(Num(nf.fn("uniq_counts", x)))
    return parts[0] if len(parts) == 1 else TupV(parts)


def _h_argsort(it, args, kwargs, bound, node, qual):
    if len(args) != 1 or set(kwargs) - {"kind", "axis"}:
        return None
    ax = kwargs.get("axis")
    if ax is not None and not isinstance(ax, NoneV):
        return None
    return Num(nf.fn("argsort", it.to_nf(args[0])))


def _h_mappingproxy(it, args, kwargs, bound, node, qual):
    """types.MappingProxyType(d): a read-only view of d - the same mapping for every read"""
    if len(args) == 1 and not kwargs and isinstance(args[0], DictV):
        return args[0]
    return None


def _h_setattr(it, args, kwargs, bound, node, qual):
    if len(args) == 3 and isinstance(args[1], StrV):
        it.store_attribute(args[0], args[1].s, args[2], node, raw=qual == "object.__setattr__")
        return NoneV()
    return None


def _h_delattr(it, args, kwargs, bound, node, qual):
    if len(args) == 2 and isinstance(args[1], StrV):
        obj = args[0]
        it.log("del_attr", node, base=obj, attr=args[1].s)
        if isinstance(obj, Inst):
            obj.attrs.pop(args[1].s, None)
        return NoneV()
    return None


def _h_isinstance(it, args, kwargs, bound, node, qual):
    """isinstance(x, T): decided where the abstract value has a definite Python type (None, a string, a list / tuple / dict
    literal, an object of a package class); the type of a symbolic number or array stays an open question"""
    if len(args) == 2:
        x, t = args
        names = []
        for c in (t.items if isinstance(t, TupV) else [t]):
            if isinstance(c, ExtV):
                names.append(c.qual.split(".")[-1])
            elif isinstance(c, ClassV):
                names.append(c.info)
            else:
                names = None
                break
        if names is not None:
            simple = {n for n in names if isinstance(n, str)}
            if isinstance(x, NoneV):
                return BoolV("const", bool(simple & {"NoneType", "object"}))
            if isinstance(x, Num):
                a_ = it.single_atom(x.nf)
                if a_ is not None and a_[0] == "sym" and a_[1] in getattr(it, "not_none", ()) and simple & {"Real", "Number", "object"}:
                    # a number supplied by the rule: every real scalar type (Python and numpy) is a numbers.Real
                    return BoolV("const", True)
            if isinstance(x, StrV):
                return BoolV("const", bool(simple & {"str", "object"}))
            if isinstance(x, DictV):
                return BoolV("const", bool(simple & {"dict", "Mapping", "MutableMapping", "object"}))
            if isinstance(x, TupV) and not x.arr and not x.rowview:
                own = {"list", "Sequence", "MutableSequence", "Iterable", "object"} if x.is_list else {"tuple", "Sequence", "Iterable", "object"}
                return BoolV("const", bool(simple & own))
            if isinstance(x, Inst):
                mro = x.cls.mro()
                if any(n in mro for n in names if not isinstance(n, str)):
                    return BoolV("const", True)
                if not simple - {"int", "float", "complex", "str", "bytes", "list", "tuple", "dict", "set", "bool", "ndarray", "Real", "Number", "Integral", "floating", "integer", "NoneType"}:
                    return BoolV("const", False)
    return BoolV("opaque", f"isinstance({nf.show(it.to_nf(args[0]), 120)}, ...)")


def _h_where(it, args, kwargs, bound, node, qual):
    if len(args) == 3 and isinstance(args[0], BoolV) and args[0].kind == "pos":
        # np.where(arange(n) == k, a, b): b with position k replaced by a (scalars broadcast to length n)
        pos, length = args[0].a, args[0].b
        a, b = args[1], args[2]
        if isinstance(b, Vec):
            out = b.copy()
        elif isinstance(b, Num):
            out = Vec(b.nf, length)
        else:
            return None
        if isinstance(a, Vec):
            val = a.at(pos)
        elif isinstance(a, Num):
            val = a.nf
        else:
            return None
        out.over[nf.key(pos)] = (pos, val)
        return out
    if len(args) == 3 and isinstance(args[0], BoolV):
        # np.where(x < c, c, x) / np.where(x > c, x, c) ... are the elementwise clamps maximum(x, c) / minimum(x, c)
        t = args[0]
        if t.kind == "or":
            # (x <= c) | np.isnan(x): the NaN clause only reproduces np.minimum / np.maximum's NaN propagation
            for cmp_, other in ((t.a, t.b), (t.b, t.a)):
                if isinstance(cmp_, BoolV) and cmp_.kind == "cmp":
                    on = it.to_nf(other)
                    oa = it.single_atom(on)
                    if oa is not None and oa[0] == "fn" and oa[1].split("{")[0] in ("numpy.isnan", "isnan", "math.isnan") and len(oa[2]) == 1 and nf.unkey(oa[2][0]) in (cmp_.a, cmp_.b):
                        t = cmp_
        if t.kind == "cmp" and isinstance(args[1], (Num, Vec)) and isinstance(args[2], (Num, Vec)):
            l, r, sym = t.a, t.b, t.op
            a1, a2 = it.to_nf(args[1]), it.to_nf(args[2])
            if sym in ("<", "<=", ">", ">=") and {nf.key(a1), nf.key(a2)} == {nf.key(l), nf.key(r)} and nf.key(l) != nf.key(r):
                # picks the larger operand when (l < r and a1 is r) or (l > r and a1 is l)
                takes_right = nf.key(a1) == nf.key(r)
                larger = takes_right if sym in ("<", "<=") else not takes_right
                name = "maximum" if larger else "minimum"
                lv = args[1] if nf.key(a1) == nf.key(l) else args[2]
                rv = args[2] if lv is args[1] else args[1]
                return _h_fn(name, sort=True)(it, [lv, rv], {}, {}, node, "numpy." + name)
        # np.where(P, a, b) is the elementwise form of `a if P else b`: partition on P
        return args[1] if it.decide(args[0], node) else args[2]
    if len(args) == 3:
        return Num(nf.fn("where", *[it.to_nf(a) for a in args]))
    return None


def _h_dict(it, args, kwargs, bound, node, qual):
    if not args:
        return DictV(dict(kwargs))
    if isinstance(args[0], TupV) and not args[0].rowview and all(
        isinstance(x, TupV) and len(x.items) == 2 and isinstance(x.items[0], StrV) for x in args[0].items
    ):
        d = DictV({x.items[0].s: x.items[1] for x in args[0].items})
        d.items.update(kwargs)
        return d
    if isinstance(args[0], DictV):
        d = DictV(dict(args[0].items), list(args[0].fallback))
        d.items.update(kwargs)
        return d
    return args[0]


def _h_diff(it, args, kwargs, bound, node, qual):
    """np.diff(x[, prepend=c]) of an opaque 1-D array: indexed differences (explicit positions)."""
    if len(args) != 1 or set(kwargs) - {"prepend"}:
        return None
    x = args[0]
    if isinstance(x, Vec):
        xa = lambda pos: x.at(pos)
        n = x.length
    elif isinstance(x, Num) and it.single_atom(x.nf) is not None:
        xa = lambda pos: nf.fn("[]", x.nf, pos)
        n = nf.fn("len", x.nf)
    else:
        return None
    j = nf.sym(J)
    if "prepend" in kwargs:
        gen = nf.sub(xa(j), xa(nf.sub(j, nf.ONE)))
        v = Vec(gen, n)
        v.over[nf.key(nf.const(0))] = (nf.const(0), nf.sub(xa(nf.const(0)), it.to_nf(kwargs["prepend"])))
        return v
    return Vec(nf.sub(xa(nf.add(j, nf.ONE)), xa(j)), nf.sub(n, nf.ONE))


def _h_vectorize(it, args, kwargs, bound, node, qual):
    """np.vectorize(f)(...) applies f elementwise: in the term domain that is f itself (the call is logged as per-element)"""
    if args and isinstance(args[0], (FuncV, LambdaV, PartialV)):
        return PartialV(args[0], [], {}, vectorized=True)
    return None


def _h_dataframe(it, args, kwargs, bound, node, qual):
    d = bound.get("data")
    if isinstance(d, DictV):
        it.log("ext_call", node, callee=qual, args=bound, result=d)
        return DictV(dict(d.items), list(d.fallback))
    return None


_EXT_HANDLERS = {
    "pandas.DataFrame": _h_dataframe,
    "numpy.diff": _h_diff,
    "numpy.vectorize": _h_vectorize,
    "math.exp": _h_unary(nf.exp),
    "numpy.exp": _h_unary(nf.exp),
    "math.log": _h_unary(nf.log),
    "numpy.log": _h_unary(nf.log),
    "math.sqrt": _h_unary(nf.sqrt),
    "numpy.sqrt": _h_unary(nf.sqrt),
    "math.fabs": _h_fn("abs"),
    "numpy.abs": _h_fn("abs"),
    "numpy.absolute": _h_fn("abs"),
    "abs": _h_fn("abs"),
    "numpy.minimum": _h_fn("minimum", sort=True),
    "numpy.maximum": _h_fn("maximum", sort=True),
    "numpy.clip": _h_clip,
    "max": _h_fn("max", sort=True),
    "min": _h_fn("min", sort=True),
    "sum": _h_bsum,
    "numpy.sum": _h_sum,
    "numpy.any": _h_fn("any"),
    "numpy.all": _h_fn("all"),
    "numpy.ndim": _h_fn("ndim"),
    "numpy.size": _h_fn("size"),
    "numpy.round": _h_fn("round"),
    "numpy.cumsum": _h_fn("cumsum"),
    "numpy.logspace": _h_fn("logspace"),
    "numpy.isfinite": _h_fn("isfinite"),
    "numpy.where": _h_where,
    "len": _h_len,
    "numpy.linspace": _h_linspace,
    "numpy.arange": _h_arange,
    "numpy.full": _h_full,
    "numpy.full_like": _h_like(None),
    "numpy.empty_like": _h_like(None),
    "numpy.zeros_like": _h_like(0),
    "numpy.ones_like": _h_like(1),
    "numpy.empty": _h_alloc(None),
    "numpy.zeros": _h_alloc(0),
    "numpy.ones": _h_alloc(1),
    "range": _h_range,
    "enumerate": _h_enumerate,
    "print": _h_none,
    "warnings.warn": _h_none,
    "warnings.simplefilter": _h_none,
    "hasattr": _h_hasattr,
    "getattr": _h_getattr,
    "functools.partial": _h_partial,
    "functools.wraps": _h_wraps,
    **{"operator." + k: _h_operator for k in ("gt", "lt", "ge", "le", "eq", "ne", "is_", "is_not", "add", "sub", "mul", "truediv", "pow", "neg", "getitem", "itemgetter", "attrgetter")},
    "setattr": _h_setattr,
    "object.__setattr__": _h_setattr,
    "delattr": _h_delattr,
    "isinstance": _h_isinstance,
    "dict": _h_dict,
    "types.MappingProxyType": _h_mappingproxy,
    "bool": _h_bool,
    "numpy.unique": _h_unique,
    "numpy.argsort": _h_argsort,
    "numpy.select": _h_select,
    "numpy.average": _h_average,
    **{"numpy." + k: _h_ufunc for k in ("add", "subtract", "multiply", "divide", "true_divide", "power", "float_power", "negative", "square")},
    "zip": _h_zip,
    "numpy.place": _h_masked_store,
    "numpy.putmask": _h_masked_store,
    "map": _h_map,
    "sorted": _h_sorted,
    "set": _h_set,
    "frozenset": _h_set,
}
for _q in IDENTITY_EXT:
    _EXT_HANDLERS[_q] = _h_identity


def _h_sequence(it, args, kwargs, bound, node, qual):
    """tuple(x) / list(x): the keys of a literal dict, the items of a loop-free generator, else x itself"""
    if len(args) == 1 and isinstance(args[0], DictV) and not args[0].fallback and all(isinstance(k, str) for k in args[0].items):
        return TupV([StrV(k) for k in args[0].items], qual == "list")
    if len(args) == 1 and isinstance(args[0], GenV):
        t = it.collect_generator(args[0])
        t.is_list = qual == "list"
        return t
    return _h_identity(it, args, kwargs, bound, node, qual)


def _h_tile(it, args, kwargs, bound, node, qual):
    """np.tile(v, (n, 1)) of a 1-D sequence v: n identical rows - represented by the generic row"""
    if len(args) == 2 and isinstance(args[0], TupV) and isinstance(args[1], TupV) and len(args[1].items) == 2:
        last = args[1].items[1]
        if isinstance(last, Num) and nf.as_int(last.nf) == 1:
            return TupV(list(args[0].items), rowview=True)
    return None


def _h_column_stack(it, args, kwargs, bound, node, qual):
    """np.column_stack([rows..., column, rows...]): the generic row is the concatenation of the parts' generic rows"""
    if len(args) != 1 or not isinstance(args[0], TupV):
        return None
    out = []
    for part in args[0].items:
        if isinstance(part, TupV) and part.rowview:
            out.extend(part.items)
        elif isinstance(part, (Vec, Num)) and not isinstance(part, TupV):
            out.append(it._element_of(part))
        else:
            return None
    return TupV(out, rowview=True)


_EXT_HANDLERS["numpy.tile"] = _h_tile
_EXT_HANDLERS["numpy.column_stack"] = _h_column_stack
_EXT_HANDLERS["tuple"] = _h_sequence
_EXT_HANDLERS["list"] = _h_sequence
