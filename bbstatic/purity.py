"""Rule M (shared): memo-key completeness / no hidden state in value-returning library functions.

Every property of this repository states that a result is a function of the call's arguments (or of
the object's current configuration).  A function that keeps results in persistent state - a
module-level or class-level container, a `global`, a function attribute - is only correct if the
key under which a value is stored determines everything the value was computed from.  The rule
derives, per memo site, the parameters the stored value depends on (intra-procedural def-use
closure, including enclosing-function parameters) and the parameters captured *losslessly* by the
key; a value that depends on a parameter missing from the key (or captured only through a lossy
view such as len()/id()/.shape, or compared by identity `is` although it is a mutable table) is a
stale-cache violation: a second call that differs only in that parameter returns the first
call's value.  A completely keyed memo is silent.
"""
from __future__ import annotations

import ast

LOSSY = {"len", "id", "type", "hash", "bool", "np.size", "np.shape", "np.ndim", "numpy.size", "numpy.shape", "numpy.ndim", "round", "int"}
LOSSY_ATTRS = {"shape", "size", "ndim", "dtype", "columns", "index"}
CONTAINER_CALLS = {
    "dict", "list", "set", "OrderedDict", "defaultdict", "collections.OrderedDict", "collections.defaultdict", "WeakValueDictionary", "weakref.WeakValueDictionary",
    "WeakKeyDictionary", "weakref.WeakKeyDictionary", "bytearray", "deque", "collections.deque",
    # numpy buffers kept at module level
    "np.empty", "np.zeros", "np.ones", "np.full", "np.array", "numpy.empty", "numpy.zeros", "numpy.ones", "numpy.full", "numpy.array",
}

SELFTEST_SRC = '''
_memo = {}
def f(a, b, c):
    key = (a, len(b))
    if key in _memo:
        return _memo[key]
    v = a * b.sum() + c
    _memo[key] = v
    return v
_ok = {}
def g(a, b):
    k = (a, b)
    if k not in _ok:
        _ok[k] = a + b
    return _ok[k]
'''


class MemoFinding:
    def __init__(self, func, line, state, missing, how):
        self.func, self.line, self.state, self.missing, self.how = func, line, state, missing, how


def _is_container(expr):
    if isinstance(expr, (ast.Dict, ast.List, ast.Set)):
        return True
    if isinstance(expr, ast.Tuple):
        return True  # single-slot memo (key, value) replaced wholesale
    if isinstance(expr, ast.Call) and ast.unparse(expr.func) in CONTAINER_CALLS:
        return True
    if isinstance(expr, ast.Constant) and expr.value is None:
        return True  # `_last = None` single-slot
    return False


def _names(expr, lossless_only=False):
    """Names read by an expression; with lossless_only, names under a lossy call/attribute are skipped."""
    out = set()

    def walk(n, lossy):
        if isinstance(n, ast.Call):
            fn = ast.unparse(n.func)
            l2 = lossy or fn in LOSSY
            if isinstance(n.func, ast.Attribute):
                walk(n.func.value, l2)
            for a in n.args:
                walk(a, l2)
            for k in n.keywords:
                walk(k.value, l2)
            return
        if isinstance(n, ast.Attribute):
            if isinstance(n.value, ast.Name) and n.value.id == "self":
                if not (lossless_only and lossy):
                    out.add("self." + n.attr)  # a field of the (mutable) object is an input of the method
                return
            walk(n.value, lossy or n.attr in LOSSY_ATTRS)
            return
        if isinstance(n, ast.Name):
            if not (lossless_only and lossy):
                out.add(n.id)
            return
        for c in ast.iter_child_nodes(n):
            walk(c, lossy)

    walk(expr, False)
    return out


def _param_deps(fnode, enclosing_params):
    """{local name -> (params it depends on, params it captures losslessly)} by a def-use fixpoint."""
    a = fnode.args
    params = {x.arg for x in a.posonlyargs + a.args + a.kwonlyargs} | ({a.vararg.arg} if a.vararg else set()) | ({a.kwarg.arg} if a.kwarg else set())
    params |= set(enclosing_params)
    deps = {p: ({p}, {p}) for p in params}
    assigns = []

    def bound_names(t):
        if isinstance(t, ast.Name):
            return [t.id]
        if isinstance(t, (ast.Tuple, ast.List)):
            return [x for e in t.elts for x in bound_names(e)]
        if isinstance(t, ast.Starred):
            return bound_names(t.value)
        return []  # subscript / attribute targets bind no local name

    for n in ast.walk(fnode):
        if isinstance(n, ast.Assign):
            for t in n.targets:
                for nm in bound_names(t):
                    assigns.append((nm, n.value))
                if isinstance(t, (ast.Subscript, ast.Attribute)) and _root(t) is not None:
                    assigns.append((_root(t), n.value))  # element / field store: the container now depends on the value
        elif isinstance(n, (ast.AugAssign, ast.AnnAssign)) and n.value is not None and isinstance(n.target, ast.Name):
            assigns.append((n.target.id, n.value))
        elif isinstance(n, (ast.For, ast.comprehension)):
            for nm in bound_names(n.target):
                assigns.append((nm, n.iter))
        elif isinstance(n, ast.withitem) and n.optional_vars is not None:
            for nm in bound_names(n.optional_vars):
                assigns.append((nm, n.context_expr))
        elif isinstance(n, ast.NamedExpr):
            assigns.append((n.target.id, n.value))
        elif isinstance(n, ast.Expr) and isinstance(n.value, ast.Call) and isinstance(n.value.func, ast.Attribute) and _root(n.value.func.value) is not None:
            # obj.method(args) as a statement may store its arguments in obj
            c = n.value
            assigns.append((_root(c.func.value), ast.Tuple(list(c.args) + [k.value for k in c.keywords], ast.Load())))
    # nested function definitions: calling them depends on what their bodies read
    for n in ast.walk(fnode):
        if isinstance(n, (ast.FunctionDef, ast.Lambda)) and n is not fnode:
            body_names = set()
            for b in (n.body if isinstance(n.body, list) else [n.body]):
                body_names |= _names(b)
            if isinstance(n, ast.FunctionDef):
                assigns.append((n.name, ast.Tuple([ast.Name(x, ast.Load()) for x in body_names], ast.Load())))
    changed = True
    while changed:
        changed = False
        for name, val in assigns:
            if name in params:
                continue
            full, exact = set(), set()
            for nm in _names(val):
                if nm in deps:
                    full |= deps[nm][0]
                elif nm.startswith("self."):
                    full.add(nm)
            for nm in _names(val, lossless_only=True):
                if nm in deps:
                    exact |= deps[nm][1]
                elif nm.startswith("self."):
                    exact.add(nm)
            cur = deps.get(name, (set(), set()))
            new = (cur[0] | full, cur[1] | exact)
            if new != cur:
                deps[name] = new
                changed = True
    return params, deps


def _expr_deps(expr, deps, lossless):
    out = set()
    for nm in _names(expr, lossless_only=lossless):
        if nm in deps:
            out |= deps[nm][1 if lossless else 0]
        elif nm.startswith("self."):
            out.add(nm)
    return out


def analyse_module(tree, relpath):
    """Return (findings, n_state_objects, n_functions_scanned)."""
    state = {}
    for node in tree.body:
        if isinstance(node, ast.Assign) and len(node.targets) == 1 and isinstance(node.targets[0], ast.Name) and _is_container(node.value):
            if not isinstance(node.value, ast.Tuple) or True:
                state[node.targets[0].id] = ("module", node.lineno, isinstance(node.value, (ast.Dict, ast.List, ast.Set, ast.Call)))
        elif isinstance(node, ast.AnnAssign) and isinstance(node.target, ast.Name) and node.value is not None and _is_container(node.value):
            state[node.target.id] = ("module", node.lineno, True)
    class_state = {}
    for node in ast.walk(tree):
        if isinstance(node, ast.ClassDef):
            for st in node.body:
                tgt = None
                if isinstance(st, ast.Assign) and len(st.targets) == 1 and isinstance(st.targets[0], ast.Name):
                    tgt, val = st.targets[0].id, st.value
                elif isinstance(st, ast.AnnAssign) and isinstance(st.target, ast.Name) and st.value is not None:
                    tgt, val = st.target.id, st.value
                if tgt and isinstance(val, (ast.Dict, ast.List, ast.Set, ast.Tuple)) and not (isinstance(val, ast.Tuple) and all(isinstance(e, ast.Constant) and isinstance(e.value, (int, float, str)) for e in val.elts) and val.elts):
                    class_state[tgt] = (node.name, st.lineno)
    inst_state = set()
    for node in ast.walk(tree):
        if isinstance(node, ast.ClassDef):
            for st in node.body:
                if isinstance(st, ast.AnnAssign) and isinstance(st.target, ast.Name) and isinstance(st.value, ast.Call) and ast.unparse(st.value.func) in ("field", "dataclasses.field"):
                    for k in st.value.keywords:
                        if k.arg == "default_factory" and ast.unparse(k.value) in ("dict", "list", "set", "OrderedDict", "collections.OrderedDict"):
                            inst_state.add(st.target.id)
                if isinstance(st, ast.FunctionDef) and st.name in ("__init__", "__post_init__"):
                    for n in ast.walk(st):
                        if isinstance(n, ast.Assign) and len(n.targets) == 1 and isinstance(n.targets[0], ast.Attribute) and isinstance(n.targets[0].value, ast.Name) and n.targets[0].value.id == "self" and isinstance(n.value, (ast.Dict, ast.List, ast.Set)) and not getattr(n.value, "keys", getattr(n.value, "elts", [])):
                            inst_state.add(n.targets[0].attr)
    findings = []
    nfuncs = 0

    def is_inst_state(node):
        return isinstance(node, ast.Attribute) and isinstance(node.value, ast.Name) and node.value.id == "self" and node.attr in inst_state

    def scan(fnode, enclosing_params, qual):
        nonlocal nfuncs
        nfuncs += 1
        params, deps = _param_deps(fnode, enclosing_params)
        globals_declared = {n for g in ast.walk(fnode) if isinstance(g, ast.Global) for n in g.names}
        own_nodes = list(_own_nodes(fnode))
        # class-creation hooks run once per class, at import: what they record (a registry of subclass names) is not a
        # result kept between calls
        creation_hook = fnode.name in ("__init_subclass__", "__set_name__", "__class_getitem__")
        for n in ([] if creation_hook else own_nodes):
            # --- dict-style memo: G[key] = value / G.setdefault(key, value) / G.update({key: value})
            key = val = target = None
            sub_targets = [t for t in n.targets if isinstance(t, ast.Subscript)] if isinstance(n, ast.Assign) else []
            if sub_targets:
                t0 = sub_targets[0]
                root = _root(t0.value)
                if root in state or _is_class_state(t0.value, class_state) or is_inst_state(t0.value):
                    target, key, val = ast.unparse(t0.value), t0.slice, n.value
            elif isinstance(n, ast.Expr) and isinstance(n.value, ast.Call) and isinstance(n.value.func, ast.Attribute):
                c = n.value
                root = _root(c.func.value)
                if (root in state or _is_class_state(c.func.value, class_state) or is_inst_state(c.func.value)) and c.func.attr == "setdefault" and len(c.args) == 2:
                    target, key, val = ast.unparse(c.func.value), c.args[0], c.args[1]
                elif (root in state or _is_class_state(c.func.value, class_state)) and c.func.attr in ("append", "add", "extend", "insert"):
                    target, key, val = ast.unparse(c.func.value), ast.Constant(None), c.args[-1] if c.args else None
            if target is not None and val is not None:
                vdeps = _expr_deps(val, deps, False)
                kdeps = _expr_deps(key, deps, True)
                own = {"self." + a for a in inst_state} | {"self"}
                missing = sorted((vdeps - kdeps) - own)
                if missing:
                    findings.append(MemoFinding(qual, n.lineno, target, missing, f"value stored under key `{ast.unparse(key)[:60]}`"))
                continue
            # --- single-slot memo: module global / class attribute rebound to a value computed from parameters
            if isinstance(n, ast.Assign) and len(n.targets) == 1:
                t = n.targets[0]
                slot = None
                if isinstance(t, ast.Name) and t.id in globals_declared and t.id in state:
                    slot = t.id
                elif isinstance(t, ast.Attribute) and isinstance(t.value, ast.Name) and (t.value.id == "cls" or t.value.id in _class_names(tree)) and (t.attr in class_state or True):
                    if t.value.id == "cls" or t.attr in class_state:
                        slot = ast.unparse(t)
                if slot is not None:
                    vdeps = _expr_deps(n.value, deps, False)
                    if not vdeps:
                        continue
                    # parameters compared (by value) against the stored state in this function guard the reuse
                    guard_exact, by_identity = set(), set()
                    for c in own_nodes:
                        if isinstance(c, ast.Compare) and any(slot.split(".")[-1] in ast.unparse(x) for x in [c.left] + c.comparators):
                            for op, side in zip(c.ops, c.comparators):
                                names = _expr_deps(c.left, deps, True) | _expr_deps(side, deps, True)
                                if isinstance(op, (ast.Is, ast.IsNot)):
                                    by_identity |= names
                                else:
                                    guard_exact |= names
                    missing = sorted(vdeps - guard_exact)
                    if missing:
                        how = "single-slot state reused when " + ("the argument is the same object (`is`), although its contents may have changed" if by_identity & set(missing) else "a guard that does not cover these parameters holds")
                        findings.append(MemoFinding(qual, n.lineno, slot, missing, how))
        # --- a module-level buffer handed out to callers: `return _WORK` (every caller - every object that stores the
        # result - then shares one array; the next call overwrites what the previous caller kept)
        for n in own_nodes:
            if isinstance(n, ast.Return) and isinstance(n.value, ast.Name) and n.value.id in state and (n.value.id in globals_declared or not any(isinstance(a, ast.Assign) and any(isinstance(t, ast.Name) and t.id == n.value.id for t in a.targets) for a in own_nodes)):
                findings.append(MemoFinding(qual, n.lineno, n.value.id, ["<identity of the returned mutable object>"], "module-level mutable state is returned to the caller (all callers share one object)"))
        for sub in own_nodes:
            if isinstance(sub, (ast.FunctionDef, ast.AsyncFunctionDef)) and sub is not fnode:
                scan(sub, params, qual + "." + sub.name)

    for node in tree.body:
        if isinstance(node, (ast.FunctionDef, ast.AsyncFunctionDef)):
            scan(node, set(), node.name)
        elif isinstance(node, ast.ClassDef):
            _scan_class(node, node.name, scan)
    # memoising decorators: the cached *object* is handed to every later caller with equal arguments; if it is a
    # mutable container built in the call, one caller's in-place edit is served to the next
    # (the call form `g = functools.lru_cache(maxsize=...)(f)` / `g = functools.cache(f)` memoises f just the same)
    wrapped_by_call = {}
    for n in ast.walk(tree):
        if isinstance(n, ast.Call) and len(n.args) == 1 and isinstance(n.args[0], ast.Name):
            head = n.func.func if isinstance(n.func, ast.Call) else n.func
            nm = ast.unparse(head)
            if nm.split(".")[-1] in ("lru_cache", "cache", "cached", "memoize"):
                wrapped_by_call[n.args[0].id] = nm
    for fn in [n for n in ast.walk(tree) if isinstance(n, (ast.FunctionDef, ast.AsyncFunctionDef))]:
        decs = [ast.unparse(d.func if isinstance(d, ast.Call) else d) for d in fn.decorator_list]
        if fn.name in wrapped_by_call:
            decs.append(wrapped_by_call[fn.name])
        memo = [d for d in decs if d.split(".")[-1] in ("lru_cache", "cache", "cached", "memoize", "cached_property")]
        if not memo:
            continue
        mutable_ctor = ("DataFrame", "concat", "array", "asarray", "zeros", "ones", "empty", "full", "linspace", "arange", "dict", "list", "set", "Series", "to_records", "copy")
        local_mut = set()
        for n in ast.walk(fn):
            if isinstance(n, ast.Assign) and len(n.targets) == 1 and isinstance(n.targets[0], ast.Name):
                v = n.value
                if isinstance(v, (ast.Dict, ast.List, ast.Set, ast.ListComp, ast.DictComp)) or (isinstance(v, ast.Call) and ast.unparse(v.func).split(".")[-1] in mutable_ctor):
                    local_mut.add(n.targets[0].id)
        for r in [n for n in ast.walk(fn) if isinstance(n, ast.Return) and n.value is not None]:
            v = r.value
            mut = isinstance(v, (ast.Dict, ast.List, ast.Set, ast.ListComp, ast.DictComp)) or (isinstance(v, ast.Call) and ast.unparse(v.func).split(".")[-1] in mutable_ctor) or (isinstance(v, ast.Name) and v.id in local_mut)
            if mut:
                findings.append(MemoFinding(fn.name, fn.lineno, "@" + memo[0], ["<identity of the returned mutable object>"], "memoising decorator on a function that returns a mutable container built in the call (callers share one object)"))
                break
    return findings, len(state) + len(class_state), nfuncs


MUTATORS = {"update", "pop", "popitem", "discard", "add", "remove", "clear", "append", "extend", "insert", "setdefault", "sort", "reverse", "difference_update", "intersection_update", "symmetric_difference_update"}


def analyse_shared_state(tree):
    """Findings about state that every caller / every instance shares without having asked for it:
    (A) a mutable object (dict / list / set literal or constructor call) as a plain class attribute - one object for all
        instances (dataclasses reject this for fields; an un-annotated attribute, or a non-dataclass class, slips through);
    (B) a module-level table that a function modifies in place - directly or through a local alias - under a key that
        does not derive from the function's parameters (a parameter-derived key is a memo and is judged by rule M proper):
        the first call changes what every later call sees."""
    out = []
    ctor_names = {"dict", "list", "set", "defaultdict", "OrderedDict", "collections.defaultdict", "collections.OrderedDict", "deque", "collections.deque"}

    def mutable_literal(v):
        if isinstance(v, (ast.Dict, ast.List, ast.Set, ast.ListComp, ast.DictComp, ast.SetComp)):
            return True
        return isinstance(v, ast.Call) and ast.unparse(v.func) in ctor_names

    # (A)
    for node in ast.walk(tree):
        if not isinstance(node, ast.ClassDef):
            continue
        bases = {ast.unparse(b).split(".")[-1] for b in node.bases}
        if bases & {"Enum", "IntEnum", "StrEnum", "Flag"}:
            continue
        for st in node.body:
            tgt = val = None
            if isinstance(st, ast.Assign) and len(st.targets) == 1 and isinstance(st.targets[0], ast.Name):
                tgt, val = st.targets[0].id, st.value
            elif isinstance(st, ast.AnnAssign) and isinstance(st.target, ast.Name) and st.value is not None:
                tgt, val = st.target.id, st.value
            if tgt and not tgt.startswith("__") and mutable_literal(val):
                out.append(MemoFinding(f"{node.name}", st.lineno, f"{node.name}.{tgt}", ["<every instance>"], "mutable class attribute: one object shared by all instances (and by everything that reads it through self)"))
    # (B)
    tables = {}
    for node in tree.body:
        tgt = val = None
        if isinstance(node, ast.Assign) and len(node.targets) == 1 and isinstance(node.targets[0], ast.Name):
            tgt, val = node.targets[0].id, node.value
        elif isinstance(node, ast.AnnAssign) and isinstance(node.target, ast.Name) and node.value is not None:
            tgt, val = node.target.id, node.value
        if tgt and mutable_literal(val):
            tables[tgt] = node.lineno
    if tables:
        for fn in [n for n in ast.walk(tree) if isinstance(n, (ast.FunctionDef, ast.AsyncFunctionDef))]:
            params = {a.arg for a in fn.args.posonlyargs + fn.args.args + fn.args.kwonlyargs}
            local_assigned = set()
            alias = {}
            for n in ast.walk(fn):
                if isinstance(n, ast.Assign) and len(n.targets) == 1 and isinstance(n.targets[0], ast.Name):
                    if isinstance(n.value, ast.Name) and (n.value.id in tables or n.value.id in alias) and n.value.id not in params:
                        alias[n.targets[0].id] = alias.get(n.value.id, n.value.id)
                    else:
                        local_assigned.add(n.targets[0].id)
            def table_of(expr):
                if isinstance(expr, ast.Name) and expr.id not in params:
                    if expr.id in alias:
                        return alias[expr.id]
                    if expr.id in tables and expr.id not in local_assigned:
                        return expr.id
                return None
            def param_derived(expr):
                return expr is not None and any(isinstance(x, ast.Name) and (x.id in params or x.id in local_assigned) for x in ast.walk(expr))
            for n in ast.walk(fn):
                t = key = None
                if isinstance(n, (ast.Assign, ast.AugAssign)):
                    for tg in (n.targets if isinstance(n, ast.Assign) else [n.target]):
                        if isinstance(tg, ast.Subscript) and table_of(tg.value):
                            t, key = table_of(tg.value), tg.slice
                        elif isinstance(n, ast.AugAssign) and table_of(tg):
                            t, key = table_of(tg), None
                elif isinstance(n, ast.Delete):
                    for tg in n.targets:
                        if isinstance(tg, ast.Subscript) and table_of(tg.value):
                            t, key = table_of(tg.value), tg.slice
                elif isinstance(n, ast.Call) and isinstance(n.func, ast.Attribute) and n.func.attr in MUTATORS and table_of(n.func.value):
                    t = table_of(n.func.value)
                    key = n.args[0] if n.args else None
                    if n.func.attr == "update" and n.keywords and not n.args:
                        key = None  # update(name=value): constant keys
                if t is None or param_derived(key):
                    continue
                out.append(MemoFinding(fn.name, n.lineno, t, ["<every later call>"], f"module-level table modified in place ({'through the alias, ' if not (isinstance(getattr(n, 'func', None), ast.Attribute) and isinstance(n.func.value, ast.Name) and n.func.value.id == t) else ''}under a key that does not derive from the arguments): the first call changes what all later calls see"))
    # (C) a default argument that is an object built once at definition time (a literal container or any constructor call)
    #     and that the function modifies: every call that relies on the default works on what earlier calls left in it
    for fn in ast.walk(tree):
        if not isinstance(fn, (ast.FunctionDef, ast.AsyncFunctionDef)):
            continue
        a = fn.args
        pos = a.posonlyargs + a.args
        pairs = list(zip(pos[len(pos) - len(a.defaults):], a.defaults)) + [(p_, d_) for p_, d_ in zip(a.kwonlyargs, a.kw_defaults) if d_ is not None]
        for p_, d_ in pairs:
            shared = mutable_literal(d_) or (isinstance(d_, ast.Call) and not (isinstance(d_.func, ast.Name) and d_.func.id in ("tuple", "frozenset", "float", "int", "str", "bool", "object", "field")) and ast.unparse(d_.func).split(".")[-1] not in ("field", "MappingProxyType"))
            if not shared:
                continue
            name = p_.arg
            rebound_first = False
            for n in ast.walk(fn):
                hit = None
                if isinstance(n, ast.Call) and isinstance(n.func, ast.Attribute) and isinstance(n.func.value, ast.Name) and n.func.value.id == name and (n.func.attr in MUTATORS or n.func.attr in ("fill", "resize", "put", "itemset", "add_many")):
                    hit = f"{name}.{n.func.attr}(...)"
                elif isinstance(n, (ast.Assign, ast.AugAssign)):
                    for tg in (n.targets if isinstance(n, ast.Assign) else [n.target]):
                        if isinstance(tg, (ast.Subscript, ast.Attribute)) and _root(tg) == name:
                            hit = ast.unparse(tg) + " = ..."
                        elif isinstance(n, ast.AugAssign) and isinstance(tg, ast.Name) and tg.id == name:
                            hit = f"{name} op= ..."
                if hit:
                    out.append(MemoFinding(fn.name, n.lineno, f"default of {name}", ["<every later call>"], f"the default value of `{name}` is one object created when the function is defined; {hit} modifies it, so later calls that rely on the default start from what earlier calls left there"))
                    break
    return out


def _scan_class(cnode, prefix, scan):
    for st in cnode.body:
        if isinstance(st, (ast.FunctionDef, ast.AsyncFunctionDef)):
            scan(st, set(), prefix + "." + st.name)
        elif isinstance(st, ast.ClassDef):
            _scan_class(st, prefix + "." + st.name, scan)


def _own_nodes(fnode):
    """nodes of the function body, not descending into nested defs (they are yielded but not entered)"""
    stack = list(fnode.body)
    while stack:
        n = stack.pop()
        yield n
        if isinstance(n, (ast.FunctionDef, ast.AsyncFunctionDef, ast.ClassDef, ast.Lambda)):
            continue
        stack.extend(ast.iter_child_nodes(n))


def _root(node):
    while isinstance(node, (ast.Subscript, ast.Attribute)):
        node = node.value
    return node.id if isinstance(node, ast.Name) else None


def _class_names(tree):
    return {n.name for n in ast.walk(tree) if isinstance(n, ast.ClassDef)}


def _is_class_state(node, class_state):
    return isinstance(node, ast.Attribute) and node.attr in class_state and isinstance(node.value, ast.Name)


SELFTEST_SHARED = '''
_OPTS = {"kind": "linear"}
_COLS = {"a", "b"}
_TABLE = {"x": (1, 2)}
class A:
    shared = {}
    names = ("a", "b")
def f(density):
    opts = _OPTS
    if density:
        opts["fill_value"] = "extrapolate"
    return dict(fill_value=0, **_OPTS)
def g(t):
    need = _COLS
    need.discard("b")
def h(k):
    return _TABLE[k]
def d1(x, acc=[]):
    acc.append(x)
    return acc
def d2(x, opts=dict()):
    return opts.get(x)
def d3(x, p=Params()):
    p.add("tau", value=x)
'''


def analyse_lazy_fields(tree):
    """Lazily filled instance slot of a configurable object: a class-level field X whose default is None, filled in an
    ordinary method under `if self.X is None:` with a value computed from other declared (assignable) fields of the
    object, and never reset anywhere in the class.  The object's fields are public and assignable (the class defines
    no __setattr__ and is not frozen), so after `obj.field = new` the method keeps answering for the old field: the
    result is no longer a function of the object's current configuration."""
    out = []
    for c in [n for n in ast.walk(tree) if isinstance(n, ast.ClassDef)]:
        frozen = any(isinstance(d, ast.Call) and any(k.arg == "frozen" and isinstance(k.value, ast.Constant) and k.value.value for k in d.keywords) for d in c.decorator_list)
        methods = [n for n in c.body if isinstance(n, (ast.FunctionDef, ast.AsyncFunctionDef))]
        if frozen or any(m.name in ("__setattr__", "__getattribute__") for m in methods):
            continue
        fields, none_fields = set(), set()
        for st in c.body:
            if isinstance(st, ast.AnnAssign) and isinstance(st.target, ast.Name):
                fields.add(st.target.id)
                v = st.value
                is_none = isinstance(v, ast.Constant) and v.value is None
                if isinstance(v, ast.Call) and ast.unparse(v.func).split(".")[-1] == "field":
                    is_none = any(k.arg == "default" and isinstance(k.value, ast.Constant) and k.value.value is None for k in v.keywords)
                if is_none:
                    none_fields.add(st.target.id)
        if not none_fields:
            continue

        def self_attr(n, names):
            return isinstance(n, ast.Attribute) and isinstance(n.value, ast.Name) and n.value.id == "self" and n.attr in names

        for m in methods:
            if m.name in ("__init__", "__post_init__", "__new__", "__setstate__"):
                continue
            for i in [n for n in ast.walk(m) if isinstance(n, ast.If)]:
                t = i.test
                if not (isinstance(t, ast.Compare) and len(t.ops) == 1 and isinstance(t.ops[0], ast.Is) and self_attr(t.left, none_fields) and isinstance(t.comparators[0], ast.Constant) and t.comparators[0].value is None):
                    continue
                x = t.left.attr
                for a in [n for st in i.body for n in ast.walk(st) if isinstance(n, ast.Assign)]:
                    if not any(self_attr(tg, {x}) for tg in a.targets):
                        continue
                    deps = sorted({n.attr for n in ast.walk(a.value) if self_attr(n, fields - {x})})
                    # reset anywhere else in the class (`self.X = None` outside the guard, `del self.X`): an invalidation
                    # protocol exists and is judged by the rules of the property, not here
                    resets = [
                        n for mm in methods for n in ast.walk(mm)
                        if (isinstance(n, ast.Assign) and n is not a and any(self_attr(tg, {x}) for tg in n.targets) and isinstance(n.value, ast.Constant) and n.value.value is None)
                        or (isinstance(n, ast.Delete) and any(self_attr(tg, {x}) for tg in n.targets))
                    ]
                    if deps and not resets:
                        out.append(MemoFinding(f"{c.name}.{m.name}", a.lineno, "self." + x, ["self." + d for d in deps], "instance slot filled once under `is None` and never reset, although the fields it was computed from stay assignable"))
    return out


SELFTEST_LAZY = """
class A:
    t: float
    g: float = 1.0
    _pb: float | None = None
    _ok: float | None = None
    def pb(self):
        if self._pb is None:
            self._pb = f(self.t, self.g)
        return self._pb
    def ok(self):
        if self._ok is None:
            self._ok = g(self.t)
        return self._ok
    def set_t(self, t):
        self.t = t
        self._ok = None
"""


def selftest():
    f, _n, _k = analyse_module(ast.parse(SELFTEST_SRC), "<selftest>")
    sh = analyse_shared_state(ast.parse(SELFTEST_SHARED))
    ok_shared = sorted((x.func, x.state) for x in sh) == [("A", "A.shared"), ("d1", "default of acc"), ("d3", "default of p"), ("f", "_OPTS"), ("g", "_COLS")]
    lz = analyse_lazy_fields(ast.parse(SELFTEST_LAZY))
    ok_lazy = [(x.func, x.state) for x in lz] == [("A.pb", "self._pb")]
    return len(f) == 1 and f[0].func == "f" and set(f[0].missing) == {"b", "c"} and ok_shared and ok_lazy


def check_modules(ctx, rule, module_names):
    """Run rule M on the given modules of the analysed tree (expected count of findings: zero)."""
    from .model import AnalysisError

    if not selftest():
        raise AnalysisError("memo-completeness rule failed its built-in positive/negative example")
    total_funcs = 0
    for mn in module_names:
        m = ctx.P.module(mn)
        findings, nstate, nfuncs = analyse_module(m.tree, m.relpath)
        findings = list(findings) + analyse_shared_state(m.tree) + analyse_lazy_fields(m.tree)
        total_funcs += nfuncs
        if not findings:
            ctx.ok(
                rule, f"{mn}:no incompletely keyed memo", m.relpath,
                "no function keeps results in persistent state under a key that omits a parameter the result depends on (results are functions of the arguments)",
                nontrivial=True, functions_scanned=nfuncs, persistent_containers=nstate,
            )
        for fd in findings:
            ctx.bad(
                rule, f"{mn}.{fd.func}:memo {fd.state}", f"{m.relpath}:{fd.line}",
                "a value kept in persistent state is only reused for arguments that determine it",
                signature="missing " + ",".join(fd.missing),
                state=fd.state, depends_on_but_not_keyed_by=fd.missing, how=fd.how,
            )
    return total_funcs
