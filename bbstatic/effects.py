"""E4 - parameter-mutation (alias / copy-level) analysis on function bodies (pure ast)."""
from __future__ import annotations

import ast

MUTATORS = {"update", "pop", "popitem", "sort", "fill", "__setitem__", "insert", "setdefault", "clear", "append", "extend", "remove", "resize", "put", "itemset", "partition", "byteswap", "setflags"}
SHALLOW_CALLS = {"copy.copy", "dict", "pd.DataFrame", "pandas.DataFrame", "list"}
DEEP_CALLS = {"copy.deepcopy", "np.array", "numpy.array", "np.copy", "numpy.copy"}


class Finding:
    def __init__(self, kind, node, name, detail):
        self.kind, self.node, self.name, self.detail = kind, node, name, detail


RETURN_LEVELS = {}  # helper name -> {positional index: 'alias' | 'shallow'} (set per module by return_levels)


def return_levels(tree):
    """{name: {arg index: level}} for the module's own helpers: what a helper hands back with respect to each of its
    positional parameters - the parameter itself ('alias'), a shallow copy of it ('shallow'), or neither.  Every
    definition of the name counts (the arms of a version gate, `name = copy.copy`); the weakest copy level wins."""
    out = {}
    order = {"alias": 2, "shallow": 1}

    def note(name, idx, lv):
        cur = out.setdefault(name, {}).get(idx)
        if cur is None or order[lv] > order[cur]:
            out[name][idx] = lv

    for n in ast.walk(tree):
        if isinstance(n, (ast.FunctionDef, ast.AsyncFunctionDef)):
            params = [a.arg for a in n.args.posonlyargs + n.args.args]
            for idx, par in enumerate(params):
                st = {par: ("alias", par)}

                def seq(stmts):
                    # statements in source order: a re-binding (also of the parameter itself) holds from there on
                    for r in stmts:
                        if isinstance(r, ast.Assign) and len(r.targets) == 1 and isinstance(r.targets[0], ast.Name):
                            lv = _level_of(r.value, st)
                            if lv:
                                st[r.targets[0].id] = lv
                            else:
                                st.pop(r.targets[0].id, None)
                        elif isinstance(r, ast.Return) and r.value is not None:
                            lv = _level_of(r.value, st)
                            if lv:
                                note(n.name, idx, lv[0])
                        for blk in ("body", "orelse", "finalbody"):
                            if hasattr(r, blk) and not isinstance(r, (ast.FunctionDef, ast.AsyncFunctionDef, ast.ClassDef)):
                                seq(getattr(r, blk))
                        for h in getattr(r, "handlers", []):
                            seq(h.body)

                seq(n.body)
        elif isinstance(n, ast.Assign) and len(n.targets) == 1 and isinstance(n.targets[0], ast.Name) and isinstance(n.value, (ast.Name, ast.Attribute)):
            fn = ast.unparse(n.value)
            if fn in SHALLOW_CALLS:
                note(n.targets[0].id, 0, "shallow")
    return out


def _level_of(expr, state):
    """copy level of an expression wrt tracked tables: ('alias'|'shallow', param) or None (fresh/unrelated)."""
    if isinstance(expr, ast.Name):
        return state.get(expr.id)
    if isinstance(expr, ast.Call) and isinstance(expr.func, ast.Name) and expr.func.id in RETURN_LEVELS:
        best = None
        for idx, lv in RETURN_LEVELS[expr.func.id].items():
            if idx < len(expr.args):
                inner = _level_of(expr.args[idx], state)
                if inner:
                    cand = (inner[0] if lv == "alias" else "shallow", inner[1])
                    if best is None or cand[0] == "alias":
                        best = cand
        if best is not None:
            return best
    if isinstance(expr, ast.IfExp):
        a, b = _level_of(expr.body, state), _level_of(expr.orelse, state)
        for lv in ("alias", "shallow"):
            for x in (a, b):
                if x and x[0] == lv:
                    return x
        return None
    if isinstance(expr, ast.Call):
        fn = ast.unparse(expr.func)
        if fn in DEEP_CALLS:
            return None
        if fn in SHALLOW_CALLS and expr.args:
            inner = _level_of(expr.args[0], state)
            return ("shallow", inner[1]) if inner else None
        if isinstance(expr.func, ast.Attribute) and expr.func.attr == "copy":
            inner = _level_of(expr.func.value, state)
            return ("shallow", inner[1]) if inner else None
        if isinstance(expr.func, ast.Attribute) and expr.func.attr in ("astype", "to_numpy", "to_records"):
            return None
        if fn in ("np.asarray", "numpy.asarray", "np.asanyarray") and expr.args:
            has_dtype = any(k.arg == "dtype" for k in expr.keywords) or len(expr.args) > 1
            inner = _level_of(expr.args[0], state)
            return None if has_dtype and False else inner  # asarray may return the same object
    return None


def _base_chain(node):
    """for a[...][...].x return (root Name id, depth) where depth counts subscripts/attributes"""
    depth = 0
    while isinstance(node, (ast.Subscript, ast.Attribute)):
        node = node.value
        depth += 1
    return (node.id, depth) if isinstance(node, ast.Name) else (None, depth)


def analyse(fnode, table_params, summaries=None):
    """Findings for stores through a live alias of a table parameter (or into a column reached
    through a shallow copy).  summaries: {callee name -> set(indices of mutated positional params)}"""
    state = {p: ("alias", p) for p in table_params}
    findings = []

    def store_target(t, node, aug=False):
        root, depth = _base_chain(t)
        if root is None or root not in state or depth == 0:
            return
        lv, par = state[root]
        if lv == "alias":
            findings.append(Finding("store through the caller's table", node, par, ast.unparse(t)))
        elif lv == "shallow" and (depth >= 2 or aug):
            findings.append(Finding("in-place change of a column shared with the caller's table (shallow copy)", node, par, ast.unparse(t)))

    def visit(stmts, top):
        for s in stmts:
            for n in ast.walk(s) if not isinstance(s, (ast.If, ast.For, ast.While, ast.Try, ast.With, ast.FunctionDef)) else [s]:
                pass
            if isinstance(s, ast.Assign):
                for t in s.targets:
                    if isinstance(t, ast.Name):
                        lv = _level_of(s.value, state)
                        if lv:
                            state[t.id] = lv
                        elif top or t.id not in table_params:
                            state.pop(t.id, None)
                    else:
                        store_target(t, s)
                _calls(s.value, s)
            elif isinstance(s, ast.AugAssign):
                if isinstance(s.target, ast.Name):
                    if s.target.id in state:
                        lv, par = state[s.target.id]
                        findings.append(Finding("augmented assignment on the table object", s, par, ast.unparse(s.target)))
                else:
                    store_target(s.target, s, aug=True)
                _calls(s.value, s)
            elif isinstance(s, ast.AnnAssign):
                if s.value is not None and isinstance(s.target, ast.Name):
                    lv = _level_of(s.value, state)
                    if lv:
                        state[s.target.id] = lv
                elif s.value is not None:
                    store_target(s.target, s)
            elif isinstance(s, ast.Delete):
                for t in s.targets:
                    if not isinstance(t, ast.Name):
                        store_target(t, s)
            elif isinstance(s, ast.Expr):
                _calls(s.value, s)
            elif isinstance(s, ast.Return):
                if s.value is not None:
                    _calls(s.value, s)
            elif isinstance(s, (ast.If, ast.While)):
                _calls(s.test, s)
                visit(s.body, False)
                visit(s.orelse, False)
            elif isinstance(s, ast.For):
                _calls(s.iter, s)
                visit(s.body, False)
                visit(s.orelse, False)
            elif isinstance(s, ast.With):
                for it in s.items:
                    _calls(it.context_expr, s)
                visit(s.body, top)
            elif isinstance(s, ast.Try):
                visit(s.body, False)
                for h in s.handlers:
                    visit(h.body, False)
                visit(s.orelse, False)
                visit(s.finalbody, False)

    def _calls(expr, stmt):
        for n in ast.walk(expr):
            if not isinstance(n, ast.Call):
                continue
            if isinstance(n.func, ast.Attribute):
                root, depth = _base_chain(n.func.value)
                inplace = any(k.arg == "inplace" and isinstance(k.value, ast.Constant) and k.value.value is True for k in n.keywords)
                if root in state and (n.func.attr in MUTATORS or inplace):
                    lv, par = state[root]
                    if lv == "alias" or depth >= 1:
                        findings.append(Finding("mutating method on the caller's table", stmt, par, ast.unparse(n)[:80]))
            if summaries:
                name = ast.unparse(n.func)
                mut = summaries.get(name.split(".")[-1])
                if mut:
                    for i, a in enumerate(n.args):
                        if i in mut and isinstance(a, ast.Name) and a.id in state and state[a.id][0] == "alias":
                            findings.append(Finding("caller's table passed to a function that modifies its argument", stmt, state[a.id][1], ast.unparse(n)[:80]))

    visit(fnode.body, True)
    return findings
