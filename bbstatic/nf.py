"""E2 - exact normal form over Q for the arithmetic fragment used by bluebonnet.

Poly  = dict{Mono -> Fraction}
Mono  = tuple(sorted((atom, expo_key)))   expo_key = key(Poly)  (exponents may be symbolic)
atom  = ('sym', name) | ('sum', poly_key) | ('const', Fraction prime) | ('E',)
        | ('fn', name, (poly_key, ...))
key(p) = tuple(sorted(p.items()))

All bases are assumed positive (the correlations' domain; recorded as an assumption in every
evidence file that uses this module), so (xy)^a = x^a y^a and (x^a)^b = x^(ab).
Equality of two normal forms is decided by `is_zero(sub(a, b))`: exact, never to a tolerance.
"""
from __future__ import annotations

from decimal import Decimal
from fractions import Fraction as F


class NFError(Exception):
    """The expression left the fragment the normal form can represent."""


_RK: dict = {}


def rk(x):
    """memoised repr, used only as a deterministic sort key"""
    r = _RK.get(x)
    if r is None:
        r = _RK[x] = repr(x)
    return r


def key(p):
    # coefficients are stored as (numerator, denominator) int pairs: hashing Fractions is slow
    return tuple(sorted(((m, (c.numerator, c.denominator)) for m, c in p.items()), key=rk))


_mkfrac = getattr(F, "_from_coprime_ints", None) or (lambda n, d: F(n, d))


def unkey(k):
    return {m: _mkfrac(n, d) for m, (n, d) in k}


def const(c):
    c = F(c)
    return {(): c} if c else {}


def const_text(txt: str):
    """Exact value of a numeric literal from its source text."""
    return const(F(Decimal(txt.replace("_", ""))))


ONE = const(1)
ZERO: dict = {}
KONE = key(ONE)


def sym(name):
    return {((("sym", name), KONE),): F(1)}


def atom_poly(atom, expo=None):
    return {((atom, key(expo if expo is not None else ONE)),): F(1)}


def is_const(p):
    return all(m == () for m in p)


def cval(p):
    return p.get((), F(0))


def as_int(p):
    """Python int if p is an integer constant, else None."""
    if is_const(p) and cval(p).denominator == 1:
        return int(cval(p))
    return None


def add(a, b, sign=1):
    r = dict(a)
    for m, c in b.items():
        v = r.get(m, 0) + sign * c
        if v:
            r[m] = v
        else:
            r.pop(m, None)
    return r


def sub(a, b):
    return add(a, b, -1)


def neg(a):
    return {m: -c for m, c in a.items()}


def scale(a, c):
    c = F(c)
    return {m: v * c for m, v in a.items()} if c else {}


def mono_mul(m1, m2):
    d = {}
    for atom, e in m1 + m2:
        d[atom] = add(d.get(atom, {}), unkey(e))
    out = []
    for atom, e in d.items():
        if e:
            out.append((atom, key(e)))
    return tuple(sorted(out, key=rk))


WORK = {"left": None}  # monomial products still allowed in the current budgeted section (None: unlimited)


def budget(n):
    """limit the number of monomial products until the next call (None lifts the limit); exceeding it raises NFError -
    a term that explodes cannot be decided, which is an analysis error, never a hang"""
    WORK["left"] = n


def mul_raw(a, b):
    if WORK["left"] is not None:
        WORK["left"] -= len(a) * len(b)
        if WORK["left"] < 0:
            WORK["left"] = None
            raise NFError("normal form too large to decide (work budget exceeded)")
    r = {}
    for m1, c1 in a.items():
        for m2, c2 in b.items():
            m = mono_mul(m1, m2)
            v = r.get(m, 0) + c1 * c2
            if v:
                r[m] = v
            else:
                r.pop(m, None)
    return r


def ipow(p, n):
    r = ONE
    for _ in range(n):
        r = mul_raw(r, p)
    return r


def expand(p):
    """Re-expand sum atoms / constant atoms whose exponent became an integer."""
    changed = True
    while changed:
        changed = False
        r = {}
        for m, c in p.items():
            repl = None
            for i, (atom, e) in enumerate(m):
                e = unkey(e)
                if atom[0] == "const" and is_const(e) and cval(e).denominator != 1:
                    q = cval(e)
                    fl = q.numerator // q.denominator
                    if fl != 0:
                        # c^q = c^floor(q) * c^(q-floor(q)): keep the exponent in (0,1)
                        repl = (i, mul_raw(const(F(atom[1]) ** fl), atom_poly(atom, const(q - fl))))
                        break
                if is_const(e) and cval(e).denominator == 1:
                    n = int(cval(e))
                    if atom[0] == "const":
                        repl = (i, const(F(atom[1]) ** n))
                        break
                    if atom[0] == "sum" and 0 < n <= 16:
                        repl = (i, ipow(unkey(atom[1]), n))
                        break
            if repl is None:
                v = r.get(m, 0) + c
                if v:
                    r[m] = v
                else:
                    r.pop(m, None)
            else:
                i, q = repl
                rest = {m[:i] + m[i + 1 :]: c}
                for mm, cc in mul_raw(rest, q).items():
                    v = r.get(mm, 0) + cc
                    if v:
                        r[mm] = v
                    else:
                        r.pop(mm, None)
                changed = True
        p = r
    return p


def _as_sum_atom(b, other):
    """If b == k * S for a sum atom S occurring in `other` with a negative exponent, return
    k * atom(S) so that the product cancels at monomial level (S * S^-1 = 1)."""
    if len(b) < 2:
        return b
    wanted = None
    for m in other:
        for atom, e in m:
            if atom[0] == "sum" and len(atom[1]) == len(b):
                if wanted is None:
                    c = lead(b)
                    wanted = (key(scale(b, 1 / c)), c)
                if atom[1] == wanted[0]:
                    return {((atom, KONE),): wanted[1]}
    return b


def mul(a, b):
    if len(a) > 1 or len(b) > 1:
        a2 = _as_sum_atom(a, b)
        b = _as_sum_atom(b, a)
        a = a2
    return expand(mul_raw(a, b))


def factorint(c):
    """prime factorisation of a positive rational -> {prime: signed multiplicity}"""
    out = {}
    for n, sgn in ((c.numerator, 1), (c.denominator, -1)):
        d = 2
        while d * d <= n:
            while n % d == 0:
                out[d] = out.get(d, 0) + sgn
                n //= d
            d += 1
        if n > 1:
            out[n] = out.get(n, 0) + sgn
    return out


def lead(p):
    m = sorted(p, key=rk)[0]
    return p[m]


def power(p, e):
    """p ** e with e a Poly."""
    if not p:
        if is_const(e) and cval(e) > 0:
            return {}
        raise NFError("0 ** non-positive")
    if not e:
        return ONE
    n = as_int(e)
    if n is not None and 0 < n <= 16:
        return expand(ipow(p, n))
    if len(p) == 1:
        ((m, c),) = p.items()
        out = ONE
        if c != 1:
            if n is not None:
                out = const(c**n)
            elif c > 0:
                for prime, k in factorint(c).items():
                    out = mul_raw(out, atom_poly(("const", int(prime)), scale(e, k)))
            else:
                # -1 * S^(odd integer) * ...  ==  (-S)^(odd integer) * ...: move the sign into a sum atom (no claim
                # about the sign of the sum is made; the atom of -S is distinct from the atom of S)
                flip = next((i for i, (atom, x) in enumerate(m) if atom[0] == "sum" and (as_int(unkey(x)) or 0) % 2 == 1), None)
                if flip is None:
                    raise NFError("negative base under a non-integer exponent")
                atom, x = m[flip]
                m2 = m[:flip] + m[flip + 1 :] + ((("sum", key(neg(unkey(atom[1])))), x),)
                return power({tuple(sorted(m2, key=rk)): -c}, e)
        mm = tuple(sorted(((atom, key(mul(unkey(x), e))) for atom, x in m), key=rk))
        mm = tuple((a, x) for a, x in mm if x)
        return expand(mul_raw(out, {mm: F(1)}))
    # factor out the monomial content common to every term
    monos = list(p)
    common = []
    for atom, ex in monos[0]:
        exs = [dict(m).get(atom) for m in monos]
        if all(x is not None for x in exs):
            if all(x == ex for x in exs):
                common.append((atom, ex))
            elif all(is_const(unkey(x)) for x in exs):
                common.append((atom, key(const(min(cval(unkey(x)) for x in exs)))))
    if common:
        gm = tuple(sorted(common, key=rk))
        g = {gm: F(1)}
        # divide at monomial level (no re-expansion of sum atoms, so S^-1 * S really cancels)
        ginv = tuple((a, key(neg(unkey(x)))) for a, x in gm)
        rest = {}
        for m, c in p.items():
            mm = mono_mul(m, ginv)
            rest[mm] = rest.get(mm, 0) + c
        return mul(power(g, e), power(rest, e))
    c = lead(p)
    prim = scale(p, 1 / c)
    if c < 0:
        if n is not None:
            return mul(const(c**n), atom_poly(("sum", key(prim)), e))
        # non-integer power of a sum whose leading coefficient is negative: factor out |c| only and keep
        # the sign inside the atom (the sum may still be positive; no claim about its sign is made)
        prim = scale(p, 1 / (-c))
        return mul(power(const(-c), e), atom_poly(("sum", key(prim)), e))
    return mul(power(const(c), e), atom_poly(("sum", key(prim)), e))


def div(a, b):
    return mul(a, power(b, const(-1)))


def exp(p):
    return atom_poly(("E",), p) if p else ONE


def fn(name, *args):
    return atom_poly(("fn", name, tuple(key(a) for a in args)))


def sqrt(p):
    return power(p, const(F(1, 2)))


def log(p):
    """ln p, with ln(1) = 0 and ln(E^u) = u."""
    if p == ONE:
        return {}
    if len(p) == 1:
        ((m, c),) = p.items()
        if c == 1 and len(m) == 1 and m[0][0] == ("E",):
            return unkey(m[0][1])
    return fn("log", p)


# ---------------------------------------------------------------- traversal
def atoms(p, _seen=None):
    """Yield every atom occurring anywhere in p (bases, exponents, sum atoms, fn arguments)."""
    for m in p:
        for atom, e in m:
            yield atom
            yield from atoms(unkey(e))
            if atom[0] == "sum":
                yield from atoms(unkey(atom[1]))
            elif atom[0] == "fn":
                for a in atom[2]:
                    yield from atoms(unkey(a))


def symbols(p):
    return {a[1] for a in atoms(p) if a[0] == "sym"}


def fn_atoms(p, name=None):
    return [a for a in atoms(p) if a[0] == "fn" and (name is None or a[1] == name)]


def depends(p, x):
    return any(a == ("sym", x) for a in atoms(p))


def subst(p, f, _memo=None):
    """Rebuild p bottom-up, replacing every atom a for which f(a) is not None by that Poly.

    f receives the *rebuilt* atom (its own arguments already substituted).  Untouched
    monomials are copied; results per atom / exponent are memoised for the call."""
    memo = {} if _memo is None else _memo
    out = {}
    for m, c in p.items():
        keep = []
        changed = []
        for atom, e in m:
            e2 = _subst_key(e, f, memo)
            base = _subst_atom(atom, f, memo)
            if e2 is None and base is None:
                keep.append((atom, e))
            else:
                changed.append((base if base is not None else atom_poly(atom), e2 if e2 is not None else unkey(e)))
        if not changed:
            v = out.get(m, 0) + c
            if v:
                out[m] = v
            else:
                out.pop(m, None)
            continue
        term = {tuple(keep): c}
        for base, e2 in changed:
            term = mul(term, power(base, e2))
        out = add(out, term)
    return expand(out)


def _subst_key(k, f, memo):
    """substituted Poly for a poly key, or None if unchanged"""
    mk = ("k", k)
    if mk in memo:
        return memo[mk]
    p = unkey(k)
    q = subst(p, f, memo)
    r = None if q == p else q
    memo[mk] = r
    return r


def _subst_atom(atom, f, memo):
    """replacement Poly for an atom, or None if unchanged"""
    if atom in memo:
        return memo[atom]
    r = None
    if atom[0] == "sum":
        r = _subst_key(atom[1], f, memo)  # power() re-forms the sum atom
    elif atom[0] == "fn":
        new_args = [_subst_key(a, f, memo) for a in atom[2]]
        if any(a is not None for a in new_args):
            args = [a if a is not None else unkey(k) for a, k in zip(new_args, atom[2])]
            if atom[1] == "log":
                new = log(args[0])
            else:
                new = atom_poly(("fn", atom[1], tuple(key(a) for a in args)))
            if len(new) == 1:
                ((mm, cc),) = new.items()
                if cc == 1 and len(mm) == 1 and mm[0][1] == KONE:
                    rr = f(mm[0][0])
                    if rr is not None:
                        new = rr
            r = new
        else:
            r = f(atom)
    else:
        r = f(atom)
    memo[atom] = r
    return r


def subst_sym(p, mapping):
    """mapping: {symbol name -> Poly}."""
    return subst(p, lambda a: mapping.get(a[1]) if a[0] == "sym" else None)


# ---------------------------------------------------------------- derivative
def _dbase(atom, x):
    if atom == ("sym", x):
        return ONE
    if atom[0] == "sum":
        return diff(unkey(atom[1]), x)
    if atom[0] == "fn":
        if atom[1] == "log":
            (a,) = atom[2]
            return div(diff(unkey(a), x), unkey(a))
        if atom[1] == "abs" and len(atom[2]) == 1:
            (a,) = atom[2]
            return mul(fn("sign", unkey(a)), diff(unkey(a), x))  # d|u| = sign(u) du
        if atom[1] in ("maximum", "minimum", "clip") and any(depends(unkey(a), x) for a in atom[2]):
            # piecewise: the derivative exists but is not a term of this fragment - keep it as an explicit marker
            return fn("d/d" + x, atom_poly(atom))
        if any(depends(unkey(a), x) for a in atom[2]):
            raise NFError(f"cannot differentiate opaque {atom[1]} with respect to {x}")
    return {}


def _ln_of(atom):
    if atom == ("E",):
        return ONE
    return fn("log", atom_poly(atom))


def diff(p, x):
    r = {}
    for m, c in p.items():
        for i, (atom, e) in enumerate(m):
            e = unkey(e)
            term = {}
            db = _dbase(atom, x)
            if db:
                lowered = m[:i] + ((atom, key(sub(e, ONE))),) + m[i + 1 :]
                lowered = tuple((a, ee) for a, ee in lowered if ee)
                term = add(term, mul(mul({lowered: c}, e), db))
            de = diff(e, x)
            if de:
                term = add(term, mul(mul({m: c}, de), _ln_of(atom)))
            r = add(r, term)
    return expand(r)


# ---------------------------------------------------------------- zero test
def _neg_int_sum_atom(p):
    for m in p:
        for atom, e in m:
            if atom[0] == "sum":
                n = as_int(unkey(e))
                if n is not None and n < 0:
                    return atom
    return None


def clear_denominators(p, depth=10):
    """Multiply p by the sum atoms that occur with negative integer exponents (non-zero factors),
    so that a rational function becomes a polynomial; the zero set is unchanged."""
    p = expand(p)
    while depth:
        atom = _neg_int_sum_atom(p)
        if atom is None:
            return p
        depth -= 1
        n = 0
        for mm in p:
            for a, ee in mm:
                if a == atom:
                    k = as_int(unkey(ee))
                    if k is not None and k < 0:
                        n = max(n, -k)
        S = unkey(atom[1])
        q = {}
        for mm, c in p.items():
            k = 0
            rest = []
            for a, ee in mm:
                kk = as_int(unkey(ee)) if a == atom else None
                if kk is not None and kk < 0:
                    k = -kk
                else:
                    rest.append((a, ee))
            q = add(q, mul_raw({tuple(rest): c}, ipow(S, n - k)))
        p = expand(q)
    return p


def is_zero(p):
    return not clear_denominators(p)


def equal(a, b):
    return is_zero(sub(a, b))


# ---------------------------------------------------------------- presentation
class _Budget:
    __slots__ = ("left",)

    def __init__(self, n):
        self.left = n


def _show_atom(a, bud):
    if a[0] == "sym":
        return a[1]
    if a[0] == "const":
        return str(a[1])
    if a[0] == "E":
        return "e"
    if a[0] == "sum":
        return "(" + _show(unkey(a[1]), bud) + ")"
    if a[0] == "fn":
        parts = []
        for x in a[2]:
            if bud.left <= 0:
                parts.append("...")
                break
            parts.append(_show(unkey(x), bud))
        return a[1] + "(" + ", ".join(parts) + ")"
    return repr(a)


def _show_mono(m, bud):
    parts = []
    for a, e in m:
        ev = unkey(e)
        s = _show_atom(a, bud)
        if ev != ONE:
            es = _show(ev, bud)
            if not (is_const(ev) and cval(ev) >= 0 and cval(ev).denominator == 1):
                es = "(" + es + ")"
            s += "^" + es
        parts.append(s)
    return "*".join(parts)


def _show(p, bud):
    if not p:
        return "0"
    items = list(p.items())
    if len(items) <= 40:
        items.sort(key=repr)
    out = []
    for m, c in items:
        if bud.left <= 0:
            out.append("...")
            break
        body = _show_mono(m, bud)
        if not body:
            t = str(c)
        elif c == 1:
            t = body
        elif c == -1:
            t = "-" + body
        else:
            t = f"{c}*{body}"
        bud.left -= len(t) + 3
        out.append(t)
    return " + ".join(out).replace("+ -", "- ")


def show(p, limit=2000):
    s = _show(p, _Budget(limit))
    return s if len(s) <= limit else s[:limit] + " ..."


def size(p):
    """number of atoms occurrences; used to count an obligation as non-trivial."""
    return sum(1 for _ in atoms(p))
