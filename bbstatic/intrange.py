"""Abstract interpretation of arithmetic with a (numeric kind x magnitude interval) domain.

Purpose (C11): a correlation called with an *integer* pressure array must not form an integer-typed
intermediate that can leave the int32 range before a float operand promotes it - numpy wraps silently,
while the scalar (python int) call does not, so array and scalar results would differ.

kinds:  'f' float (or anything already promoted), 'i' python integer scalar (arbitrary precision, weak
under NEP 50), 'ia' integer *array* (the pressure argument, worst case int32), 'b' boolean, '?' other.
Every int-capable value carries a magnitude bound over the declared input box.
"""
from __future__ import annotations

import ast

INT32_MAX = 2**31 - 1

# declared input box (magnitudes): psia, deg F, API, scf/bbl, wt% ...
DEFAULT_BOX = {"pressure": 30000, "temperature": 1000}
OTHER_PARAM_BOUND = 5000


class Finding:
    def __init__(self, node, expr, bound):
        self.node, self.expr, self.bound = node, expr, bound


def analyse_function(fnode, array_params=("pressure",), box=None, float_callees=True):
    """Return findings: integer-array intermediates whose magnitude bound exceeds int32."""
    box = dict(DEFAULT_BOX, **(box or {}))
    env = {}
    a = fnode.args
    for p in a.posonlyargs + a.args + a.kwonlyargs:
        n = p.arg
        if n in ("self", "cls"):
            env[n] = ("?", 0)
        elif n in array_params:
            env[n] = ("ia", box.get(n, OTHER_PARAM_BOUND))
        else:
            env[n] = ("i", box.get(n, OTHER_PARAM_BOUND))
    findings = []

    def join(x, y):
        order = {"f": 0, "b": 0, "?": 0, "i": 1, "ia": 2}
        k = x[0] if order[x[0]] >= order[y[0]] else y[0]
        if "f" in (x[0], y[0]) and k != "ia":
            k = "f"
        return (k, max(x[1], y[1]))

    def ev(n):
        if isinstance(n, ast.Constant):
            if isinstance(n.value, bool):
                return ("b", 1)
            if isinstance(n.value, int):
                return ("i", abs(n.value))
            if isinstance(n.value, float):
                return ("f", abs(n.value))
            return ("?", 0)
        if isinstance(n, ast.Name):
            return env.get(n.id, ("?", 0))
        if isinstance(n, ast.UnaryOp):
            return ev(n.operand)
        if isinstance(n, ast.BinOp):
            l, r = ev(n.left), ev(n.right)
            if isinstance(n.op, ast.Div):
                return ("f", 0)
            if "f" in (l[0], r[0]) or "?" in (l[0], r[0]) or "b" in (l[0], r[0]):
                return ("f", 0)
            kind = "ia" if "ia" in (l[0], r[0]) else "i"
            if isinstance(n.op, (ast.Add, ast.Sub)):
                b = l[1] + r[1]
            elif isinstance(n.op, ast.Mult):
                b = l[1] * r[1]
            elif isinstance(n.op, ast.Pow):
                if isinstance(n.right, ast.Constant) and isinstance(n.right.value, int) and 0 <= n.right.value <= 8:
                    b = l[1] ** n.right.value
                elif isinstance(n.right, ast.UnaryOp) or r[0] != "i":
                    return ("f", 0)
                else:
                    b = float("inf")
            elif isinstance(n.op, (ast.FloorDiv, ast.Mod)):
                b = l[1]
            else:
                return ("f", 0)
            if kind == "ia" and b > INT32_MAX:
                findings.append(Finding(n, ast.unparse(n)[:90], b))
            return (kind, b)
        if isinstance(n, ast.Compare):
            for x in [n.left] + n.comparators:
                ev(x)
            return ("b", 1)
        if isinstance(n, ast.BoolOp):
            for x in n.values:
                ev(x)
            return ("b", 1)
        if isinstance(n, ast.IfExp):
            ev(n.test)
            return join(ev(n.body), ev(n.orelse))
        if isinstance(n, ast.Subscript):
            b = ev(n.value)
            ev(n.slice) if not isinstance(n.slice, ast.Slice) else None
            return b
        if isinstance(n, (ast.Tuple, ast.List)):
            out = ("i", 0) if n.elts else ("?", 0)
            ks = [ev(e) for e in n.elts]
            for k in ks:
                out = join(out, k)
            return out
        if isinstance(n, (ast.ListComp, ast.GeneratorExp)):
            saved = dict(env)
            for g in n.generators:
                it = ev(g.iter)
                for nm in [x for x in ast.walk(g.target) if isinstance(x, ast.Name)]:
                    env[nm.id] = ("ia" if it[0] == "ia" else it[0], it[1])
            r = ev(n.elt)
            env.clear()
            env.update(saved)
            return r
        if isinstance(n, ast.Call):
            fn = ast.unparse(n.func)
            args = [ev(x) for x in n.args]
            for k in n.keywords:
                ev(k.value)
            last = fn.split(".")[-1]
            if last in ("sum", "zip") and args:
                return args[0] if last == "sum" else ("?", 0)
            if last in ("asarray", "array", "copy", "abs", "absolute", "minimum", "maximum", "clip", "full_like", "empty_like", "zeros_like", "ones_like", "where"):
                has_float_dtype = any(k.arg == "dtype" and "float" in ast.unparse(k.value) for k in n.keywords)
                if has_float_dtype:
                    return ("f", 0)
                out = ("i", 0)
                for x in args:
                    out = join(out, x)
                return out if args else ("f", 0)
            if last in ("len", "size", "ndim"):
                return ("i", 10**6)
            return ("f", 0)  # library / package functions return floats
        if isinstance(n, ast.Attribute):
            return ("?", 0)
        return ("?", 0)

    def run(stmts):
        for s in stmts:
            if isinstance(s, ast.Assign):
                v = ev(s.value)
                for t in s.targets:
                    if isinstance(t, ast.Name):
                        env[t.id] = join(env[t.id], v) if False else v
                    elif isinstance(t, (ast.Tuple, ast.List)):
                        for e in t.elts:
                            if isinstance(e, ast.Name):
                                env[e.id] = v
            elif isinstance(s, ast.AugAssign):
                fake = ast.BinOp(left=ast.Name(s.target.id, ast.Load()) if isinstance(s.target, ast.Name) else s.target, op=s.op, right=s.value)
                ast.copy_location(fake, s)
                v = ev(fake)
                if isinstance(s.target, ast.Name):
                    env[s.target.id] = v
            elif isinstance(s, ast.AnnAssign) and s.value is not None and isinstance(s.target, ast.Name):
                env[s.target.id] = ev(s.value)
            elif isinstance(s, (ast.Return, ast.Expr)) and getattr(s, "value", None) is not None:
                ev(s.value)
            elif isinstance(s, ast.If):
                ev(s.test)
                before = dict(env)
                run(s.body)
                after_body = dict(env)
                env.clear()
                env.update(before)
                run(s.orelse)
                for k, v in after_body.items():
                    env[k] = join(env[k], v) if k in env else v
            elif isinstance(s, (ast.For, ast.While)):
                if isinstance(s, ast.For):
                    it = ev(s.iter)
                    for nm in [x for x in ast.walk(s.target) if isinstance(x, ast.Name)]:
                        env[nm.id] = it
                else:
                    ev(s.test)
                run(s.body)
                run(s.body)
            elif isinstance(s, ast.With):
                run(s.body)
            elif isinstance(s, ast.Try):
                run(s.body)
                for h in s.handlers:
                    run(h.body)
            elif isinstance(s, ast.FunctionDef):
                sub = analyse_function(s, array_params, box)
                findings.extend(sub)

    run(fnode.body)
    return findings


SELFTEST = """
def good(temperature, pressure):
    return -1.7e-13 * pressure**2 * temperature
def bad(temperature, pressure):
    t = (pressure * temperature, pressure**2 * temperature)
    return sum(c * x for c, x in zip((1e-9, 1e-13), t))
"""


def selftest():
    t = ast.parse(SELFTEST)
    g = analyse_function(t.body[0])
    b = analyse_function(t.body[1])
    return not g and len(b) == 1 and "pressure ** 2 * temperature" in b[0].expr
