"""Rule G (shared, typestate): a one-shot iterator is consumed at most once.

A generator expression, `map`, `filter`, `zip`, `iter(...)`, `reversed(...)`, `enumerate(...)`, `dict.items()` is *not*
re-iterable ... (dict views are; they are not in the list).  After `sum(g)`, `list(g)`, `for x in g`, `f(*g)`, `max(g)`,
`np.fromiter(g, ...)`, a comprehension over g, ... the iterator is exhausted and a second consumer silently sees an
empty sequence: `total = sum(fractions); make(*fractions)` passes nothing.  Every property that says "the result is
computed from the supplied values" is broken by such a second use, and no exception is raised.

Typestate per name bound to a one-shot iterator:  fresh --consume--> exhausted --consume--> VIOLATION.
The walk is flow-sensitive over the statement tree (branches are joined with "may be exhausted"; a loop body is
visited twice so that a consumer inside a loop over something else meets the exhausted state of the previous
iteration).  Rebinding the name ends the tracking; passing the iterator to an unknown function counts as a consumption.
"""
from __future__ import annotations

import ast

ONE_SHOT_CALLS = {"map", "filter", "zip", "iter", "reversed", "enumerate", "itertools.chain", "chain", "itertools.islice", "islice", "itertools.starmap", "itertools.accumulate", "itertools.product", "itertools.zip_longest"}
NON_CONSUMING = {"isinstance", "type", "id", "print", "repr", "callable", "hasattr", "iter"}


class Finding:
    def __init__(self, func, node, name, first, second):
        self.func, self.node, self.name, self.first, self.second = func, node, name, first, second


def _is_one_shot(expr):
    if isinstance(expr, ast.GeneratorExp):
        return True
    if isinstance(expr, ast.Call) and ast.unparse(expr.func) in ONE_SHOT_CALLS:
        return True
    return False


class _Fn:
    def __init__(self, fnode, qual):
        self.f, self.qual = fnode, qual
        self.state = {}  # name -> None (fresh) | (lineno, text) of the first consumer
        self.findings = []

    def consume(self, name_node, how, stmt):
        n = name_node.id
        if n not in self.state:
            return
        first = self.state[n]
        if first is None:
            self.state[n] = (stmt.lineno, how)
        else:
            if not any(f.node is stmt and f.name == n for f in self.findings):
                self.findings.append(Finding(self.qual, stmt, n, first, (stmt.lineno, how)))

    def expr(self, e, stmt):
        """find consumptions inside an expression (evaluation order: left to right, inner first is not needed -
        a single expression that names the iterator twice is already a double use)"""
        for n in ast.walk(e):
            if isinstance(n, ast.Call):
                fn = ast.unparse(n.func)
                if fn in NON_CONSUMING:
                    continue
                for a in n.args:
                    if isinstance(a, ast.Starred) and isinstance(a.value, ast.Name):
                        self.consume(a.value, f"{fn}(*{a.value.id})", stmt)
                    elif isinstance(a, ast.Name):
                        self.consume(a, f"{fn}({a.id})", stmt)
                for k in n.keywords:
                    if isinstance(k.value, ast.Name):
                        self.consume(k.value, f"{fn}({k.arg}={k.value.id})", stmt)
            elif isinstance(n, (ast.ListComp, ast.SetComp, ast.DictComp, ast.GeneratorExp)):
                for g in n.generators:
                    if isinstance(g.iter, ast.Name):
                        # a generator expression over g consumes g lazily - but then g is owned by the new generator:
                        # any other use is a double use all the same
                        self.consume(g.iter, f"comprehension over {g.iter.id}", stmt)
            elif isinstance(n, ast.Starred) and isinstance(n.value, ast.Name) and not isinstance(getattr(n, "ctx", None), ast.Store):
                pass  # handled with the enclosing call / display below
            elif isinstance(n, (ast.List, ast.Tuple, ast.Set)) and isinstance(getattr(n, "ctx", ast.Load()), ast.Load):
                for a in n.elts:
                    if isinstance(a, ast.Starred) and isinstance(a.value, ast.Name):
                        self.consume(a.value, f"[*{a.value.id}]", stmt)
            elif isinstance(n, ast.YieldFrom) and isinstance(n.value, ast.Name):
                self.consume(n.value, f"yield from {n.value.id}", stmt)
            elif isinstance(n, ast.Compare):
                for op, c in zip(n.ops, n.comparators):
                    if isinstance(op, (ast.In, ast.NotIn)) and isinstance(c, ast.Name):
                        self.consume(c, f"membership test in {c.id}", stmt)

    def bind(self, target, value):
        if isinstance(target, ast.Name):
            if value is not None and _is_one_shot(value):
                self.state[target.id] = None
            elif isinstance(value, ast.Name) and value.id in self.state:
                self.state[target.id] = self.state[value.id]  # alias: shares the typestate approximately
            else:
                self.state.pop(target.id, None)
        elif isinstance(target, (ast.Tuple, ast.List)):
            for t in target.elts:
                self.bind(t, None)

    def join(self, a, b):
        out = {}
        for k in set(a) | set(b):
            va, vb = a.get(k, "absent"), b.get(k, "absent")
            if va == "absent" or vb == "absent":
                v = va if vb == "absent" else vb
            else:
                v = va or vb  # exhausted on either path -> may be exhausted
            out[k] = v
        return out

    def visit(self, stmts):
        """returns True when the block always leaves the function / loop (return, raise, continue, break)"""
        for s in stmts:
            if self.stmt(s):
                return True
        return False

    def stmt(self, s):
        if isinstance(s, ast.Assign):
            self.expr(s.value, s)
            for t in s.targets:
                self.bind(t, s.value)
        elif isinstance(s, ast.AnnAssign):
            if s.value is not None:
                self.expr(s.value, s)
                self.bind(s.target, s.value)
        elif isinstance(s, ast.AugAssign):
            self.expr(s.value, s)
        elif isinstance(s, (ast.Expr, ast.Return)):
            if s.value is not None:
                self.expr(s.value, s)
            return isinstance(s, ast.Return)
        elif isinstance(s, ast.If):
            self.expr(s.test, s)
            before = dict(self.state)
            dead_a = self.visit(s.body)
            a = self.state
            self.state = dict(before)
            dead_b = self.visit(s.orelse)
            if dead_a and dead_b:
                return True
            self.state = self.state if dead_a else (a if dead_b else self.join(a, self.state))
        elif isinstance(s, (ast.For, ast.AsyncFor)):
            if isinstance(s.iter, ast.Name):
                self.consume(s.iter, f"for ... in {s.iter.id}", s)
            else:
                self.expr(s.iter, s)
            before = dict(self.state)
            for _ in range(2):
                self.bind(s.target, None)
                self.visit(s.body)
            self.visit(s.orelse)
            self.state = self.join(before, self.state)
        elif isinstance(s, ast.While):
            before = dict(self.state)
            for _ in range(2):
                self.expr(s.test, s)
                self.visit(s.body)
            self.visit(s.orelse)
            self.state = self.join(before, self.state)
        elif isinstance(s, (ast.With, ast.AsyncWith)):
            for it in s.items:
                self.expr(it.context_expr, s)
            self.visit(s.body)
        elif isinstance(s, ast.Try):
            before = dict(self.state)
            self.visit(s.body)
            st = self.state
            for h in s.handlers:
                self.state = self.join(before, dict(st))
                self.visit(h.body)
                st = self.join(st, self.state)
            self.state = st
            self.visit(s.orelse)
            self.visit(s.finalbody)
        elif isinstance(s, (ast.FunctionDef, ast.AsyncFunctionDef)):
            sub = _Fn(s, f"{self.qual}.{s.name}")
            sub.state = dict(self.state)
            sub.visit(s.body)
            self.findings.extend(sub.findings)
        elif isinstance(s, (ast.Raise, ast.Assert, ast.Delete)):
            for x in ast.iter_child_nodes(s):
                if isinstance(x, ast.expr):
                    self.expr(x, s)
            return isinstance(s, ast.Raise)
        elif isinstance(s, (ast.Continue, ast.Break)):
            return True
        return False


def analyse_tree(tree):
    out = []
    n = 0

    def walk(body, prefix):
        nonlocal n
        for node in body:
            if isinstance(node, (ast.FunctionDef, ast.AsyncFunctionDef)):
                f = _Fn(node, prefix + node.name)
                f.visit(node.body)
                out.extend(f.findings)
                n += 1
            elif isinstance(node, ast.ClassDef):
                walk(node.body, prefix + node.name + ".")

    walk(tree.body, "")
    return out, n


SELFTEST_SRC = '''
def bad(values, make):
    fractions = (values[k] for k in ("a", "b"))
    if not 0 <= sum(fractions) < 1:
        raise ValueError
    return make(*fractions)
def good(values, make):
    fractions = [values[k] for k in ("a", "b")]
    if not 0 <= sum(fractions) < 1:
        raise ValueError
    return make(*fractions)
def good2(xs):
    it = zip(xs, xs[1:])
    return [a + b for a, b in it]
def branchy(xs, flag):
    g = (x * 2 for x in xs)
    if flag:
        return sum(g)
    return max(g)
'''


def selftest():
    fs, n = analyse_tree(ast.parse(SELFTEST_SRC))
    so = set_order_findings(ast.parse(SELFTEST_SETS))
    return n == 4 and [(f.func, f.name) for f in fs] == [("bad", "fractions")] and [(x[0], x[3]) for x in so] == [("bad", "tuple unpacking")]


def check_modules(ctx, rule, module_names):
    from .model import AnalysisError

    if not selftest():
        raise AnalysisError("one-shot iterator rule failed its built-in positive/negative example")
    total = 0
    for mn in module_names:
        m = ctx.P.module(mn)
        fs, n = analyse_tree(m.tree)
        total += n
        if not fs:
            ctx.ok(rule, f"{mn}:iterators consumed once", m.relpath, "no generator / map / zip / filter object is consumed a second time after it has been exhausted", nontrivial=True, functions_scanned=n)
        for func, node, src, how in set_order_findings(m.tree):
            ctx.bad(
                rule, f"{mn}.{func}:order of set {src}", f"{m.relpath}:{node.lineno}",
                "nothing positional is derived from the iteration order of a set (it is not defined: string hashing is randomised per process)",
                signature=f"set order used for {how}", statement=ast.unparse(node)[:120],
            )
        for f in fs:
            ctx.bad(
                rule, f"{mn}.{f.func}:iterator {f.name}", f"{m.relpath}:{f.node.lineno}",
                "a one-shot iterator is consumed at most once (a second consumer silently sees an empty sequence)",
                signature=f"{f.name} consumed twice", first_use=f"line {f.first[0]}: {f.first[1]}", second_use=f"line {f.second[0]}: {f.second[1]}",
            )
    return total


# ------------------------------------------------------------------------------------------------------------------
# second clause of rule G: the iteration order of a set is not defined (string hashing is randomised per process), so
# nothing positional may be derived from it
def set_order_findings(tree):
    """[(func, node, set name, how)]: a set is iterated where the *position* of the items matters - tuple unpacking,
    star-arguments, zip / enumerate, or building a list / tuple that is then unpacked"""
    out = []
    module_sets = set()

    def is_set_expr(e, known):
        if isinstance(e, (ast.Set, ast.SetComp)):
            return True
        if isinstance(e, ast.Call) and ast.unparse(e.func) in ("set", "frozenset"):
            return True
        if isinstance(e, ast.Name) and e.id in known:
            return True
        if isinstance(e, ast.BinOp) and isinstance(e.op, (ast.BitOr, ast.BitAnd, ast.Sub, ast.BitXor)) and (is_set_expr(e.left, known) or is_set_expr(e.right, known)):
            return True
        if isinstance(e, ast.Call) and isinstance(e.func, ast.Attribute) and e.func.attr in ("intersection", "union", "difference", "symmetric_difference", "copy") and is_set_expr(e.func.value, known):
            return True
        return False

    for node in tree.body:
        if isinstance(node, ast.Assign) and len(node.targets) == 1 and isinstance(node.targets[0], ast.Name) and is_set_expr(node.value, module_sets):
            module_sets.add(node.targets[0].id)
        elif isinstance(node, ast.AnnAssign) and isinstance(node.target, ast.Name) and node.value is not None and is_set_expr(node.value, module_sets):
            module_sets.add(node.target.id)

    def iterates_set(e, known):
        """the set (name / text) whose iteration order determines the order of the elements of expression e"""
        if is_set_expr(e, known):
            return ast.unparse(e)[:40]
        if isinstance(e, (ast.ListComp, ast.GeneratorExp)) and len(e.generators) == 1 and is_set_expr(e.generators[0].iter, known):
            return ast.unparse(e.generators[0].iter)[:40]
        if isinstance(e, ast.Call) and ast.unparse(e.func) in ("list", "tuple", "iter") and e.args:
            return iterates_set(e.args[0], known)
        return None

    for fn in [n for n in ast.walk(tree) if isinstance(n, (ast.FunctionDef, ast.AsyncFunctionDef))]:
        # mappings whose key order is the CALLER's: a dict built by iterating a parameter (`{k: f(v) for k, v in
        # param.items() if ...}`, `dict(param)`); using their values()/keys()/items() positionally binds by the caller's
        # key order instead of by key
        params = {a.arg for a in fn.args.posonlyargs + fn.args.args + fn.args.kwonlyargs}
        caller_ordered = {}
        for n in ast.walk(fn):
            if isinstance(n, ast.Assign) and len(n.targets) == 1 and isinstance(n.targets[0], ast.Name):
                v = n.value
                src = None
                if isinstance(v, ast.DictComp) and len(v.generators) == 1:
                    it_ = v.generators[0].iter
                    base = it_.func.value if isinstance(it_, ast.Call) and isinstance(it_.func, ast.Attribute) and it_.func.attr in ("items", "keys") else it_
                    if isinstance(base, ast.Name) and base.id in params:
                        src = base.id
                elif isinstance(v, ast.Call) and ast.unparse(v.func) == "dict" and v.args and isinstance(v.args[0], ast.Name) and v.args[0].id in params:
                    src = v.args[0].id
                if src:
                    caller_ordered[n.targets[0].id] = src

        def mapping_positional(e):
            if isinstance(e, ast.Call) and isinstance(e.func, ast.Attribute) and e.func.attr in ("values", "items", "keys") and isinstance(e.func.value, ast.Name):
                nm = e.func.value.id
                if nm in caller_ordered:
                    return f"{nm}.{e.func.attr}() (key order of the argument {caller_ordered[nm]})"
                if nm in params:
                    return f"{nm}.{e.func.attr}() (key order of the caller's mapping)"
            return None

        for n in ast.walk(fn):
            if isinstance(n, ast.Call):
                for a in n.args:
                    if isinstance(a, ast.Starred) and mapping_positional(a.value):
                        out.append((fn.name, n, mapping_positional(a.value), f"star-arguments of {ast.unparse(n.func)}"))
            elif isinstance(n, ast.Assign) and any(isinstance(t, (ast.Tuple, ast.List)) for t in n.targets) and mapping_positional(n.value):
                out.append((fn.name, n, mapping_positional(n.value), "tuple unpacking"))
        known = set(module_sets)
        ordered = {}  # name -> set it was built from by list()/tuple()/comprehension
        for n in ast.walk(fn):
            if isinstance(n, ast.Assign) and len(n.targets) == 1 and isinstance(n.targets[0], ast.Name):
                if is_set_expr(n.value, known):
                    known.add(n.targets[0].id)
                else:
                    src = iterates_set(n.value, known)
                    if src:
                        ordered[n.targets[0].id] = src
        for n in ast.walk(fn):
            if isinstance(n, ast.Assign) and any(isinstance(t, (ast.Tuple, ast.List)) for t in n.targets):
                src = iterates_set(n.value, known) or (ordered.get(n.value.id) if isinstance(n.value, ast.Name) else None)
                if src:
                    out.append((fn.name, n, src, "tuple unpacking"))
            elif isinstance(n, ast.Call):
                fnm = ast.unparse(n.func)
                for a in n.args:
                    if isinstance(a, ast.Starred):
                        src = iterates_set(a.value, known) or (ordered.get(a.value.id) if isinstance(a.value, ast.Name) else None)
                        if src:
                            out.append((fn.name, n, src, f"star-arguments of {fnm}"))
                if fnm in ("zip", "enumerate"):
                    for a in n.args:
                        src = iterates_set(a, known)
                        if src:
                            out.append((fn.name, n, src, fnm))
            elif isinstance(n, ast.Subscript) and isinstance(n.value, ast.Name) and n.value.id in ordered and isinstance(n.slice, ast.Constant):
                out.append((fn.name, n, ordered[n.value.id], "indexing a list built from the set"))
    return out


SELFTEST_SETS = '''
NEED = {"compressibility", "pressure", "viscosity"}
def bad(t):
    c, p, mu = (t[col] for col in NEED)
    return c, p, mu
def good(t):
    if NEED.intersection(t) != NEED:
        raise ValueError(f"need {NEED}")
    for col in NEED:
        if col not in t:
            raise ValueError(col)
    return sorted(NEED)
'''
