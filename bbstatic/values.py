"""Abstract values of the term-domain abstract interpreter (E3/E5)."""
from __future__ import annotations

from dataclasses import dataclass, field
from fractions import Fraction as F

from . import nf

J = "@J"  # generic position inside a 1-D vector


class Val:
    pass


@dataclass
class Num(Val):
    """A numeric term (scalar, or an array treated elementwise) / an opaque object named by a term."""

    nf: dict

    def __repr__(self):
        return f"Num({nf.show(self.nf, 200)})"


@dataclass
class Vec(Val):
    """1-D vector with explicit positions: element j is gen[J:=j], except at overridden positions."""

    gen: dict
    length: dict
    over: dict = field(default_factory=dict)  # key(posNF) -> (posNF, valNF)

    def at(self, pos):
        k = nf.key(pos)
        if k in self.over:
            return self.over[k][1]
        return nf.subst_sym(self.gen, {J: pos})

    def norm_pos(self, idx: int):
        return nf.const(idx) if idx >= 0 else nf.add(self.length, nf.const(idx))

    def copy(self):
        return Vec(dict(self.gen), dict(self.length), dict(self.over))

    def __repr__(self):
        o = ", ".join(f"[{nf.show(p)}]={nf.show(v, 120)}" for p, v in self.over.values())
        return f"Vec(len={nf.show(self.length)}; j -> {nf.show(self.gen, 200)}{'; ' + o if o else ''})"


@dataclass
class StrV(Val):
    s: str


@dataclass
class NoneV(Val):
    pass


@dataclass
class BoolV(Val):
    kind: str  # const | cmp | and | or | not | opaque
    a: object = None
    b: object = None
    op: str = ""

    def __repr__(self):
        if self.kind == "const":
            return f"Bool({self.a})"
        if self.kind == "cmp":
            return f"Bool({nf.show(self.a, 80)} {self.op} {nf.show(self.b, 80)})"
        if self.kind == "opaque":
            return f"Bool?({self.a})"
        return f"Bool({self.kind} {self.a} {self.b})"


@dataclass
class TupV(Val):
    items: list
    is_list: bool = False
    names: tuple = ()  # field names of a typing.NamedTuple / collections.namedtuple instance
    rowview: bool = False  # the generic row of a 2-D array whose rows all have this form (np.tile(v, (n, 1)) ...)
    arr: bool = False  # an ndarray with these elements (result of a numpy function): `+` is element-wise, not concatenation


@dataclass
class SliceV(Val):
    lo: object
    hi: object
    step: object


@dataclass
class SetV(Val):
    items: list


@dataclass
class DictV(Val):
    items: dict  # python key (str/int) -> Val
    fallback: list = field(default_factory=list)  # Vals consulted for missing keys (dict.update(opaque))


@dataclass
class FuncV(Val):
    info: object  # FunctionInfo
    env: object = None  # closure Env
    self_val: object = None
    owner: object = None  # ClassInfo in which the method was found (for super())
    raw: bool = False  # the undecorated function (what a decorator receives)


@dataclass
class LambdaV(Val):
    node: object
    env: object
    module: object


@dataclass
class GenV(Val):
    """A generator object: the call of a generator function, not yet run (its body is executed by the consumer)."""

    info: object
    bound: dict
    self_val: object
    env: object
    owner: object
    consumed: bool = False


@dataclass
class PartialV(Val):
    """functools.partial(func, *args, **kwargs)"""

    func: object
    args: list
    kwargs: dict
    vectorized: bool = False  # np.vectorize(func): applied per element


@dataclass
class ClassV(Val):
    info: object


@dataclass
class ExtV(Val):
    """An external (library / builtin) callable, class or module, by qualified name."""

    qual: str


@dataclass
class ExtObj(Val):
    """Result of an external call that is kept structured (interp1d(...), diags(...), Parameters())."""

    qual: str
    args: dict  # formal name -> Val
    node: object = None
    attrs: dict = field(default_factory=dict)
    uid: int = 0


@dataclass
class Inst(Val):
    cls: object  # ClassInfo
    attrs: dict
    name: str = "self"


@dataclass
class SuperV(Val):
    cls: object
    inst: object


@dataclass
class Buf(Val):
    """Result buffer: np.empty_like / zeros / full_like ..., with constant-index and masked stores."""

    fill: object  # Val | None
    proto: object = None  # the prototype value (np.*_like)
    items: dict = field(default_factory=dict)  # int -> Val
    parts: list = field(default_factory=list)  # [(BoolV mask, Val)]
    creator: str = ""
    node: object = None
    kwargs: dict = field(default_factory=dict)


@dataclass
class Arr2(Val):
    name: str
    shape: list
    creator: str = ""
    proto: object = None
    kwargs: dict = field(default_factory=dict)
    node: object = None
    rows: dict = field(default_factory=dict)  # key(level NF) -> Vec: rows written with a constant level index
    cols: dict = field(default_factory=dict)  # column index -> value stored by arr[:, j] = v (every row gets element i of v)


@dataclass
class RangeV(Val):
    args: list


@dataclass
class EnumV(Val):
    inner: Val


@dataclass
class StarV(Val):
    """*expr in a call where expr is not a literal sequence: expanded against the callee's signature"""

    inner: Val


@dataclass
class BoundExt(Val):
    """Method of an external / opaque receiver: recv.meth"""

    recv: Val
    meth: str


def const_num(x):
    return Num(nf.const(F(x)))


def sym_num(name):
    return Num(nf.sym(name))
