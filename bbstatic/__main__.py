from .cli import main

raise SystemExit(main())
