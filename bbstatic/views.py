"""Rule V (shared): no in-place modification of data that belongs to the caller or to a simulated object.

Every property of this repository observes values *after* library calls: a caller's pressure array or
table is still what it was (C09, C11), the arguments lmfit keeps for the next objective evaluation are
still the data (C18), the stored levels of a reservoir are still the solution of the time stepping after
a plot or a recovery call (C01-C04, C10, C17, C20).  numpy makes it easy to break this silently: basic
slicing, iteration over a 2-D array, `.T`, `np.asarray`, `reshape`, `ravel`, a DataFrame column ... all hand
out *views*, and `-=`, `*=`, `x[...] = v`, `out=x`, `x.sort()`, `np.putmask(x, ...)` write through them.

The analysis is a flow-sensitive may-alias ("view taint") analysis over the syntax tree of every function:
  roots     every parameter (including `self`) and every object reached from it through attributes;
  views     names bound to a root through view-preserving forms (listed in VIEW_* below); the number of array
            dimensions is tracked where the program fixes it (attributes assigned from a 2-D allocation), so that
            a row obtained by iterating `reservoir.pseudopressure` is known to be an array, while an element of
            an array of unknown rank is taken to be a scalar (no report: `x = t[0]; x -= 1` only rebinds x);
  writes    augmented assignment on a view name, subscript stores / deletes through a view, mutating methods,
            `out=` arguments, numpy in-place functions, attribute stores or deletes on a non-self parameter,
            and passing a view to a package function whose parameter is (transitively) written.
A write through a view of a root is reported with the chain of bindings.  Rebinding (`p = (p - a) / b`),
`.copy()`, `astype`, arithmetic and calls of other functions give fresh objects and end the taint.
Augmented assignment on a bare parameter is reported only when the parameter is declared (annotation) or used
as an array; `self.attr = value` is ordinary state update and not a write in this sense.
"""
from __future__ import annotations

import ast

VIEW_ATTRS = {"T", "values", "real", "imag", "flat", "base", "mT", "array", "loc", "iloc", "at", "iat"}
VIEW_METHODS = {"reshape", "ravel", "view", "transpose", "squeeze", "swapaxes", "to_numpy", "to_records", "diagonal", "__array__", "get", "items", "values", "itertuples", "iterrows"}
FRESH_METHODS = {"copy", "astype", "flatten", "tolist", "sum", "mean", "cumsum", "round", "clip", "min", "max", "dot", "item", "deepcopy", "rolling", "apply", "map", "dropna", "reset_index", "sort_values", "fillna"}
VIEW_FUNCS = {
    "np.asarray", "numpy.asarray", "np.asanyarray", "numpy.asanyarray", "np.atleast_1d", "numpy.atleast_1d", "np.atleast_2d",
    "np.ravel", "numpy.ravel", "np.reshape", "numpy.reshape", "np.squeeze", "numpy.squeeze", "np.transpose", "numpy.transpose",
    "np.ascontiguousarray", "np.asfortranarray", "np.broadcast_to", "np.expand_dims", "np.moveaxis", "np.swapaxes", "np.diagonal",
    "np.nditer", "np.asarray_chkfinite", "np.require", "np.real", "np.imag",
}
ITER_WRAPPERS = {"enumerate", "zip", "iter", "reversed", "list", "tuple"}
MUTATING_METHODS = {"sort", "fill", "resize", "put", "itemset", "partition", "byteswap", "setflags", "setfield", "update", "pop", "popitem", "insert", "setdefault", "clear", "append", "extend", "remove", "drop_duplicates_inplace", "__setitem__", "__delitem__", "__iadd__", "__isub__", "__imul__", "__itruediv__"}
MUTATING_FUNCS = {  # function -> index of the argument written
    "np.copyto": 0, "numpy.copyto": 0, "np.put": 0, "numpy.put": 0, "np.place": 0, "numpy.place": 0, "np.putmask": 0, "numpy.putmask": 0,
    "np.fill_diagonal": 0, "numpy.fill_diagonal": 0, "np.put_along_axis": 0, "np.random.shuffle": 0, "random.shuffle": 0,
    "np.add.at": 0, "np.subtract.at": 0, "np.multiply.at": 0, "np.divide.at": 0, "setattr": 0, "delattr": 0,
}
ARRAY_ANNOT = ("NDArray", "ndarray", "ArrayLike", "DataFrame", "Series", "array", "Sequence", "list", "recarray", "dict", "Mapping")


class Taint:
    __slots__ = ("root", "path", "ndim", "chain")

    def __init__(self, root, path, ndim, chain):
        self.root, self.path, self.ndim, self.chain = root, path, ndim, chain

    def via(self, text, ndim="same", path=None):
        nd = self.ndim if ndim == "same" else ndim
        return Taint(self.root, path or self.path, nd, self.chain + [text])


class Finding:
    def __init__(self, func, node, root, path, what, chain):
        self.func, self.node, self.root, self.path, self.what, self.chain = func, node, root, path, what, chain

    @property
    def attr(self):
        parts = self.path.split(".")
        return parts[1] if len(parts) > 1 else None


def attr_ndims(trees):
    """{attribute name: ndim} for `self.X = <name or expression allocated with a literal shape tuple>` in any class."""
    out = {}
    for tree in trees:
        for fn in [n for n in ast.walk(tree) if isinstance(n, ast.FunctionDef)]:
            local = {}
            for s in ast.walk(fn):
                if isinstance(s, ast.Assign) and len(s.targets) == 1:
                    nd = _alloc_ndim(s.value, local)
                    t = s.targets[0]
                    if isinstance(t, ast.Name) and nd is not None:
                        local[t.id] = nd
            for s in ast.walk(fn):
                if isinstance(s, ast.Assign):
                    for t in s.targets:
                        if isinstance(t, ast.Attribute) and isinstance(t.value, ast.Name) and t.value.id == "self":
                            nd = _alloc_ndim(s.value, local)
                            if nd is not None:
                                out[t.attr] = max(out.get(t.attr, 0), nd)
    return out


def _alloc_ndim(expr, local):
    if isinstance(expr, ast.Name):
        return local.get(expr.id)
    if isinstance(expr, ast.Call):
        fn = ast.unparse(expr.func)
        last = fn.split(".")[-1]
        shape = None
        if last in ("empty", "zeros", "ones", "full") and expr.args:
            shape = expr.args[0]
        for k in expr.keywords:
            if k.arg == "shape":
                shape = k.value
        if isinstance(shape, ast.Tuple):
            return len(shape.elts)
        if last in ("empty", "zeros", "ones", "full", "linspace", "arange", "cumsum", "diff", "gradient") and shape is not None:
            return 1
    return None


def _param_is_array(fnode, name):
    for a in fnode.args.posonlyargs + fnode.args.args + fnode.args.kwonlyargs:
        if a.arg == name:
            if a.annotation is not None:
                txt = ast.unparse(a.annotation)
                return any(k in txt for k in ARRAY_ANNOT)
            break
    for n in ast.walk(fnode):
        if isinstance(n, ast.Subscript) and isinstance(n.value, ast.Name) and n.value.id == name:
            return True
        if isinstance(n, ast.Attribute) and isinstance(n.value, ast.Name) and n.value.id == name and n.attr in ("shape", "dtype", "ndim", "size", "T"):
            return True
        if isinstance(n, ast.Call) and ast.unparse(n.func) in ("len", "np.asarray", "np.shape", "np.size") and n.args and isinstance(n.args[0], ast.Name) and n.args[0].id == name:
            return True
    return False


class FunctionAnalysis:
    def __init__(self, fnode, qual, ndims, summaries, outer_state=None, is_method=False):
        self.f, self.qual, self.ndims, self.summaries = fnode, qual, ndims, summaries or {}
        self.findings = []
        self.mutated_params = set()
        self.state = dict(outer_state or {})
        a = fnode.args
        self.params = [x.arg for x in a.posonlyargs + a.args + a.kwonlyargs]
        # *args / **kwargs are containers created for this call: writing *them* is not a write to caller data
        self.self_name = self.params[0] if is_method and self.params and self.params[0] in ("self", "cls") else None
        for p in self.params:
            self.state[p] = Taint(p, p, None, [f"parameter {p}"])
        self.nested = []

    # ------------------------------------------------------------------ origins
    def origin(self, e):
        st = self.state
        if isinstance(e, ast.Name):
            return st.get(e.id)
        if isinstance(e, ast.Starred):
            return self.origin(e.value)
        if isinstance(e, ast.NamedExpr):
            return self.origin(e.value)
        if isinstance(e, ast.IfExp):
            return self.origin(e.body) or self.origin(e.orelse)
        if isinstance(e, ast.Attribute):
            b = self.origin(e.value)
            if b is None:
                return None
            if b.path == b.root or b.path.count(".") >= 1 and e.attr not in VIEW_ATTRS:
                # attribute of an object reached from a parameter: the stored object itself
                path = b.path + "." + e.attr
                return Taint(b.root, path, self.ndims.get(e.attr), b.chain + [f".{e.attr}"])
            if e.attr in VIEW_ATTRS:
                return b.via(f".{e.attr}")
            return None
        if isinstance(e, ast.Subscript):
            b = self.origin(e.value)
            if b is None:
                return None
            sl = e.slice
            elts = sl.elts if isinstance(sl, ast.Tuple) else [sl]
            n_int = 0
            has_slice = False
            for x in elts:
                if isinstance(x, ast.Slice) or (isinstance(x, ast.Constant) and x.value in (None, Ellipsis)):
                    has_slice = True
                elif isinstance(x, ast.Constant) and isinstance(x.value, str):
                    return b.via(f"[{x.value!r}]", ndim=1)  # column / field / mapping entry: the stored array
                elif isinstance(x, ast.Constant) and isinstance(x.value, int):
                    n_int += 1
                elif isinstance(x, ast.UnaryOp) and isinstance(x.operand, ast.Constant):
                    n_int += 1
                elif isinstance(x, ast.Name) and self._is_loop_index(x.id):
                    n_int += 1
                else:
                    # a mask or index array gives a copy; an integer-valued name is counted like an int index only
                    # when the rank is known
                    if b.ndim is None:
                        return None
                    n_int += 1
            if b.ndim is None:
                return b.via(ast.unparse(e)[len(ast.unparse(e.value)) :]) if has_slice and n_int == 0 else None
            nd = b.ndim - n_int
            if nd >= 1:
                return b.via(ast.unparse(e)[len(ast.unparse(e.value)) :], ndim=nd)
            return None
        if isinstance(e, ast.Call):
            fn = ast.unparse(e.func)
            if fn == "getattr" and len(e.args) >= 2 and isinstance(e.args[1], ast.Constant) and isinstance(e.args[1].value, str):
                # getattr(obj, "name"[, default]) is obj.name
                return self.origin(ast.Attribute(value=e.args[0], attr=e.args[1].value, ctx=ast.Load()))
            if fn in VIEW_FUNCS and e.args:
                b = self.origin(e.args[0])
                return b.via(f"{fn}(...)") if b else None
            if fn in ITER_WRAPPERS:
                return None  # handled by iteration binding
            if isinstance(e.func, ast.Attribute):
                if e.func.attr in FRESH_METHODS:
                    return None
                if e.func.attr in VIEW_METHODS:
                    b = self.origin(e.func.value)
                    return b.via(f".{e.func.attr}()") if b else None
            return None
        return None

    def _is_loop_index(self, name):
        return name in getattr(self, "_loop_ints", set())

    def iter_elements(self, it):
        """list of element taints (per tuple position, or a single one) for `for target in it`"""
        if isinstance(it, ast.Call):
            fn = ast.unparse(it.func)
            if fn == "enumerate" and it.args:
                return [None, self._elem(self.origin(it.args[0]))]
            if fn == "zip":
                return [self._elem(self.origin(a)) for a in it.args]
            if fn in ("iter", "reversed", "list", "tuple") and it.args:
                return self._elem(self.origin(it.args[0]))
        return self._elem(self.origin(it))

    @staticmethod
    def _elem(t):
        if t is None or t.ndim is None:
            return None
        if t.ndim - 1 >= 1:
            return t.via("[row]", ndim=t.ndim - 1)
        return None

    # ------------------------------------------------------------------ writes
    def report(self, node, t, what):
        if t.root == self.self_name and t.path == t.root:
            return
        if any(f.node is node and f.path == t.path and f.what == what for f in self.findings):
            return  # loop bodies are visited twice
        if t.path == t.root and self._is_returned_list(t.root):
            # in-place normaliser of a python list that hands the same list back (`guess = regularize(guess)`):
            # the write is the function's visible contract; callers passing a view of *their* caller's data are
            # still reported through the summary
            self.mutated_params.add(t.root)
            return
        self.findings.append(Finding(self.qual, node, t.root, t.path, what, t.chain))
        if t.root in self.params:
            self.mutated_params.add(t.root)

    def _is_returned_list(self, name):
        ann = next((a.annotation for a in self.f.args.posonlyargs + self.f.args.args + self.f.args.kwonlyargs if a.arg == name), None)
        if ann is None or not ast.unparse(ann).startswith(("list", "List")):
            return False
        rets = [n for n in ast.walk(self.f) if isinstance(n, ast.Return)]
        return bool(rets) and all(isinstance(r.value, ast.Name) and r.value.id == name for r in rets)

    def bind(self, target, value_taint, value_expr=None):
        if isinstance(target, ast.Name):
            if value_taint is not None:
                self.state[target.id] = value_taint.via(f"{target.id} =")
            else:
                self.state.pop(target.id, None)
        elif isinstance(target, (ast.Tuple, ast.List)):
            if isinstance(value_expr, (ast.Tuple, ast.List)) and len(value_expr.elts) == len(target.elts):
                for t, v in zip(target.elts, value_expr.elts):
                    self.bind(t, self.origin(v), v)
            else:
                el = self._elem(value_taint) if value_taint is not None else None
                for t in target.elts:
                    self.bind(t, el)
        elif isinstance(target, ast.Starred):
            self.bind(target.value, None)

    def store(self, target, node, aug):
        """a store into target (Subscript / Attribute)"""
        if isinstance(target, ast.Subscript):
            b = self.origin(target.value)
            if b is not None:
                self.report(node, b, ("in-place operator on" if aug else "item assignment into") + f" `{ast.unparse(target)[:60]}`")
        elif isinstance(target, ast.Attribute):
            b = self.origin(target.value)
            if b is None:
                return
            if b.root == self.self_name and b.path == b.root:
                if aug and self.ndims.get(target.attr, 0) >= 1:
                    t = Taint(b.root, b.path + "." + target.attr, self.ndims[target.attr], b.chain + [f".{target.attr}"])
                    self.report(node, t, f"in-place operator on the stored array `{ast.unparse(target)}`")
                return  # self.x = value: ordinary state update
            self.report(node, Taint(b.root, b.path + "." + target.attr, None, b.chain), f"attribute {'update' if aug else 'assignment'} `{ast.unparse(target)}` on an object owned by the caller")

    def alignment(self, expr, stmt):
        """`x[1:] - x[:-1]` on a raw argument: positional for an ndarray, but pandas aligns the two slices on their
        index labels (NaN at both ends, zero elsewhere) - the library itself hands Series to such parameters
        (`prod_data["Days"] / tau` as a time grid).  np.diff(x) or np.asarray(x) first are positional for every input."""
        for n in ast.walk(expr):
            if not isinstance(n, ast.BinOp):
                continue
            l, r = n.left, n.right
            if not (isinstance(l, ast.Subscript) and isinstance(r, ast.Subscript) and isinstance(l.slice, ast.Slice) and isinstance(r.slice, ast.Slice)):
                continue
            if not (isinstance(l.value, ast.Name) and isinstance(r.value, ast.Name) and l.value.id == r.value.id):
                continue
            if ast.dump(l.slice) == ast.dump(r.slice):
                continue
            t = self.state.get(l.value.id)
            if t is not None and t.path == t.root and len(t.chain) == 1 and t.root != self.self_name:
                self.report(stmt, t, f"label-aligned arithmetic between two slices `{ast.unparse(n)[:50]}` of an argument that may be a pandas Series")

    def calls(self, expr, stmt):
        self.alignment(expr, stmt)
        for n in ast.walk(expr):
            if not isinstance(n, ast.Call):
                continue
            fn = ast.unparse(n.func)
            for k in n.keywords:
                if k.arg == "out":
                    for x in k.value.elts if isinstance(k.value, ast.Tuple) else [k.value]:
                        b = self.origin(x)
                        if b is not None:
                            self.report(stmt, b, f"`out=` argument of {fn}")
            if fn in MUTATING_FUNCS and len(n.args) > MUTATING_FUNCS[fn]:
                b = self.origin(n.args[MUTATING_FUNCS[fn]])
                if b is not None and not (fn in ("setattr", "delattr") and b.root == self.self_name and b.path == b.root):
                    self.report(stmt, b, f"{fn}(...) writes its first argument")
            if isinstance(n.func, ast.Attribute):
                inplace = any(k.arg == "inplace" and isinstance(k.value, ast.Constant) and k.value.value is True for k in n.keywords)
                if n.func.attr in MUTATING_METHODS or inplace:
                    b = self.origin(n.func.value)
                    own_dict = b is not None and b.root == self.self_name and b.path == f"{b.root}.__dict__"  # del self.x in disguise
                    if b is not None and not own_dict and not (b.root == self.self_name and b.path == b.root):
                        self.report(stmt, b, f"mutating call `{ast.unparse(n)[:60]}`")
            # package functions that write their parameters
            last = fn.split(".")[-1]
            summ = self.summaries.get(last)
            if summ:
                pos, names = summ
                offset = 0
                for i, a in enumerate(n.args):
                    if i + offset in pos:
                        b = self.origin(a)
                        if b is not None:
                            self.report(stmt, b, f"passed to {last}(), which modifies that argument in place")
                for k in n.keywords:
                    if k.arg in names:
                        b = self.origin(k.value)
                        if b is not None:
                            self.report(stmt, b, f"passed to {last}({k.arg}=...), which modifies that argument in place")

    # ------------------------------------------------------------------ statements
    def run(self):
        self._loop_ints = set()
        self.visit(self.f.body)
        return self

    def visit(self, stmts):
        for s in stmts:
            self.stmt(s)

    def _merge(self, a, b):
        out = dict(b)
        for k, v in a.items():
            if k not in out:
                out[k] = v
        return out

    def stmt(self, s):
        if isinstance(s, ast.Assign):
            self.calls(s.value, s)
            vt = self.origin(s.value)
            for t in s.targets:
                if isinstance(t, (ast.Name, ast.Tuple, ast.List)):
                    self.bind(t, vt, s.value)
                else:
                    self.store(t, s, aug=False)
        elif isinstance(s, ast.AnnAssign):
            if s.value is not None:
                self.calls(s.value, s)
                if isinstance(s.target, ast.Name):
                    self.bind(s.target, self.origin(s.value), s.value)
                else:
                    self.store(s.target, s, aug=False)
        elif isinstance(s, ast.AugAssign):
            self.calls(s.value, s)
            t = s.target
            if isinstance(t, ast.Name):
                b = self.state.get(t.id)
                if b is not None:
                    is_bare_param = b.path == b.root and len(b.chain) == 1
                    if is_bare_param:
                        if b.root != self.self_name and _param_is_array(self.f, b.root):
                            self.report(s, b, f"in-place operator `{t.id} {_op(s.op)}= ...` on an array argument")
                        else:
                            self.state.pop(t.id, None)
                    elif b.ndim is not None and b.ndim >= 1 or (b.ndim is None and self._arrayish(b)):
                        self.report(s, b, f"in-place operator `{t.id} {_op(s.op)}= ...` on a view")
                    else:
                        self.state.pop(t.id, None)
            else:
                self.store(t, s, aug=True)
        elif isinstance(s, ast.Delete):
            for t in s.targets:
                if isinstance(t, ast.Subscript):
                    b = self.origin(t.value)
                    if b is not None:
                        self.report(s, b, f"`del {ast.unparse(t)[:50]}`")
                elif isinstance(t, ast.Attribute):
                    b = self.origin(t.value)
                    if b is not None and not (b.root == self.self_name and b.path == b.root):
                        self.report(s, Taint(b.root, b.path + "." + t.attr, None, b.chain), f"`del {ast.unparse(t)}` on an object owned by the caller")
                elif isinstance(t, ast.Name):
                    self.state.pop(t.id, None)
        elif isinstance(s, (ast.Expr, ast.Return)):
            if s.value is not None:
                self.calls(s.value, s)
        elif isinstance(s, ast.If):
            self.calls(s.test, s)
            before = dict(self.state)
            self.visit(s.body)
            after_body = self.state
            self.state = dict(before)
            self.visit(s.orelse)
            self.state = self._merge(after_body, self.state)
        elif isinstance(s, (ast.For, ast.AsyncFor)):
            self.calls(s.iter, s)
            before = dict(self.state)
            for _ in range(2):
                self._bind_loop(s)
                self.visit(s.body)
            self.visit(s.orelse)
            self.state = self._merge(before, self.state)
        elif isinstance(s, ast.While):
            self.calls(s.test, s)
            before = dict(self.state)
            for _ in range(2):
                self.visit(s.body)
            self.visit(s.orelse)
            self.state = self._merge(before, self.state)
        elif isinstance(s, (ast.With, ast.AsyncWith)):
            for it in s.items:
                self.calls(it.context_expr, s)
                if it.optional_vars is not None:
                    self.bind(it.optional_vars, None)
            self.visit(s.body)
        elif isinstance(s, ast.Try):
            before = dict(self.state)
            self.visit(s.body)
            st = self.state
            for h in s.handlers:
                self.state = self._merge(before, dict(st))
                self.visit(h.body)
                st = self._merge(st, self.state)
            self.state = st
            self.visit(s.orelse)
            self.visit(s.finalbody)
        elif isinstance(s, (ast.FunctionDef, ast.AsyncFunctionDef)):
            sub = FunctionAnalysis(s, f"{self.qual}.{s.name}", self.ndims, self.summaries, outer_state=self.state).run()
            # writes through captured views of the outer function's parameters are the outer function's writes
            for fd in sub.findings:
                if fd.root not in sub.params or fd.root in self.state and fd.root not in [a.arg for a in s.args.args + s.args.kwonlyargs + s.args.posonlyargs]:
                    self.findings.append(fd)
                    if fd.root in self.params:
                        self.mutated_params.add(fd.root)
            self.nested.append(sub)
            self.state.pop(s.name, None)
        elif isinstance(s, ast.Match):
            for c in s.cases:
                self.visit(c.body)
        elif isinstance(s, (ast.Raise, ast.Assert)):
            for x in ast.iter_child_nodes(s):
                if isinstance(x, ast.expr):
                    self.calls(x, s)

    def _bind_loop(self, s):
        if isinstance(s.iter, ast.Call) and ast.unparse(s.iter.func) in ("range",):
            for n in ast.walk(s.target):
                if isinstance(n, ast.Name):
                    self._loop_ints.add(n.id)
                    self.state.pop(n.id, None)
            return
        el = self.iter_elements(s.iter)
        if isinstance(s.iter, ast.Call) and ast.unparse(s.iter.func) == "enumerate" and isinstance(s.target, ast.Tuple) and s.target.elts and isinstance(s.target.elts[0], ast.Name):
            self._loop_ints.add(s.target.elts[0].id)
        if isinstance(el, list):
            if isinstance(s.target, (ast.Tuple, ast.List)) and len(s.target.elts) == len(el):
                for t, e in zip(s.target.elts, el):
                    self.bind(t, e)
            else:
                self.bind(s.target, None)
        else:
            if isinstance(s.target, (ast.Tuple, ast.List)):
                for t in s.target.elts:
                    self.bind(t, self._elem(el) if el is not None else None)
            else:
                self.bind(s.target, el)

    def _arrayish(self, t):
        """a view of unknown rank counts as an array when it was obtained by a whole-object form (asarray, slice,
        column, attribute of an object) rather than by indexing"""
        return len(t.chain) > 1 and not t.chain[-2 if t.chain[-1].endswith("=") else -1].startswith("[row]")


def _op(op):
    return {ast.Add: "+", ast.Sub: "-", ast.Mult: "*", ast.Div: "/", ast.Pow: "**", ast.FloorDiv: "//", ast.Mod: "%", ast.MatMult: "@", ast.BitAnd: "&", ast.BitOr: "|", ast.BitXor: "^", ast.LShift: "<<", ast.RShift: ">>"}.get(type(op), "?")


def _functions(tree):
    """(qualname, node, is_method) of every top-level function and method (nested ones are analysed with their parent)"""
    out = []
    for n in tree.body:
        if isinstance(n, (ast.FunctionDef, ast.AsyncFunctionDef)):
            out.append((n.name, n, False))
        elif isinstance(n, ast.ClassDef):
            stack = [(n.name, n)]
            while stack:
                q, c = stack.pop()
                for m in c.body:
                    if isinstance(m, (ast.FunctionDef, ast.AsyncFunctionDef)):
                        is_static = any(ast.unparse(d) == "staticmethod" for d in m.decorator_list)
                        out.append((f"{q}.{m.name}", m, not is_static))
                    elif isinstance(m, ast.ClassDef):
                        stack.append((f"{q}.{m.name}", m))
    return out


def internal_only_names(trees):
    """names of private functions / methods (leading underscore, not dunder) that are only ever *called* inside the
    package - never passed around as a value (callback), so every call site is visible to the analysis"""
    defined, escaping = set(), set()
    for tree in trees.values():
        call_funcs = set()
        for n in ast.walk(tree):
            if isinstance(n, (ast.FunctionDef, ast.AsyncFunctionDef)) and n.name.startswith("_") and not n.name.startswith("__"):
                defined.add(n.name)
            if isinstance(n, ast.Call):
                call_funcs.add(id(n.func))
        for n in ast.walk(tree):
            if isinstance(n, ast.Name) and isinstance(n.ctx, ast.Load) and id(n) not in call_funcs:
                escaping.add(n.id)
            elif isinstance(n, ast.Attribute) and isinstance(n.ctx, ast.Load) and id(n) not in call_funcs:
                escaping.add(n.attr)
    return defined - escaping


def analyse_trees(trees):
    """trees: {module name: ast.Module}.  Returns ({module: [Finding]}, functions analysed, attr ndims).

    A write to a parameter of an internal-only private helper (see internal_only_names) is the helper's contract
    (fill the buffer it is given); it is judged at the call sites through the summary: a caller that hands such a
    helper a view of *its* caller's data or of stored state is reported, a caller that hands it a fresh local is not."""
    ndims = attr_ndims(trees.values())
    internal = internal_only_names(trees)
    summaries = {}
    result = {}
    nfunc = 0
    for _round in range(3):  # summaries reach a fixpoint in at most call-depth rounds; 3 covers this package
        result = {}
        nfunc = 0
        new = {}
        for mn, tree in trees.items():
            fs = []
            for q, node, is_method in _functions(tree):
                fa = FunctionAnalysis(node, q, ndims, summaries, is_method=is_method).run()
                nfunc += 1 + len(fa.nested)
                if node.name in internal:
                    # keep only writes that are not through one of its own (non-self) parameters
                    own = {p for p in fa.params if p != fa.self_name}
                    fs.extend(f for f in fa.findings if f.root not in own)
                else:
                    fs.extend(fa.findings)
                muts = {p for p in fa.mutated_params if p != fa.self_name}
                if muts:
                    params = [p for p in fa.params if not (is_method and p == fa.self_name)]
                    pos = {params.index(p) for p in muts if p in params}
                    old = new.get(node.name, (set(), set()))
                    new[node.name] = (old[0] | pos, old[1] | muts)
            result[mn] = fs
        if new == summaries:
            break
        summaries = new
    return result, nfunc, ndims


SELFTEST_SRC = '''
import numpy as np
class R:
    def simulate(self, time):
        levels = np.empty((len(time), self.nx))
        levels[0, :] = 1.0
        self.levels = levels
        self.time = time
    def good(self):
        for i, p in enumerate(self.levels):
            p = (p - p[0]) / (1 - p[0])
        first = self.time[0]
        first -= 1
        return first
    def bad(self):
        a, b, c = self.levels[:, :3].T
        r = a
        r *= -3.0
        return r
def plot(res, rescale):
    for i, p in enumerate(res.levels):
        if rescale:
            p -= p[0]
def obj(days: "NDArray", tau):
    t = np.asarray(days, dtype=np.float64)
    t /= tau
    return t
def scalar_ok(pressure: float):
    pressure *= 2
    return pressure
def helper(x):
    x[0] = 0
def uses_helper(table: "NDArray"):
    helper(table)
def steps(time, dx):
    return (time[1:] - time[:-1]) / dx
def steps_ok(time, dx):
    time = np.asarray(time)
    return (time[1:] - time[:-1]) / dx + np.diff(time)
'''


def selftest():
    res, _n, nd = analyse_trees({"m": ast.parse(SELFTEST_SRC)})
    got = sorted((f.func, f.path) for f in res["m"])
    want = sorted([("R.bad", "self.levels"), ("plot", "res.levels"), ("obj", "days"), ("helper", "x"), ("uses_helper", "table"), ("steps", "time")])
    return got == want and nd.get("levels") == 2


def check_modules(ctx, rule, anchored, rest, floor=1):
    """Rule V on the analysed tree.  Findings in `anchored` modules are always relevant; findings in the `rest` of the
    package are relevant when they write an attribute whose defining class lives in an anchored module."""
    from .model import AnalysisError

    if not selftest():
        raise AnalysisError("view-mutation rule failed its built-in positive/negative example")
    mods = list(anchored) + [m for m in rest if m not in anchored]
    trees = {mn: ctx.P.module(mn).tree for mn in mods}
    res, nfunc, ndims = analyse_trees(trees)
    if nfunc < floor:
        raise AnalysisError(f"view-mutation rule analysed {nfunc} functions, expected at least {floor}")
    # attributes defined (assigned on self) per module
    owner = {}
    for mn, tree in trees.items():
        for n in ast.walk(tree):
            if isinstance(n, ast.Attribute) and isinstance(n.ctx, ast.Store) and isinstance(n.value, ast.Name) and n.value.id == "self":
                owner.setdefault(n.attr, set()).add(mn)
    for mn in mods:
        m = ctx.P.module(mn)
        relevant = []
        for fd in res[mn]:
            along = [a for a in str(fd.path).replace("[", ".").split(".")[1:] if a.isidentifier()]
            if mn in anchored or (fd.attr and owner.get(fd.attr, set()) & set(anchored)) or any(owner.get(a, set()) & set(anchored) for a in along):
                relevant.append(fd)  # ... or reaches, along its path (self.fluid.alpha.bounds_error), an attribute of such a class
        if mn in anchored and not relevant:
            ctx.ok(
                rule, f"{mn}:no in-place write through a view", m.relpath,
                "no function writes in place (augmented assignment, item store, out=, mutating method) through a view of its caller's data or of an object's stored arrays",
                nontrivial=True, functions_scanned=sum(1 for _ in _functions(m.tree)), ranks_known=ndims,
            )
        for fd in relevant:
            if fd.what.startswith("label-aligned"):
                ctx.bad(
                    rule, f"{mn}.{fd.func}:slice arithmetic on argument {fd.path}", f"{m.relpath}:{fd.node.lineno}",
                    "arithmetic between shifted slices of an argument is positional for every admissible input (np.diff, or np.asarray first): a pandas Series - which the package itself passes as a time grid - aligns the slices on their labels instead",
                    signature="label alignment " + fd.path, expression=fd.what, statement=ast.unparse(fd.node)[:120],
                )
                continue
            ctx.bad(
                rule, f"{mn}.{fd.func}:write through view of {fd.path}", f"{m.relpath}:{fd.node.lineno}",
                "data owned by the caller (arguments, tables) and the stored arrays of a simulated object are never modified in place",
                signature=fd.what.split("`")[0].strip() + " " + fd.path,
                write=fd.what, bindings=" -> ".join(fd.chain), statement=ast.unparse(fd.node)[:120],
            )
    return nfunc
