"""Option contexts (shared rule O): new optional parameters that an internal caller sets to something else than
their default.

A parameter that the pinned signature of a function does not have and that has a default is judged *at its default*
when the function is an analysis entry point (symeval.Interp.symbolic_args): the properties speak about the calls
existing users can make.  That is only half of it - the calls existing users can make *reach* the function through
the package's own callers as well, and a caller may pass the new option explicitly: `from_table(...)` constructing
with `alpha_fill="extrapolate"`, `_obj_function` simulating with `solver="bicgstab"`, the two-phase helper calling
`relative_permeabilities(..., validate=False)`.  Analysing the callee at its default then proves a statement about a
configuration the package itself does not use on that path.

`discover(P)` finds every call site in the package that binds a new optional parameter (or a new dataclass field) of a
package function explicitly, and classifies the value handed over:
  * a constant (a literal, a module constant, or the caller's own new optional parameter - at its default) that equals
    the callee's default: nothing to do;
  * another constant: an option context  {callee: {parameter: that constant}};
  * anything else: the caller is interpreted, and if on every call of that site the callee computes with the value
    what it computes with the default (symeval._explicit_equals_default: both interpreted, all trace partitions
    compared) the site is the default call; otherwise the context binds the parameter to an unknown `p@option`.
The driver (cli.run_check) re-runs the property's rules once per context whose callee was an analysis entry point of
the default run, with the entry point's new parameter bound as in the context; violations that the default run does
not have are reported under the rule that found them, with the calling context appended to the construct.
"""
from __future__ import annotations

import ast
import json
import os
from dataclasses import dataclass, field

from . import nf
from .model import AnalysisError, ClassInfo


@dataclass
class OptionContext:
    callee: str  # qualname of the function (or "<Class>.<fields>" for dataclass fields)
    params: dict  # name -> ("const", ast expr, ModuleInfo) | ("sym",)
    caller: str
    line: int
    descr: str = ""
    file: str = ""


def _pinned():
    here = os.path.dirname(os.path.abspath(__file__))
    sig = json.load(open(os.path.join(here, "signatures.json"))) if os.path.exists(os.path.join(here, "signatures.json")) else {}
    pos = json.load(open(os.path.join(here, "signatures_pos.json"))) if os.path.exists(os.path.join(here, "signatures_pos.json")) else {}
    return sig, pos


def new_optional(fi, sig):
    known = sig.get(fi.qualname.split("#")[0])
    if known is None:
        return []
    d = fi.defaults()
    return [p for p in fi.params + fi.kwonly if p not in known and p in d]


def _index(P, sig, pos):
    """called simple name -> [(FunctionInfo | ClassInfo, [new optional parameter names])]"""
    idx = {}
    for fi in P.functions.values():
        if fi.parent is not None:
            continue
        nw = new_optional(fi, sig)
        if not nw:
            continue
        if fi.cls is not None and fi.name == "__init__":
            idx.setdefault(fi.cls.name, []).append((fi, nw))
            idx.setdefault("cls", []).append((fi, nw))
        else:
            idx.setdefault(fi.name, []).append((fi, nw))
    for ci in P.classes.values():
        known = pos.get(f"{ci.qualname}.<fields>")
        if known is None or ci.lookup("__init__") is not None:
            continue
        nw = [f for f in ci.fields if f not in known and f in ci.class_attrs]
        if nw:
            idx.setdefault(ci.name, []).append((ci, nw))
            idx.setdefault("cls", []).append((ci, nw))
    return idx


def _enclosing_functions(P):
    for fi in P.functions.values():
        if fi.parent is None:
            yield fi


def _call_sites(fi):
    for n in ast.walk(fi.node):
        if isinstance(n, ast.Call):
            f = n.func
            name = f.id if isinstance(f, ast.Name) else f.attr if isinstance(f, ast.Attribute) else None
            if name:
                yield name, n


def _field_default(ci, name):
    d = ci.class_attrs[name]
    if isinstance(d, ast.Call) and ast.unparse(d.func).split(".")[-1] == "field":
        kw = {k.arg: k.value for k in d.keywords if k.arg}
        return kw.get("default")
    return d


def _const_val(it, expr, module):
    """the value of an expression that needs no local names, else None"""
    from .symeval import Env
    from .values import BoolV, NoneV, Num, StrV

    try:
        v = it.eval(expr, Env(None, module, None))
    except Exception:
        return None
    if isinstance(v, (StrV, NoneV)):
        return v
    if isinstance(v, BoolV) and v.kind == "const":
        return v
    if isinstance(v, Num) and nf.is_const(v.nf):
        return v
    return None


def _same(a, b):
    from .values import BoolV, NoneV, Num, StrV

    if a is None or b is None or type(a) is not type(b):
        return False
    if isinstance(a, StrV):
        return a.s == b.s
    if isinstance(a, NoneV):
        return True
    if isinstance(a, BoolV):
        return bool(a.a) == bool(b.a)
    if isinstance(a, Num):
        return nf.equal(a.nf, b.nf)
    return False


def discover(P):
    from .symeval import Interp
    from .values import ClassV

    sig, pos = _pinned()
    idx = _index(P, sig, pos)
    if not idx:
        return []
    it0 = Interp(P)
    out, seen = [], set()
    for caller in _enclosing_functions(P):
        caller_new = set(new_optional(caller, sig))
        cdef = caller.defaults()
        for name, call in _call_sites(caller):
            for target, nw in idx.get(name, []):
                is_cls = isinstance(target, ClassInfo)
                if name == "cls":
                    # cls(...) inside a classmethod of the same class (or a base of it)
                    tcls = target if is_cls else target.cls
                    if caller.cls is None or tcls not in caller.cls.mro():
                        continue
                if is_cls:
                    order = list(target.all_fields()) if hasattr(target, "all_fields") else list(target.fields)
                    qual = f"{target.qualname}.<fields>"
                    tmod = target.module
                    dflt = {p: _field_default(target, p) for p in nw}
                else:
                    order = [p for p in target.params if not (p in ("self", "cls") and target.cls is not None)]
                    qual = target.qualname
                    tmod = target.module
                    dflt = target.defaults()
                if target is caller:
                    continue
                if not is_cls and target.cls is not None and isinstance(call.func, ast.Attribute):
                    rc = _receiver_class(P, caller, call.func.value)
                    if rc is not None and rc.lookup(target.name) is not target:
                        continue  # the receiver is an object of a class whose method of that name is another function
                kws = {k.arg: k.value for k in call.keywords if k.arg}
                params = {}
                for p in nw:
                    expr = kws.get(p)
                    if expr is None and p in order and order.index(p) < len(call.args) and not any(isinstance(a, ast.Starred) for a in call.args):
                        expr = call.args[order.index(p)]
                    if expr is None:
                        continue
                    dv = _const_val(it0, dflt[p], tmod) if dflt.get(p) is not None else None
                    if isinstance(expr, ast.Name) and expr.id in caller_new and not _rebound(caller.node, expr.id):
                        v = _const_val(it0, cdef[expr.id], caller.module)
                        src = ("const", cdef[expr.id], caller.module)
                    else:
                        v = _const_val(it0, expr, caller.module) if not _uses_locals(expr, caller) else None
                        src = ("const", expr, caller.module)
                    if v is not None:
                        if _same(v, dv):
                            continue
                        params[p] = src
                    else:
                        params[p] = ("sym",)
                if not params:
                    continue
                sym = [p for p, s in params.items() if s[0] == "sym"]
                if sym and not is_cls and _site_is_default(P, caller, target, call, sym):
                    for p in sym:
                        del params[p]
                if not params:
                    continue
                key = (qual, tuple(sorted((p, s[0], ast.dump(s[1]) if s[0] == "const" else "") for p, s in params.items())))
                if key in seen:
                    continue
                seen.add(key)
                txt = ", ".join(f"{p}={ast.unparse(s[1])}" if s[0] == "const" else f"{p}=<computed>" for p, s in sorted(params.items()))
                out.append(OptionContext(qual, params, caller.qualname, call.lineno, f"as called by {caller.qualname.split('.', 2)[-1]} with {txt}", caller.module.relpath))
    # transitive: a function analysed in a context forwards its (now non-default) option to a new option of a callee
    work = list(out)
    while work:
        oc = work.pop()
        caller = P.functions.get(oc.callee)
        if caller is None:
            continue
        for name, call in _call_sites(caller):
            for target, nw in idx.get(name, []):
                if isinstance(target, ClassInfo) or target is caller:
                    continue
                order = [p for p in target.params if not (p in ("self", "cls") and target.cls is not None)]
                kws = {k.arg: k.value for k in call.keywords if k.arg}
                params = {}
                for p in nw:
                    expr = kws.get(p)
                    if expr is None and p in order and order.index(p) < len(call.args) and not any(isinstance(a, ast.Starred) for a in call.args):
                        expr = call.args[order.index(p)]
                    if isinstance(expr, ast.Name) and expr.id in oc.params and not _rebound(caller.node, expr.id):
                        params[p] = oc.params[expr.id]
                if not params:
                    continue
                key = (target.qualname, tuple(sorted((p, s[0], ast.dump(s[1]) if s[0] == "const" else "") for p, s in params.items())))
                if key in seen:
                    continue
                seen.add(key)
                noc = OptionContext(target.qualname, params, caller.qualname, call.lineno, oc.descr + f" (forwarded by {caller.name})", caller.module.relpath)
                out.append(noc)
                work.append(noc)
    return out


def _receiver_class(P, caller, recv):
    """the package class of a method call's receiver when the source says so: `self`, or a local name bound once, to a
    constructor call of a package class"""
    if isinstance(recv, ast.Name):
        if recv.id == "self" and caller.cls is not None:
            return caller.cls
        asg = [n for n in ast.walk(caller.node) if isinstance(n, ast.Assign) and any(isinstance(t, ast.Name) and t.id == recv.id for t in n.targets)]
        if len(asg) == 1 and isinstance(asg[0].value, ast.Call):
            f = asg[0].value.func
            nm = f.id if isinstance(f, ast.Name) else f.attr if isinstance(f, ast.Attribute) else None
            cands = [c for c in P.classes.values() if c.name == nm]
            if len(cands) == 1:
                return cands[0]
    return None


def _rebound(fnode, name):
    return any(isinstance(n, ast.Name) and n.id == name and isinstance(n.ctx, (ast.Store, ast.Del)) for n in ast.walk(fnode))


def _uses_locals(expr, caller):
    local = set(caller.params + caller.kwonly)
    for n in ast.walk(caller.node):
        if isinstance(n, ast.Name) and isinstance(n.ctx, ast.Store):
            local.add(n.id)
    return any(isinstance(n, ast.Name) and n.id in local for n in ast.walk(expr))


def _site_is_default(P, caller, target, call, params):
    """Interpret the caller; on every call of `target` made from this site the explicit values make the callee compute
    what it computes with the defaults."""
    from .rules.common import std_policy
    from .symeval import Interp
    from .values import ClassV

    try:
        it = Interp(P, policy=std_policy(False))
        args = {}
        if caller.cls is not None and caller.params[:1] == ["cls"]:
            args["cls"] = ClassV(caller.cls)
        found = 0
        for p in it.run_function(caller.qualname, args=args):
            for e in p.events:
                if e.kind == "int_call" and e.data.get("callee") == target.qualname and e.line == call.lineno:
                    found += 1
                    bound = e.data["args"]
                    if not all(q in bound for q in params):
                        return False
                    if not it._explicit_equals_default(target, bound, list(params), e.data.get("recv")):
                        return False
        return found > 0
    except (AnalysisError, nf.NFError, RecursionError, Exception):
        return False
