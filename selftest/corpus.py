"""Mutant / benign-twin corpus for the thorough tier.

Each entry: (id, kind, [(relative path under the repo, old text, new text), ...])
kind = "mutant": the property's check must exit 1 on a scratch copy with the edit applied;
kind = "twin":   behaviour-preserving rewrite, the check must exit 0.
Edits are textual only to *build the variant*; the checks themselves never match text.
Seeded changes from sub-agents (/verif/seeded/<id>/patch.diff) are added by the runner as mutants;
agent-written refactorings (/verif/selftest/twins/<id>/patch.diff) as twins.
An entry whose pattern no longer occurs in the tree is skipped (reported, not failed).
"""
RES = "src/bluebonnet/flow/reservoir.py"
FPF = "src/bluebonnet/flow/flowproperties.py"
OIL = "src/bluebonnet/fluids/oil.py"
GAS = "src/bluebonnet/fluids/gas.py"
WAT = "src/bluebonnet/fluids/water.py"
FLU = "src/bluebonnet/fluids/fluid.py"
FC = "src/bluebonnet/forecast/forecast.py"
FCP = "src/bluebonnet/forecast/forecast_pressure.py"
PLT = "src/bluebonnet/plotting.py"

M, T = "mutant", "twin"

CORPUS = {
    "C01": [
        ("last-row-dirichlet", M, [(RES, "    diagonal_long[-1] = 1.0 + kt_h2[-1]", "    diagonal_long[-1] = 1.0 + 2 * kt_h2[-1]")]),
        ("upper-index-shift", M, [(RES, "    diagonal_upper = -kt_h2[0:-1]", "    diagonal_upper = -kt_h2[1:]")]),
        ("offsets-swapped", M, [(RES, "[diagonal_low, diagonal_long, diagonal_upper], [-1, 0, 1]", "[diagonal_low, diagonal_long, diagonal_upper], [1, 0, -1]")]),
        ("positive-offdiag", M, [(RES, "    diagonal_low = -kt_h2[1:]", "    diagonal_low = kt_h2[1:]")]),
        ("rhs-other-alpha", M, [(RES, "            b[0] = m_f[i] + kt_h2[0] * m_f[i]", "            b[0] = m_f[i] + self.alpha_scaled(m_i) * mesh_ratio * m_f[i]")]),
        ("rhs-before-alpha", M, [(RES, "            b[0] = m_f[i]\n            try:", "            b[0] = m_f[i] + self.alpha_scaled(m_f[i]) * m_f[i] * mesh_ratio\n            try:"), (RES, "            b[0] = m_f[i] + kt_h2[0] * m_f[i]\n", "")]),
        ("alpha-extrapolate", M, [(FPF, "            fill_value=(min(pvt_props[\"alpha\"]), max(pvt_props[\"alpha\"])),\n            bounds_error=False,\n        )\n        self.pvt_props = pvt_props\n\n    def __repr__", "            fill_value=\"extrapolate\",\n            bounds_error=False,\n        )\n        self.pvt_props = pvt_props\n\n    def __repr__")]),
        ("ideal-start-zero", M, [(RES, "        pseudopressure[0, :] = 1.0", "        pseudopressure[0, :] = 0.0")]),
        ("diag-reordered", T, [(RES, "    diagonal_long = 1.0 + 2 * kt_h2", "    diagonal_long = 2 * kt_h2 + 1")]),
        ("rhs-through-temp", T, [(RES, "            b[0] = m_f[i] + kt_h2[0] * m_f[i]", "            k_face = kt_h2[0]\n            b[0] = m_f[i] * (1 + k_face)")]),
        ("fill-methods", T, [(FPF, "            fill_value=(min(pvt_props[\"alpha\"]), max(pvt_props[\"alpha\"])),\n            bounds_error=False,\n        )\n        self.pvt_props = pvt_props\n\n    def __repr__", "            fill_value=(pvt_props[\"alpha\"].min(), pvt_props[\"alpha\"].max()),\n            bounds_error=False,\n        )\n        self.pvt_props = pvt_props\n\n    def __repr__")]),
    ],
    "C02": [
        ("flux-weight", M, [(RES, "rate = (-pp[:, 2] + 4 * pp[:, 1] - 3 * pp[:, 0]) * h_inv * 0.5", "rate = (-pp[:, 2] + 3 * pp[:, 1] - 3 * pp[:, 0]) * h_inv * 0.5")]),
        ("flux-centred", M, [(RES, "rate = (-pp[:, 2] + 4 * pp[:, 1] - 3 * pp[:, 0]) * h_inv * 0.5", "rate = (pp[:, 2] - pp[:, 0]) * h_inv * 0.5")]),
        ("fvf-inverted", M, [(RES, "        return 1 - self.pressure_fracface / self.pressure_initial", "        return self.pressure_fracface / self.pressure_initial")]),
        ("mesh-doubled", M, [(RES, "        dx_squared = (1 / self.nx) ** 2", "        dx_squared = (2 / self.nx) ** 2")]),
        ("alpha-not-scaled", M, [(RES, "        return alpha(pseudopressure) / alpha(self.fluid.m_i)", "        return alpha(pseudopressure)")]),
        ("initial-dropped", M, [(RES, "cumulative = integrate.cumulative_trapezoid(rate, self.time, initial=0)", "cumulative = integrate.cumulative_trapezoid(rate, self.time)")]),
        ("flux-rewritten", T, [(RES, "rate = (-pp[:, 2] + 4 * pp[:, 1] - 3 * pp[:, 0]) * h_inv * 0.5", "rate = 0.5 * h_inv * (4 * pp[:, 1] - pp[:, 2] - 3 * pp[:, 0])")]),
        ("quad-keywords", T, [(RES, "cumulative = integrate.cumulative_trapezoid(rate, self.time, initial=0)", "cumulative = integrate.cumulative_trapezoid(y=rate, x=self.time, initial=0.0)")]),
    ],
    "C03": [
        ("sum-axis", M, [(RES, "            mass_over_time = np.sum(mass, 1)", "            mass_over_time = np.sum(mass, 0)")]),
        ("mass-last", M, [(RES, "            cumulative = 1.0 - mass_over_time / mass_over_time[0]", "            cumulative = 1.0 - mass_over_time / mass_over_time[-1]")]),
        ("interp-swapped", M, [(RES, "                self.fluid.pvt_props[\"m-scaled\"],\n                self.fluid.pvt_props[\"density\"],", "                self.fluid.pvt_props[\"density\"],\n                self.fluid.pvt_props[\"m-scaled\"],")]),
        ("scaling-no-half", M, [(FPF, "                1\n                / 2\n                * pvt_props[\"compressibility\"]", "                1\n                * pvt_props[\"compressibility\"]")]),
        ("scaling-no-z", M, [(FPF, "                * pvt_props[\"z-factor\"]\n                / pvt_props[\"pressure\"] ** 2", "                / pvt_props[\"pressure\"] ** 2")]),
        ("scale-dropped", M, [(RES, "        self.recovery = cumulative * self.fvf_scale()\n        return self.recovery", "        self.recovery = cumulative * self.fvf_scale()\n        return cumulative")]),
        ("scaling-simplified", T, [(FPF, "                1\n                / 2\n                * pvt_props[\"compressibility\"]\n                * pvt_props[\"pressure\"]\n                * pvt_props[\"viscosity\"]\n                * pvt_props[\"z-factor\"]\n                / pvt_props[\"pressure\"] ** 2", "                0.5\n                * pvt_props[\"compressibility\"]\n                * pvt_props[\"viscosity\"]\n                * pvt_props[\"z-factor\"]\n                / pvt_props[\"pressure\"]")]),
    ],
    "C04": [
        ("lagged-dt", M, [(RES, "            mesh_ratio = (time[i + 1] - time[i]) / dx_squared\n            b = np.minimum", "            mesh_ratio = (time[i] - time[i - 1]) / dx_squared\n            b = np.minimum")]),
        ("rhs-older-level", M, [(RES, "            b = np.minimum(pseudopressure[i].copy(), m_i)", "            b = np.minimum(pseudopressure[i - 1].copy(), m_i)")]),
        ("mesh-from-time", M, [(RES, "            mesh_ratio = (time[i + 1] - time[i]) / dx_squared\n            alpha_scaled = self.alpha_scaled(b)", "            mesh_ratio = (time[i + 1] - time[i]) / (time[i + 1] * dx_squared)\n            alpha_scaled = self.alpha_scaled(b)")]),
        ("bicgstab-unchecked", M, [(RES, "            pseudopressure[i + 1] = sparse.linalg.spsolve(a_matrix, b)\n        self.pseudopressure = pseudopressure\n\n    def recovery_factor", "            pseudopressure[i + 1], _ = sparse.linalg.bicgstab(a_matrix, b, atol=_ATOL)\n        self.pseudopressure = pseudopressure\n\n    def recovery_factor")]),
        ("bicgstab-loose", M, [(RES, "            pseudopressure[i + 1] = sparse.linalg.spsolve(a_matrix, b)\n        self.pseudopressure = pseudopressure\n\n    def recovery_factor", "            pseudopressure[i + 1], info = sparse.linalg.bicgstab(a_matrix, b, rtol=1e-3, atol=_ATOL)\n            if info != 0:\n                raise RuntimeError(\"no convergence\")\n        self.pseudopressure = pseudopressure\n\n    def recovery_factor")]),
        ("face-averaged-upper", M, [(RES, "    diagonal_upper = -kt_h2[0:-1]", "    diagonal_upper = -0.5 * (kt_h2[0:-1] + kt_h2[1:])")]),
        ("level-index", M, [(RES, "            pseudopressure[i + 1] = sparse.linalg.spsolve(a_matrix, b)\n        self.pseudopressure = pseudopressure\n\n\n@dataclass", "            pseudopressure[i] = sparse.linalg.spsolve(a_matrix, b)\n        self.pseudopressure = pseudopressure\n\n\n@dataclass")]),
        ("bicgstab-checked-tight", T, [(RES, "            pseudopressure[i + 1] = sparse.linalg.spsolve(a_matrix, b)\n        self.pseudopressure = pseudopressure\n\n    def recovery_factor", "            pseudopressure[i + 1], info = sparse.linalg.bicgstab(a_matrix, b, rtol=1e-13, atol=_ATOL)\n            if info != 0:\n                raise RuntimeError(\"no convergence\")\n        self.pseudopressure = pseudopressure\n\n    def recovery_factor")]),
        ("dt-local", T, [(RES, "            mesh_ratio = (time[i + 1] - time[i]) / dx_squared\n            alpha_scaled = self.alpha_scaled(b)", "            dt = time[i + 1] - time[i]\n            mesh_ratio = dt / dx_squared\n            alpha_scaled = self.alpha_scaled(b)")]),
    ],
    "C05": [
        ("time-times-tau", M, [(FC, "    time_scaled = time_on_production / tau", "    time_scaled = time_on_production * tau")]),
        ("m-squared", M, [(FC, "    rf = M * rf_curve(time_scaled)", "    rf = M**2 * rf_curve(time_scaled)")]),
        ("bounds-transposed", M, [(FC, "        return ((self.M[0], self.tau[0]), (self.M[1], self.tau[1]))", "        return ((self.M[0], self.M[1]), (self.tau[0], self.tau[1]))")]),
        ("unpack-swapped", M, [(FC, "            self.M_, self.tau_ = fit", "            self.tau_, self.M_ = fit")]),
        ("guess-outside", M, [(FC, "            guess[0] = sum(self.M) / 2", "            guess[0] = self.M[1] * 2")]),
        ("order-guard-weak", M, [(FC, "        if self.M[0] >= self.M[1]:", "        if self.M[0] > self.M[1]:")]),
        ("tau-overwritten", M, [(FC, "            self.M_ = fit[0]\n            self.tau_ = tau", "            self.M_ = fit[0]\n            self.tau_ = fit[0]")]),
        ("bounds-dropped", M, [(FC, "            p0,\n            bounds=bounds,\n        )", "            p0,\n        )")]),
        ("law-reordered", T, [(FC, "    time_scaled = time_on_production / tau\n    rf = M * rf_curve(time_scaled)", "    rf = rf_curve(time_on_production / tau) * M")]),
        ("midpoint-explicit", T, [(FC, "            guess[0] = sum(self.M) / 2", "            guess[0] = (self.M[0] + self.M[1]) / 2")]),
    ],
    "C06": [
        ("c3-power", M, [(GAS, "    C[3] = A[9] / (temp_reduced**3)", "    C[3] = A[9] / (temp_reduced**2)")]),
        ("z-without-tr", M, [(GAS, "    Z_factor = 0.27 * pressure_reduced / (rho * temp_reduced)", "    Z_factor = 0.27 * pressure_reduced / rho")]),
        ("bracket-above-one", M, [(GAS, "rho_guess / 5, rho_guess * 20", "rho_guess * 2, rho_guess * 20")]),
        ("exp-constant", M, [(GAS, "        B = math.exp(-A[10] * rho**2)\n        F_rho", "        B = math.exp(-A[9] * rho**2)\n        F_rho")]),
        ("c-as-scalars", T, [(GAS, "            - C[1] * rho**2\n            - C[2] * rho**5", "            - rho**2 * C[1]\n            - C[2] * rho**4 * rho")]),
    ],
    "C07": [
        ("z-args-swapped", M, [(GAS, "    z_factor = z_factor_DAK(\n        temperature, pressure, temperature_pseudocritical, pressure_pseudocritical\n    )\n    density_gas", "    z_factor = z_factor_DAK(\n        temperature, pressure, pressure_pseudocritical, temperature_pseudocritical\n    )\n    density_gas")]),
        ("dz-power", M, [(GAS, "+ 2 * A[9] * A[10] * rho**3 / (temp_reduced**3)", "+ 2 * A[9] * A[10] * rho**2 / (temp_reduced**3)")]),
        ("oil-gas-constant", M, [(OIL, "0.0136 * gas_specific_gravity * solution_gor) / b_o", "0.0137 * gas_specific_gravity * solution_gor) / b_o")]),
        ("water-times-bw", M, [(WAT, "    return density_stp / b_water", "    return density_stp * b_water")]),
        ("assembly-z-power", M, [(GAS, "compressibility_reduced = 1.0 / pressure_reduced - 0.27 / (z_factor**2 * temp_reduced)", "compressibility_reduced = 1.0 / pressure_reduced - 0.27 / (z_factor * temp_reduced)")]),
        ("density-no-z", M, [(GAS, "density_gas = pressure * molecular_weight / (z_factor * R * (temperature + 459.67))", "density_gas = pressure * molecular_weight / (R * (temperature + 459.67))")]),
        ("density-reordered", T, [(GAS, "density_gas = pressure * molecular_weight / (z_factor * R * (temperature + 459.67))", "density_gas = molecular_weight * pressure / R / z_factor / (temperature + 459.67)")]),
    ],
    "C08": [
        ("integrand-sum", M, [(GAS, "        return 2 * pressure / (viscosity * z_factor)", "        return 2 * pressure / (viscosity + z_factor)")]),
        ("factor-two-dropped", M, [(FLU, "    pseudopressure = 2 * cumulative_trapezoid(", "    pseudopressure = cumulative_trapezoid(")]),
        ("quad-limits", M, [(GAS, "quad(integrand, pressure_standard, pressure, limit=100)", "quad(integrand, pressure, pressure_standard, limit=100)")]),
        ("xy-swapped", M, [(FLU, "    return sp.integrate.cumulative_trapezoid(pp, pressure, initial=0.0)", "    return sp.integrate.cumulative_trapezoid(pressure, pp, initial=0.0)")]),
        ("z-at-outer-pressure", M, [(GAS, "        z_factor = z_factor_DAK(\n            temperature, pressure, temperature_pseudocritical, pressure_pseudocritical\n        )\n        return 2", "        z_factor = z_factor_DAK(\n            temperature, pressure_standard, temperature_pseudocritical, pressure_pseudocritical\n        )\n        return 2")]),
        ("initial-missing", M, [(FLU, "        initial=0.0,\n    )", "    )")]),
        ("keywords", T, [(FLU, "    return sp.integrate.cumulative_trapezoid(pp, pressure, initial=0.0)", "    return sp.integrate.cumulative_trapezoid(y=pp, x=pressure, initial=0)")]),
        ("handwritten-trapezoid", T, [(FLU, "    return sp.integrate.cumulative_trapezoid(pp, pressure, initial=0.0)", "    steps = 0.5 * (pp[1:] + pp[:-1]) * np.diff(pressure)\n    return np.concatenate(([0.0], np.cumsum(steps)))")]),
        ("handwritten-abs-step", M, [(FLU, "    return sp.integrate.cumulative_trapezoid(pp, pressure, initial=0.0)", "    steps = 0.5 * (pp[1:] + pp[:-1]) * np.abs(np.diff(pressure))\n    return np.concatenate(([0.0], np.cumsum(steps)))")]),
        ("factor-inside", T, [(FLU, "    pseudopressure = 2 * cumulative_trapezoid(\n        pvt_gas[\"pressure\"] / (pvt_gas[\"viscosity\"] * pvt_gas[\"z-factor\"]),", "    pseudopressure = cumulative_trapezoid(\n        2 * pvt_gas[\"pressure\"] / pvt_gas[\"viscosity\"] / pvt_gas[\"z-factor\"],")]),
    ],
    "C09": [
        ("copy-removed", M, [(FPF, "        pvt_props = copy.copy(pvt_props)\n        need_cols_long", "        need_cols_long")]),
        ("inplace-after-copy", M, [(FPF, "        pvt_props[\"m-scaled\"] = pvt_props[\"pseudopressure\"] * m_scaling_factor", "        pvt_props[\"pressure\"] *= 1.0\n        pvt_props[\"m-scaled\"] = pvt_props[\"pseudopressure\"] * m_scaling_factor")]),
        ("mscaled-extrapolate", M, [(FPF, "        self.m_scaled_func = interp1d(pvt_props[\"pressure\"], pvt_props[\"m-scaled\"])\n        self.m_i = self.m_scaled_func(p_i)\n        self.alpha = interp1d(\n            pvt_props[\"m-scaled\"],\n            pvt_props[\"alpha\"],\n            fill_value=(min(pvt_props[\"alpha\"]), max(pvt_props[\"alpha\"])),\n            bounds_error=False,\n        )\n        self.pvt_props = pvt_props\n\n    def __repr__", "        self.m_scaled_func = interp1d(pvt_props[\"pressure\"], pvt_props[\"m-scaled\"], fill_value=\"extrapolate\")\n        self.m_i = self.m_scaled_func(p_i)\n        self.alpha = interp1d(\n            pvt_props[\"m-scaled\"],\n            pvt_props[\"alpha\"],\n            fill_value=(min(pvt_props[\"alpha\"]), max(pvt_props[\"alpha\"])),\n            bounds_error=False,\n        )\n        self.pvt_props = pvt_props\n\n    def __repr__")]),
        ("alpha-precedence", M, [(FPF, "            pvt_props[\"alpha\"] = 1 / (  # mypy: ignore\n                pvt_props[\"compressibility\"] * pvt_props[\"viscosity\"]\n            )\n        pvt_props[\"m-scaled\"] = pvt_props[\"pseudopressure\"] * m_scaling_factor", "            pvt_props[\"alpha\"] = 1 / pvt_props[\"compressibility\"] * pvt_props[\"viscosity\"]\n        pvt_props[\"m-scaled\"] = pvt_props[\"pseudopressure\"] * m_scaling_factor")]),
        ("rescale-denominator", M, [(FPF, "        pseudopressure(p_i) - pseudopressure(p_frac)\n    )", "        pseudopressure(p_i)\n    )")]),
        ("validation-weakened", M, [(FPF, "            \"z-factor\",\n        }\n        need_cols_short", "        }\n        need_cols_short")]),
        ("dict-copy", T, [(FPF, "        pvt_props = copy.copy(pvt_props)\n        need_cols_long", "        pvt_props = dict(pvt_props)\n        need_cols_long")]),
        ("alpha-product", T, [(FPF, "            pvt_props[\"alpha\"] = 1 / (  # mypy: ignore\n                pvt_props[\"compressibility\"] * pvt_props[\"viscosity\"]\n            )\n        pvt_props[\"m-scaled\"] = pvt_props[\"pseudopressure\"] * m_scaling_factor", "            pvt_props[\"alpha\"] = 1 / pvt_props[\"compressibility\"] / pvt_props[\"viscosity\"]\n        pvt_props[\"m-scaled\"] = pvt_props[\"pseudopressure\"] * m_scaling_factor")]),
    ],
    "C10": [
        ("invalidation-removed", M, [(RES, "        self.time = time\n        if hasattr(self, \"recovery\"):\n            del self.recovery  # cached recovery belongs to the previous simulation\n        x = np.linspace", "        self.time = time\n        x = np.linspace")]),
        ("invalidation-on-arm", M, [(RES, "        self.time = time\n        if hasattr(self, \"recovery\"):\n            del self.recovery  # cached recovery belongs to the previous simulation\n        dx_squared = (1 / self.nx) ** 2", "        self.time = time\n        if hasattr(self, \"recovery\") and pressure_fracface is not None:\n            del self.recovery  # cached recovery belongs to the previous simulation\n        dx_squared = (1 / self.nx) ** 2")]),
        ("nx-written", M, [(RES, "        self.time = time\n        if hasattr(self, \"recovery\"):\n            del self.recovery  # cached recovery belongs to the previous simulation\n        x = np.linspace", "        self.time = time\n        self.nx = max(self.nx, 3)\n        if hasattr(self, \"recovery\"):\n            del self.recovery  # cached recovery belongs to the previous simulation\n        x = np.linspace")]),
        ("time-conditional", M, [(RES, "        self.time = time\n        if hasattr(self, \"recovery\"):\n            del self.recovery  # cached recovery belongs to the previous simulation\n        x = np.linspace", "        if len(time) > 1:\n            self.time = time\n        if hasattr(self, \"recovery\"):\n            del self.recovery  # cached recovery belongs to the previous simulation\n        x = np.linspace")]),
        ("schedule-stored", M, [(RES, "                raise ValueError(msg)\n        m_i = self.fluid.m_i", "                raise ValueError(msg)\n            self.pressure_fracface = pressure_fracface\n        m_i = self.fluid.m_i")]),
        ("dict-pop", T, [(RES, "        self.time = time\n        if hasattr(self, \"recovery\"):\n            del self.recovery  # cached recovery belongs to the previous simulation\n        x = np.linspace", "        self.time = time\n        self.__dict__.pop(\"recovery\", None)\n        x = np.linspace")]),
        ("invalidate-first", T, [(RES, "        self.time = time\n        if hasattr(self, \"recovery\"):\n            del self.recovery  # cached recovery belongs to the previous simulation\n        dx_squared = (1 / self.nx) ** 2", "        if hasattr(self, \"recovery\"):\n            del self.recovery\n        self.time = time\n        dx_squared = (1 / self.nx) ** 2")]),
    ],
    "C11": [
        ("dtype-removed", M, [(OIL, "        fvf_oil = np.empty_like(pressure, dtype=np.float64)", "        fvf_oil = np.empty_like(pressure)")]),
        ("dtype-inherited", M, [(OIL, "        fvf_oil = np.empty_like(pressure, dtype=np.float64)", "        fvf_oil = np.empty_like(pressure, dtype=pressure.dtype)")]),
        ("mask-gap", M, [(OIL, "        fvf_oil[pressure >= pressure_bubblepoint] = fvf_bubblepoint", "        fvf_oil[pressure > pressure_bubblepoint] = fvf_bubblepoint")]),
        ("array-arm-differs", M, [(OIL, "            solution_gor[pressure < pressure_bubblepoint],\n        )", "            solution_gor_initial,\n        )")]),
        ("input-modified", M, [(OIL, "    reduced_pressure = pressure / pressure_bubblepoint", "    pressure /= pressure_bubblepoint\n    reduced_pressure = pressure")]),
        ("fluid-wrong-field", M, [(FLU, "        return viscosity_water_McCain(self.temperature, pressure, self.salinity)", "        return viscosity_water_McCain(self.temperature, pressure, self.water_saturation_initial)")]),
        ("empty-shape", T, [(OIL, "        fvf_oil = np.empty_like(pressure, dtype=np.float64)", "        fvf_oil = np.empty(np.shape(pressure))")]),
        ("mask-hoisted", T, [(OIL, "        solution_gor = np.full_like(pressure, solution_gor_initial, dtype=np.float64)\n        solution_gor[pressure < pressure_bubblepoint] = gor_belowbubble(\n            pressure[pressure < pressure_bubblepoint]\n        )", "        saturated = pressure < pressure_bubblepoint\n        solution_gor = np.full_like(pressure, solution_gor_initial, dtype=np.float64)\n        solution_gor[saturated] = gor_belowbubble(pressure[saturated])")]),
    ],
    "C12": [
        ("viscosity-strict", M, [(OIL, "    if pressure >= pressure_bubblepoint:\n        mu_o_dead", "    if pressure > pressure_bubblepoint:\n        mu_o_dead")]),
        ("gor-exponent", M, [(OIL, ") ** (1 / 0.83)\n        return gor", ") ** (1 / 0.8)\n        return gor")]),
        ("gor-temperature-constant", M, [(OIL, "10 ** (0.0125 * api_gravity - 0.00091 * temperature)\n        ) ** (1 / 0.83)", "10 ** (0.0125 * api_gravity - 0.0091 * temperature)\n        ) ** (1 / 0.83)")]),
        ("gor-offset", M, [(OIL, "            (pressure / 18.2 + 1.4) * 10 ** (0.0125 * api_gravity - 0.00091 * temperature)\n        ) ** (1 / 0.83)", "            (pressure / 18.2 + 1.5) * 10 ** (0.0125 * api_gravity - 0.00091 * temperature)\n        ) ** (1 / 0.83)")]),
        ("bo-jump", M, [(OIL, "            fvf_oil = fvf_bubblepoint * np.exp(\n                compressibility_undersat * (pressure_bubblepoint - pressure)\n            )", "            fvf_oil = 1.01 * fvf_bubblepoint * np.exp(\n                compressibility_undersat * (pressure_bubblepoint - pressure)\n            )")]),
        ("mask-strict", M, [(OIL, "        fvf_oil[pressure >= pressure_bubblepoint] = fvf_bubblepoint", "        fvf_oil[pressure > pressure_bubblepoint] = fvf_bubblepoint")]),
        ("gor-rewritten", T, [(OIL, "        gor = gas_specific_gravity * (\n            (pressure / 18.2 + 1.4) * 10 ** (0.0125 * api_gravity - 0.00091 * temperature)\n        ) ** (1 / 0.83)", "        gor = gas_specific_gravity * (\n            (pressure / 18.2 + 1.4) / 10 ** (0.00091 * temperature - 0.0125 * api_gravity)\n        ) ** (100 / 83)")]),
    ],
    "C13": [
        ("water-factor-two", M, [(WAT, "- 2 * 2.25341e-10 * pressure", "- 2.25341e-10 * pressure")]),
        ("water-parent-only", M, [(WAT, "        - 1.72834e-13 * pressure**2 * temperature\n        - 3.58922e-7 * pressure", "        - 1.72834e-12 * pressure**2 * temperature\n        - 3.58922e-7 * pressure")]),
        ("dgor-exponent", M, [(OIL, "            * (pressure / 18.2 + 1.4) ** (1 / 0.83 - 1)\n            * (10 ** ((0.0125", "            * (pressure / 18.2 + 1.4) ** (1 / 0.83)\n            * (10 ** ((0.0125")]),
        ("dgor-nonzero-above", M, [(OIL, "        d_gor = 0.0", "        d_gor = 1e-9")]),
        ("dbo-exponent", M, [(OIL, "        * (solution_gor_initial * sqrt_gravity_ratio + 1.25 * temperature) ** 0.2", "        * (solution_gor_initial * sqrt_gravity_ratio + 1.25 * temperature) ** 0.25")]),
        ("assembly-sign", M, [(OIL, "(b_g - dBo_dGOR)", "(b_g + dBo_dGOR)")]),
        ("branch-strict", M, [(OIL, "    if pressure >= pressure_bp:", "    if pressure > pressure_bp:")]),
        ("inline-copy-drift", M, [(OIL, "            / 0.83\n            * (pressure / 18.2 + 1.4) ** (1 / 0.83 - 1)\n            / 18.2", "            / 0.83\n            * (pressure / 18.2 + 1.4) ** (1 / 0.83 - 1)\n            / 18.3")]),
        ("dgor-rewritten", T, [(OIL, "            / (0.83 * 18.2)", "            / 0.83 / 18.2")]),
        ("dgor-power-form", T, [(OIL, "            * (10 ** ((0.0125 * api_gravity - 0.00091 * temperature) / 0.83))", "            * ((10 ** (0.0125 * api_gravity - 0.00091 * temperature)) ** (1 / 0.83))")]),
    ],
    "C14": [
        ("clip-two-phases", M, [(FPF, "    Sg_normalized = np.clip((saturations[\"Sg\"] - params.S_gc) / denominator, 0, 1)", "    Sg_normalized = (saturations[\"Sg\"] - params.S_gc) / denominator")]),
        ("clip-lower-only", M, [(FPF, "    So_normalized = np.clip((saturations[\"So\"] - params.S_or) / denominator, 0, 1)", "    So_normalized = np.clip((saturations[\"So\"] - params.S_or) / denominator, 0, None)")]),
        ("exponent-bound", M, [(FPF, "    if max(params.n_o, params.n_g, params.n_w) > 6:", "    if max(params.n_o, params.n_g, params.n_w) > 8:")]),
        ("residual-two-of-three", M, [(FPF, "    if min(params.S_or, params.S_wc, params.S_gc) < 0:", "    if min(params.S_or, params.S_wc) < 0:")]),
        ("wrong-residual", M, [(FPF, "    Sw_normalized = np.clip((saturations[\"Sw\"] - params.S_wc) / denominator, 0, 1)", "    Sw_normalized = np.clip((saturations[\"Sw\"] - params.S_or) / denominator, 0, 1)")]),
        ("twophase-sg", M, [(FPF, "            \"Sg\": np.linspace(1 - Sw, 0, 50),", "            \"Sg\": np.linspace(1, 0, 50),")]),
        ("min-max-clamp", T, [(FPF, "    So_normalized = np.clip((saturations[\"So\"] - params.S_or) / denominator, 0, 1)", "    So_normalized = np.minimum(np.maximum((saturations[\"So\"] - params.S_or) / denominator, 0), 1)")]),
    ],
    "C15": [
        ("xy-swapped", M, [(FPF, "    pseudopressure = cumulative_trapezoid(integrand, pressure, initial=0)", "    pseudopressure = cumulative_trapezoid(pressure, integrand, initial=0)")]),
        ("wrapper-gets-alpha", M, [(FPF, "                    \"pseudopressure\": pseudopressure,", "                    \"pseudopressure\": alpha_calc,")]),
        ("columns-swapped", M, [(FPF, "        pseudopressure = pseudopressure_threephase(pvt_props[\"pressure\"], pvt_props[\"So\"], pvt, kr)", "        pseudopressure = pseudopressure_threephase(pvt_props[\"So\"], pvt_props[\"pressure\"], pvt, kr)")]),
        ("initial-dropped", M, [(FPF, "    pseudopressure = cumulative_trapezoid(integrand, pressure, initial=0)", "    pseudopressure = cumulative_trapezoid(integrand, pressure)")]),
        ("kr-abscissa", M, [(FPF, "        kr = {fluid: interp1d(kr_props[\"So\"], kr_props[fluid]) for fluid in (\"kro\", \"krg\", \"krw\")}", "        kr = {fluid: interp1d(kr_props[\"Sg\"], kr_props[fluid]) for fluid in (\"kro\", \"krg\", \"krw\")}")]),
        ("keywords", T, [(FPF, "    pseudopressure = cumulative_trapezoid(integrand, pressure, initial=0)", "    pseudopressure = cumulative_trapezoid(y=integrand, x=pressure, initial=0)")]),
        ("via-sibling", T, [(FPF, "    integrand = lambda_oil + lambda_gas + lambda_water\n    pseudopressure = cumulative_trapezoid", "    integrand = lambda_combined_func(pressure, So, pvt, kr)\n    pseudopressure = cumulative_trapezoid")]),
    ],
    "C16": [
        ("sign-flipped", M, [(FPF, "            - So / pvt[\"Bo\"](pressure - 0.5)", "            + So / pvt[\"Bo\"](pressure - 0.5)")]),
        ("step-mismatch", M, [(FPF, "            - pvt[\"Rs\"](pressure - 0.5) * So / pvt[\"Bo\"](pressure - 0.5)", "            - pvt[\"Rs\"](pressure - 0.25) * So / pvt[\"Bo\"](pressure - 0.5)")]),
        ("phi-dropped", M, [(FPF, "phi * pvt[\"rho_w0\"] * (Sw / pvt[\"Bw\"](pressure + 0.5)", "pvt[\"rho_w0\"] * (Sw / pvt[\"Bw\"](pressure + 0.5)")]),
        ("sg-without-sw", M, [(FPF, "    Sg = 1 - So - Sw\n    oil_cp", "    Sg = 1 - So\n    oil_cp")]),
        ("alpha-inverted", M, [(FPF, "    return lambda_combined / compressibility_combined", "    return compressibility_combined / lambda_combined")]),
        ("args-transposed", M, [(FPF, "compressibility_combined_func(pressure, So, phi, Sw, pvt)", "compressibility_combined_func(pressure, Sw, phi, So, pvt)")]),
        ("helper-storage", T, [(FPF, "    water_cp = (\n        phi * pvt[\"rho_w0\"] * (Sw / pvt[\"Bw\"](pressure + 0.5) - Sw / pvt[\"Bw\"](pressure - 0.5))\n    )", "    water_cp = phi * Sw * pvt[\"rho_w0\"] * (1 / pvt[\"Bw\"](pressure + 0.5) - 1 / pvt[\"Bw\"](pressure - 0.5))")]),
    ],
    "C17": [
        ("absolute-time", M, [(RES, "            mesh_ratio = (time[i + 1] - time[i]) / dx_squared\n            alpha_scaled = self.alpha_scaled(b)", "            mesh_ratio = time[i + 1] / dx_squared\n            alpha_scaled = self.alpha_scaled(b)")]),
        ("length-guard-weak", M, [(RES, "            if len(pressure_fracface) != len(time):", "            if len(pressure_fracface) < len(time):")]),
        ("no-runtime-error", M, [(RES, "                msg = \"Need to run simulate before calculating recovery factor\"\n                raise RuntimeError(msg) from e", "                return None")]),
        ("fill-first", M, [(RES, "fill_value=(0, recovery[-1])", "fill_value=(0, recovery[0])")]),
        ("fill-extrapolate", M, [(RES, "time, recovery, bounds_error=False, fill_value=(0, recovery[-1])", "time, recovery, bounds_error=False, fill_value=\"extrapolate\"")]),
        ("initial-uses-scalar", M, [(RES, "        pseudopressure_initial[0] = m_f[0]", "        pseudopressure_initial[0] = self.fluid.m_scaled_func(self.pressure_fracface)")]),
        ("dt-array", T, [(RES, "            mesh_ratio = (time[i + 1] - time[i]) / dx_squared\n            alpha_scaled = self.alpha_scaled(b)", "            step = time[i + 1] - time[i]\n            mesh_ratio = step / dx_squared\n            alpha_scaled = self.alpha_scaled(b)")]),
    ],
    "C18": [
        ("objective-sign", M, [(FCP, "    return resource_in_place * recovery_factor - production", "    return production - resource_in_place * recovery_factor * 2")]),
        ("time-times-tau", M, [(FCP, "    t = days / tau", "    t = days * tau")]),
        ("density-recovery", M, [(FCP, "    recovery_factor = res_realgasM.recovery_factor()\n    return resource_in_place", "    recovery_factor = res_realgasM.recovery_factor(density=True)\n    return resource_in_place")]),
        ("pinit-min", M, [(FCP, "            min=max(pressure_fracface),", "            min=min(pressure_fracface),")]),
        ("fcn-args-swapped", M, [(FCP, "        fcn_args=(time, cumulative_prod, pvt_table, pressure_fracface),", "        fcn_args=(cumulative_prod, time, pvt_table, pressure_fracface),")]),
        ("mask-nonstrict", M, [(FCP, "        prod_data = prod_data[(prod_data[\"Gas\"] > 0) & (pd.notna(prod_data[\"Pressure\"]))][\n            [\"Days\", \"Gas\", \"Pressure\"]\n        ]\n    else:\n        prod_data = prod_data[[\"Days\", \"Gas\", \"Pressure\"]]\n\n    time = np.arange(0, len(prod_data[\"Days\"]))", "        prod_data = prod_data[(prod_data[\"Gas\"] >= 0) & (pd.notna(prod_data[\"Pressure\"]))][\n            [\"Days\", \"Gas\", \"Pressure\"]\n        ]\n    else:\n        prod_data = prod_data[[\"Days\", \"Gas\", \"Pressure\"]]\n\n    time = np.arange(0, len(prod_data[\"Days\"]))")]),
        ("filter-on-gas", M, [(FCP, "    cumulative_prod = np.cumsum(np.array(prod_data[\"Gas\"]))\n\n    if params is None:", "    cumulative_prod = np.cumsum(sp.ndimage.uniform_filter1d(np.array(prod_data[\"Gas\"]), size=3))\n\n    if params is None:")]),
        ("objective-reordered", T, [(FCP, "    return resource_in_place * recovery_factor - production", "    return -production + recovery_factor * resource_in_place")]),
    ],
    "C19": [
        ("salinity-dropped", M, [(FLU, "        return viscosity_water_McCain(self.temperature, pressure, self.salinity)", "        return viscosity_water_McCain(self.temperature, pressure, self.water_saturation_initial)")]),
        ("gravities-swapped", M, [(FLU, "        fvf_oil = b_o_Standing(\n            self.temperature,\n            pressure,\n            self.api_gravity,\n            self.gas_specific_gravity,", "        fvf_oil = b_o_Standing(\n            self.temperature,\n            pressure,\n            self.gas_specific_gravity,\n            self.api_gravity,")]),
        ("unpack-order", M, [(FLU, "    temperature_pc, pressure_pc = pseudocritical_point_Sutton(", "    pressure_pc, temperature_pc = pseudocritical_point_Sutton(")]),
        ("grid-from-zero", M, [(FLU, "    pressure = np.arange(10.0, maximum_pressure, 10.0)", "    pressure = np.arange(0.0, maximum_pressure, 10.0)")]),
        ("viscosity-from-density", M, [(FLU, "            viscosity_Sutton(\n                temperature,\n                p,\n                temperature_pc,\n                pressure_pc,\n                float(gas_values[\"Gas Specific Gravity\"]),\n            )\n            for p in pressure\n        ]\n    )\n    compressibility", "            density_DAK(\n                temperature,\n                p,\n                temperature_pc,\n                pressure_pc,\n                float(gas_values[\"Gas Specific Gravity\"]),\n            )\n            for p in pressure\n        ]\n    )\n    compressibility")]),
        ("epsilon-row", M, [(GAS, "        120 * (fraction[2] + fraction[1]) ** 0.9", "        120 * (fraction[2] + fraction[0]) ** 0.9")]),
        ("any-fluid-accepted", M, [(GAS, "    if fluid not in (\"dry gas\", \"wet gas\"):\n        msg = f\"fluid must be one of ('dry gas','wet gas'), not {fluid}\"\n        raise ValueError(msg)\n", "")]),
        ("keyword-call", T, [(FLU, "        return viscosity_water_McCain(self.temperature, pressure, self.salinity)", "        return viscosity_water_McCain(temperature=self.temperature, salinity=self.salinity, pressure=pressure)")]),
    ],
    "C20": [
        ("root-quarter", M, [(PLT, "            return np.array(a) ** 0.5", "            return np.array(a) ** 0.25")]),
        ("inverted-self", M, [(PLT, "            return SquareRootScale.InvertedSquareRootTransform()", "            return SquareRootScale.SquareRootTransform()")]),
        ("xy-swapped", M, [(PLT, "    ax.plot(time, rf, label=\"Recovery factor\", **plot_kwargs)", "    ax.plot(rf, time, label=\"Recovery factor\", **plot_kwargs)")]),
        ("gradient-swapped", M, [(PLT, "    rate = np.gradient(cumulative, reservoir.time)", "    rate = np.gradient(reservoir.time, cumulative)")]),
        ("every-offset", M, [(PLT, "        if i % every == 0:", "        if i % every == 1:")]),
        ("rescale-denominator", M, [(PLT, "                pscale = (p - p[0]) / (pinit - p[0])", "                pscale = (p - p[0]) / pinit")]),
        ("production-times-m", M, [(FCP, "    ax1.plot(time / tau, cumulative_prod / resource_in_place, label=well_name)", "    ax1.plot(time / tau, cumulative_prod * resource_in_place, label=well_name)")]),
        ("sqrt-call", T, [(PLT, "            return np.array(a) ** 0.5", "            return np.sqrt(np.array(a))")]),
    ],
}
