"""Equivalence driver for bluebonnet.forecast.forecast (Bounds, ForecasterOnePhase)."""

from __future__ import annotations

import itertools
import sys
import warnings

import numpy as np

from bluebonnet.flow import IdealReservoir
from bluebonnet.forecast import Bounds, ForecasterOnePhase
from bluebonnet.forecast import forecast as forecast_module

warnings.simplefilter("ignore")
out = []


def fmt(x):
    if isinstance(x, np.ndarray):
        return (
            f"ndarray{x.shape}{x.dtype}["
            + ",".join(repr(float(v)) for v in x.ravel())
            + "]"
        )
    if isinstance(x, (np.floating, np.integer)):
        return f"{type(x).__name__}:{x!r}"
    if isinstance(x, (list, tuple)):
        return type(x).__name__ + "(" + ",".join(fmt(v) for v in x) + ")"
    return f"{type(x).__name__}:{x!r}"


def record(label, func):
    try:
        res = func()
        out.append(f"{label} -> {fmt(res)}")
    except Exception as e:  # noqa: BLE001
        out.append(f"{label} !! {type(e).__name__}: {e}")


# ---------------------------------------------------------------- Bounds
pairs = [
    (0, 1),
    (2, 3),
    (1, 0),
    (1, 1),
    (0, np.inf),
    (1e-10, np.inf),
    (-np.inf, np.inf),
    (np.nan, 1.0),
    (1.0, np.nan),
    (1,),
    (1, 2, 3),
    (),
    [0.5, 7.5],
    np.array([1.0, 4.0]),
    np.array([4.0, 1.0]),
    "ab",
    "ba",
    5,
    None,
    ("a", 1),
]
for m, t in itertools.product(pairs, pairs):
    record(f"Bounds(M={m!r},tau={t!r})", lambda m=m, t=t: repr(Bounds(M=m, tau=t)))
    record(
        f"Bounds(M={m!r},tau={t!r}).fit_bounds",
        lambda m=m, t=t: Bounds(M=m, tau=t).fit_bounds(),
    )
record("Bounds positional", lambda: repr(Bounds((0, 1), (20, 30))))
record("Bounds positional bad", lambda: repr(Bounds((0, 1), (20, 10))))
record("Bounds missing", lambda: Bounds((0, 1)))
record("default bounds", lambda: repr(forecast_module._default_bounds))
record("Bounds eq", lambda: Bounds((0, 1), (2, 3)) == Bounds((0, 1), (2, 3)))


def frozen():
    b = Bounds((0, 1), (2, 3))
    b.M = (1, 2)


record("Bounds frozen", frozen)

good_bounds = [
    Bounds(M=(0, 1), tau=(2, 3)),
    Bounds(M=(10.0, 20.0), tau=(1.0, 5.0)),
    Bounds(M=(0, np.inf), tau=(1e-10, np.inf)),
    Bounds(M=(-np.inf, np.inf), tau=(-np.inf, np.inf)),
    Bounds(M=(-5, -1), tau=(-3.0, 7.0)),
    Bounds(M=[1, 3], tau=[2, 8]),
]
guess_vals = [-10.0, -1, 0, 0.5, 1, 2, 2.5, 3, 5, 10.0, 15, 20.0, 25.0, np.inf, -np.inf, np.nan]
for ib, b in enumerate(good_bounds):
    for g0 in guess_vals:
        record(f"regularize[{ib}]([{g0!r}])", lambda b=b, g0=g0: b.regularize_initial_guess([g0]))
        for g1 in guess_vals:
            record(
                f"regularize[{ib}]([{g0!r},{g1!r}])",
                lambda b=b, g0=g0, g1=g1: b.regularize_initial_guess([g0, g1]),
            )
    record(f"regularize[{ib}] len3", lambda b=b: b.regularize_initial_guess([100.0, 100.0, 100.0]))
    record(f"regularize[{ib}] empty", lambda b=b: b.regularize_initial_guess([]))
    record(f"regularize[{ib}] tuple", lambda b=b: b.regularize_initial_guess((100.0, 100.0)))
    record(f"regularize[{ib}] tuple ok", lambda b=b: b.regularize_initial_guess((b.M[0], b.tau[0])))
    record(
        f"regularize[{ib}] ndarray",
        lambda b=b: b.regularize_initial_guess(np.array([100.0, -100.0])),
    )
    record(f"regularize[{ib}] str", lambda b=b: b.regularize_initial_guess(["a", 1.0]))

    def inplace(b=b):
        g = [1e9, -1e9]
        r = b.regularize_initial_guess(g)
        return [r is g, g]

    record(f"regularize[{ib}] inplace", inplace)


# ---------------------------------------------------------------- rf curves
def make_interp(nx, nt, t_end=6.0):
    ts = np.linspace(0, np.sqrt(t_end), nt) ** 2
    res = IdealReservoir(nx, 500.0, 5000.0, None)
    res.simulate(ts)
    res.recovery_factor()
    return ts, res.recovery_factor_interpolator()


ts_a, interp_a = make_interp(20, 300)
ts_b, interp_b = make_interp(3, 12)


def analytic(t):
    return 1.0 - np.exp(-np.sqrt(np.abs(t)))


def raising(t):
    msg = "bad curve"
    raise RuntimeError(msg)


curves = {"interp_a": interp_a, "interp_b": interp_b, "analytic": analytic}

# ---------------------------------------------------------------- forecast_cum
times = {
    "grid": ts_a[::25],
    "scalar": 1.5,
    "zero": 0.0,
    "int": 2,
    "len1": np.array([0.7]),
    "len2": np.array([0.0, 3.0]),
    "2d": np.array([[0.1, 0.2], [0.3, 0.4]]),
    "list": [0.1, 0.2],
    "neg": np.array([-1.0, 0.5]),
    "nan": np.array([np.nan, 0.5]),
    "big": np.array([1e6]),
    "empty": np.array([]),
    "none": None,
    "str": "abc",
}
for cn, curve in curves.items():
    for tn, t in times.items():
        for M, tau in [
            (300.0, 3.0),
            (1.0, 1.0),
            (0.0, 2.0),
            (-2.0, 0.5),
            (5.0, 0.0),
            (5.0, -1.0),
            (np.inf, 1.0),
            (2.0, np.inf),
            (np.nan, 1.0),
            (7, 2),
            (np.array([1.0, 2.0]), 2.0),
            (2.0, np.array([1.0, 2.0])),
            ("a", 1.0),
            (1.0, "a"),
        ]:
            record(
                f"forecast_cum[{cn}]({tn},M={M!r},tau={tau!r})",
                lambda curve=curve, t=t, M=M, tau=tau: ForecasterOnePhase(curve).forecast_cum(
                    t, M, tau
                ),
            )
            record(
                f"forecast_cum kw[{cn}]({tn},M={M!r},tau={tau!r})",
                lambda curve=curve, t=t, M=M, tau=tau: ForecasterOnePhase(curve).forecast_cum(
                    time_on_production=t, tau=tau, M=M
                ),
            )
        # unfitted defaults -> AttributeError order
        record(
            f"forecast_cum unfit[{cn}]({tn})",
            lambda curve=curve, t=t: ForecasterOnePhase(curve).forecast_cum(t),
        )
        record(
            f"forecast_cum unfit M only[{cn}]({tn})",
            lambda curve=curve, t=t: ForecasterOnePhase(curve).forecast_cum(t, M=2.0),
        )
        record(
            f"forecast_cum unfit tau only[{cn}]({tn})",
            lambda curve=curve, t=t: ForecasterOnePhase(curve).forecast_cum(t, tau=2.0),
        )

        def preset(curve=curve, t=t):
            f = ForecasterOnePhase(curve)
            f.M_ = 11.0
            f.tau_ = 2.5
            return [
                f.forecast_cum(t),
                f.forecast_cum(t, M=3.0),
                f.forecast_cum(t, tau=4.0),
                f.forecast_cum(t, 0, 0.5),
                f.forecast_cum(t, None, None),
            ]

        record(f"forecast_cum preset[{cn}]({tn})", preset)

        def preset_partial(curve=curve, t=t):
            f = ForecasterOnePhase(curve)
            f.tau_ = 2.5
            return f.forecast_cum(t)

        record(f"forecast_cum only tau_ set[{cn}]({tn})", preset_partial)

record("forecast_cum raising curve", lambda: ForecasterOnePhase(raising).forecast_cum(1.0, 1.0, 1.0))
record("forecast_cum curve None", lambda: ForecasterOnePhase(None).forecast_cum(1.0, 1.0, 1.0))
record("Forecaster no curve", lambda: ForecasterOnePhase())
record("Forecaster repr", lambda: repr(ForecasterOnePhase(analytic, Bounds((0, 1), (2, 3))).bounds))
record(
    "Forecaster default bounds identity",
    lambda: ForecasterOnePhase(analytic).bounds is forecast_module._default_bounds,
)


# ---------------------------------------------------------------- fit
def state(f):
    d = dict(vars(f))
    keys = sorted(d)
    res = []
    for k in keys:
        v = d[k]
        if callable(v) or isinstance(v, Bounds):
            res.append(f"{k}=<{type(v).__name__}>")
        else:
            res.append(f"{k}={fmt(v)}")
    return keys, res


def run_fit(curve, bounds, t, cum, tau, how):
    f = ForecasterOnePhase(curve) if bounds is None else ForecasterOnePhase(curve, bounds)
    if how == "pos":
        ret = f.fit(t, cum) if tau is None else f.fit(t, cum, tau)
    elif how == "kw":
        ret = f.fit(cum_production=cum, time_on_production=t, tau=tau)
    else:
        ret = f.fit(t, cum, tau=tau)
    keys, st = state(f)
    same = [f.time_on_production is t, f.cum_production is cum]
    fc = f.forecast_cum(t)
    fc2 = f.forecast_cum(t, tau=f.tau_ * 2)
    return [repr(ret), keys, st, same, fmt(fc), fmt(fc2)]


def fail_state(curve, bounds, t, cum, tau):
    """State of the instance after a failing / passing fit (which attributes exist)."""
    f = ForecasterOnePhase(curve) if bounds is None else ForecasterOnePhase(curve, bounds)
    try:
        f.fit(t, cum, tau)
    except Exception as e:  # noqa: BLE001
        return [type(e).__name__, str(e), sorted(vars(f))]
    return ["ok", sorted(vars(f))]


datasets = {}
tt = ts_a
datasets["ideal_full"] = (tt, 300.0 * interp_a(tt / 3.0))
datasets["ideal_sub"] = (tt[::15], 300.0 * interp_a(tt[::15] / 3.0))
datasets["ideal_short_tau"] = (tt[::15], 40.0 * interp_a(tt[::15] / 0.5))
datasets["len1"] = (np.array([2.0]), np.array([10.0]))
datasets["len2"] = (np.array([1.0, 2.0]), np.array([6.0, 8.0]))
datasets["len3"] = (np.array([0.5, 1.0, 2.0]), np.array([4.0, 6.0, 8.0]))
datasets["lists"] = ([0.5, 1.0, 2.0, 4.0], [4.0, 6.0, 8.0, 9.0])
datasets["zeros"] = (np.array([0.0, 1.0, 2.0]), np.array([0.0, 0.0, 0.0]))
datasets["negcum"] = (np.array([0.5, 1.0, 2.0]), np.array([-4.0, -6.0, -8.0]))
datasets["nan"] = (np.array([0.5, 1.0, 2.0]), np.array([4.0, np.nan, 8.0]))
datasets["mismatch"] = (np.array([0.5, 1.0, 2.0]), np.array([4.0, 8.0]))
datasets["empty"] = (np.array([]), np.array([]))
datasets["empty_cum"] = (np.array([1.0, 2.0]), np.array([]))
datasets["empty_time"] = (np.array([]), np.array([1.0, 2.0]))
datasets["scalar"] = (1.0, 2.0)
datasets["none"] = (None, None)
datasets["noisy"] = (
    tt[::10],
    120.0 * analytic(tt[::10] / 2.0) * (1 + 0.01 * np.sin(np.arange(len(tt[::10])))),
)

bounds_opts = {
    "default": None,
    "tight": Bounds(M=(50.0, 200.0), tau=(0.2, 2.0)),
    "wide": Bounds(M=(1e-3, 1e6), tau=(1e-3, 1e3)),
    "low": Bounds(M=(0.0, 5.0), tau=(1e-3, 0.4)),
    "high": Bounds(M=(1e4, 1e5), tau=(50.0, 100.0)),
    "unbounded": Bounds(M=(-np.inf, np.inf), tau=(-np.inf, np.inf)),
}
tau_opts = [None, 3.0, 0.5, 1e3, 1e-12, 0.0, -1.0, np.nan, 2, "a"]

for cn, curve in curves.items():
    for dn, (t, cum) in datasets.items():
        for bn, b in bounds_opts.items():
            for tau in tau_opts:
                if cn != "interp_a" and (bn not in ("default", "tight") or tau not in (None, 3.0, 0.0)):
                    continue
                for how in ("pos", "kw", "mixed"):
                    if how != "pos" and dn not in ("ideal_sub", "len2", "empty"):
                        continue
                    record(
                        f"fit[{cn},{dn},{bn},tau={tau!r},{how}]",
                        lambda curve=curve, b=b, t=t, cum=cum, tau=tau, how=how: run_fit(
                            curve, b, t, cum, tau, how
                        ),
                    )
                record(
                    f"fit-state[{cn},{dn},{bn},tau={tau!r}]",
                    lambda curve=curve, b=b, t=t, cum=cum, tau=tau: fail_state(curve, b, t, cum, tau),
                )

for tau in (None, 2.0):
    record(f"fit raising curve tau={tau}", lambda tau=tau: fail_state(raising, None, *datasets["len3"], tau))
    record(f"fit None curve tau={tau}", lambda tau=tau: fail_state(None, None, *datasets["len3"], tau))


# refit the same instance: free tau then fixed tau and back
def refit():
    f = ForecasterOnePhase(interp_a)
    t, cum = datasets["ideal_sub"]
    res = []
    f.fit(t, cum)
    res.append([f.M_, f.tau_])
    f.fit(t, cum, tau=2.0)
    res.append([f.M_, f.tau_])
    f.fit(t, cum, None)
    res.append([f.M_, f.tau_])
    res.append(f.forecast_cum(t[:3]))
    return res


record("refit", refit)


# the initial guess handed to the bounds object (call pattern seen by a user-supplied Bounds)
class SpyBounds(Bounds):
    def regularize_initial_guess(self, guess):
        out.append(f"spy regularize {type(guess).__name__} {fmt(list(guess))}")
        return super().regularize_initial_guess(guess)

    def fit_bounds(self):
        out.append("spy fit_bounds")
        return super().fit_bounds()


for tau in (None, 1.5):
    for dn in ("ideal_sub", "len2", "empty", "empty_time", "empty_cum"):
        t, cum = datasets[dn]
        record(
            f"spy fit {dn} tau={tau}",
            lambda t=t, cum=cum, tau=tau: fail_state(
                interp_a, SpyBounds(M=(1.0, 400.0), tau=(0.1, 9.0)), t, cum, tau
            ),
        )


# rf_curve call pattern during forecast_cum
def spy_curve():
    calls = []

    def curve(t):
        calls.append(fmt(np.asarray(t)))
        return analytic(t)

    f = ForecasterOnePhase(curve)
    r = f.forecast_cum(np.array([1.0, 2.0, 4.0]), 3.0, 2.0)
    return [r, calls]


record("spy curve", spy_curve)

with open(sys.argv[1], "w") as fh:
    fh.write("\n".join(out) + "\n")
