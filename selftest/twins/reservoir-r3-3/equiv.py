"""Equivalence driver for bluebonnet.flow.reservoir (shared preamble)."""
from __future__ import annotations

import os
import sys
import warnings

import numpy as np
import pandas as pd

warnings.simplefilter("ignore")

from bluebonnet.flow import (  # noqa: E402
    FlowProperties,
    IdealReservoir,
    MultiPhaseReservoir,
    SinglePhaseReservoir,
    TwoPhaseReservoir,
)
from bluebonnet.flow import reservoir as resmod  # noqa: E402

DATA = os.environ.get("BB_DATA", "/tmp/twin3_reservoir/tests/data")
REN_GAS = {
    "P": "pressure",
    "Z-Factor": "z-factor",
    "Cg": "compressibility",
    "Viscosity": "viscosity",
    "Density": "density",
}
REN_OIL = {
    "P": "pressure",
    "Z-Factor": "z-factor",
    "Co": "compressibility",
    "Oil_Viscosity": "viscosity",
    "Oil_Density": "density",
}
pvt_gas = pd.read_csv(os.path.join(DATA, "pvt_gas.csv")).rename(columns=REN_GAS)
pvt_oil = pd.read_csv(os.path.join(DATA, "pvt_oil.csv")).rename(columns=REN_OIL)
FLUIDS = {"gas8000": FlowProperties(pvt_gas, 8000.0), "gas3000": FlowProperties(pvt_gas, 3000.0)}
try:
    FLUIDS["oil6000"] = FlowProperties(pvt_oil, 6000.0)
except Exception:  # the oil table may lack columns; gas alone is enough
    pass

OUT = []


def fmt(x):
    """Full-precision, deterministic text form of a result."""
    if x is None or isinstance(x, (str, bool)):
        return repr(x)
    if isinstance(x, (float, np.floating)):
        return repr(float(x))
    if isinstance(x, (int, np.integer)):
        return repr(int(x))
    if isinstance(x, np.ndarray):
        return f"nd{x.shape}{x.dtype}:" + repr(x.tolist())
    if isinstance(x, (list, tuple)):
        return "[" + ", ".join(fmt(v) for v in x) + "]"
    if isinstance(x, dict):
        return "{" + ", ".join(f"{k}: {fmt(v)}" for k, v in sorted(x.items())) + "}"
    return type(x).__name__


def run(label, func, anytype=False):
    """Record func() or the exception it raises (only 'EXC' when anytype)."""
    try:
        res = fmt(func())
    except Exception as e:  # noqa: BLE001
        res = "EXC" if anytype else "EXC:" + type(e).__name__
    OUT.append(f"{label} -> {res}")


def state(res):
    """Observable state of a reservoir object."""
    d = {}
    for k in ("time", "pseudopressure", "recovery"):
        if hasattr(res, k):
            v = getattr(res, k)
            d[k] = np.asarray(v) if isinstance(v, np.ndarray) else v
        else:
            d[k] = "<unset>"
    return d


TIMES = {
    "sq20": np.linspace(0, 2, 20) ** 2,
    "lin7": np.linspace(0, 0.5, 7),
    "one": np.array([0.0]),
    "two": np.array([0.0, 1e-3]),
    "nonmono": np.array([0.0, 1.0, 0.5, 2.0]),
    "long": np.linspace(0, 10, 60) ** 2,
}
CLASSES = {
    "Ideal": IdealReservoir,
    "Single": SinglePhaseReservoir,
    "Two": TwoPhaseReservoir,
}


def finish():
    with open(sys.argv[1], "w") as f:
        f.write("\n".join(OUT) + "\n")


# ---- twin3: logging / debug counters in simulate and recovery_factor ----
import io
import logging

gas = FLUIDS["gas8000"]
sink = logging.StreamHandler(io.StringIO())
liblog = logging.getLogger("bluebonnet.flow.reservoir")
for mode in ("default", "debug", "root-debug"):
    if mode == "debug":
        liblog.addHandler(sink)
        liblog.setLevel(logging.DEBUG)
    elif mode == "root-debug":
        liblog.removeHandler(sink)
        liblog.setLevel(logging.NOTSET)
        logging.getLogger().addHandler(sink)
        logging.getLogger().setLevel(logging.DEBUG)
    for cname, cls in CLASSES.items():
        for fname, fluid in FLUIDS.items():
            for tname, time in TIMES.items():
                for nx in (1, 2, 3, 10):
                    lab = f"{mode}/{cname}/{fname}/{tname}/nx{nx}"
                    res = cls(nx, 250.0, 8000.0, fluid)
                    run(lab + "/rf-early", lambda: res.recovery_factor())
                    run(lab + "/simulate", lambda: res.simulate(time))
                    run(lab + "/state", lambda: state(res))
                    run(lab + "/rf", lambda: res.recovery_factor())
                    run(lab + "/rf-density", lambda: res.recovery_factor(density=True))
                    run(lab + "/rf-time", lambda: res.recovery_factor(time, False))
                    run(lab + "/vars", lambda: sorted(vars(res)))
        # inputs that raise
        for lab2, nx, time in (
            ("nx0", 0, TIMES["lin7"]),
            ("nxneg", -2, TIMES["lin7"]),
            ("nxfloat", 2.5, TIMES["lin7"]),
            ("nxstr", "a", TIMES["lin7"]),
            ("tnone", 5, None),
            ("tempty", 5, np.array([])),
            ("tlist", 5, [0.0, 0.5, 1.5]),
            ("t2d", 5, np.ones((2, 2))),
        ):
            res = cls(nx, 250.0, 8000.0, gas)
            run(f"{mode}/{cname}/{lab2}/simulate", lambda: res.simulate(time))
            run(f"{mode}/{cname}/{lab2}/state", lambda: state(res))
    # pressure series, including one that overshoots the initial pseudopressure
    for pname, pf in (
        ("decline", np.linspace(2000.0, 200.0, 7)),
        ("rise", np.linspace(200.0, 7900.0, 7)),
        ("short", np.ones(3)),
        ("outside", np.full(7, 5e4)),
    ):
        res = SinglePhaseReservoir(7, 250.0, 8000.0, gas)
        run(f"{mode}/Single/pf-{pname}/simulate", lambda: res.simulate(TIMES["lin7"], pf))
        run(f"{mode}/Single/pf-{pname}/state", lambda: state(res))
        run(f"{mode}/Single/pf-{pname}/rf", lambda: res.recovery_factor())
    res = MultiPhaseReservoir(5, 100.0, 8000.0, gas)
    run(f"{mode}/Multi/simulate", lambda: res.simulate(TIMES["lin7"]))
    run(f"{mode}/build", lambda: resmod._build_matrix(np.array([0.5, 1.0, 2.0, 4.0])).toarray())
finish()
