"""Equivalence driver for bluebonnet.flow.reservoir (shared preamble)."""
from __future__ import annotations

import os
import sys
import warnings

import numpy as np
import pandas as pd

warnings.simplefilter("ignore")

from bluebonnet.flow import (  # noqa: E402
    FlowProperties,
    IdealReservoir,
    MultiPhaseReservoir,
    SinglePhaseReservoir,
    TwoPhaseReservoir,
)
from bluebonnet.flow import reservoir as resmod  # noqa: E402

DATA = os.environ.get("BB_DATA", "/tmp/twin3_reservoir/tests/data")
REN_GAS = {
    "P": "pressure",
    "Z-Factor": "z-factor",
    "Cg": "compressibility",
    "Viscosity": "viscosity",
    "Density": "density",
}
REN_OIL = {
    "P": "pressure",
    "Z-Factor": "z-factor",
    "Co": "compressibility",
    "Oil_Viscosity": "viscosity",
    "Oil_Density": "density",
}
pvt_gas = pd.read_csv(os.path.join(DATA, "pvt_gas.csv")).rename(columns=REN_GAS)
pvt_oil = pd.read_csv(os.path.join(DATA, "pvt_oil.csv")).rename(columns=REN_OIL)
FLUIDS = {"gas8000": FlowProperties(pvt_gas, 8000.0), "gas3000": FlowProperties(pvt_gas, 3000.0)}
try:
    FLUIDS["oil6000"] = FlowProperties(pvt_oil, 6000.0)
except Exception:  # the oil table may lack columns; gas alone is enough
    pass

OUT = []


def fmt(x):
    """Full-precision, deterministic text form of a result."""
    if x is None or isinstance(x, (str, bool)):
        return repr(x)
    if isinstance(x, (float, np.floating)):
        return repr(float(x))
    if isinstance(x, (int, np.integer)):
        return repr(int(x))
    if isinstance(x, np.ndarray):
        return f"nd{x.shape}{x.dtype}:" + repr(x.tolist())
    if isinstance(x, (list, tuple)):
        return "[" + ", ".join(fmt(v) for v in x) + "]"
    if isinstance(x, dict):
        return "{" + ", ".join(f"{k}: {fmt(v)}" for k, v in sorted(x.items())) + "}"
    return type(x).__name__


def run(label, func, anytype=False):
    """Record func() or the exception it raises (only 'EXC' when anytype)."""
    try:
        res = fmt(func())
    except Exception as e:  # noqa: BLE001
        res = "EXC" if anytype else "EXC:" + type(e).__name__
    OUT.append(f"{label} -> {res}")


def state(res):
    """Observable state of a reservoir object."""
    d = {}
    for k in ("time", "pseudopressure", "recovery"):
        if hasattr(res, k):
            v = getattr(res, k)
            d[k] = np.asarray(v) if isinstance(v, np.ndarray) else v
        else:
            d[k] = "<unset>"
    return d


TIMES = {
    "sq20": np.linspace(0, 2, 20) ** 2,
    "lin7": np.linspace(0, 0.5, 7),
    "one": np.array([0.0]),
    "two": np.array([0.0, 1e-3]),
    "nonmono": np.array([0.0, 1.0, 0.5, 2.0]),
    "long": np.linspace(0, 10, 60) ** 2,
}
CLASSES = {
    "Ideal": IdealReservoir,
    "Single": SinglePhaseReservoir,
    "Two": TwoPhaseReservoir,
}


def finish():
    with open(sys.argv[1], "w") as f:
        f.write("\n".join(OUT) + "\n")


# ---- twin5: frac-face gradient helper, named stencil constants, cumtrapz shim ----
gas = FLUIDS["gas8000"]
for cname, cls in CLASSES.items():
    for fname, fluid in FLUIDS.items():
        for tname, time in TIMES.items():
            for nx in (1, 2, 3, 4, 11, 30):
                for pf in (100.0, 4000.0):
                    lab = f"{cname}/{fname}/{tname}/nx{nx}/pf{pf}"
                    res = cls(nx, pf, 8000.0, fluid)
                    run(lab + "/rf-early", lambda: res.recovery_factor())
                    run(lab + "/rf-early-time", lambda: res.recovery_factor(time))
                    run(lab + "/simulate", lambda: res.simulate(time))
                    run(lab + "/rf", lambda: res.recovery_factor())
                    run(lab + "/recovery", lambda: state(res)["recovery"])
                    run(lab + "/rf-time", lambda: res.recovery_factor(time * 2.0))
                    run(lab + "/rf-density", lambda: res.recovery_factor(density=True))
                    run(lab + "/rf-again", lambda: res.recovery_factor(None, False))
                    run(lab + "/interp", lambda: res.recovery_factor_interpolator()(np.array([0.0, 0.01, 0.7, 99.0])))
# hand-made pseudopressure fields (users and the plotting/forecast code poke these attributes)
rng = np.random.default_rng(7)
FIELDS = {
    "random": rng.random((6, 5)),
    "ints": np.arange(30).reshape(6, 5),
    "float32": rng.random((6, 5)).astype(np.float32),
    "nan": np.where(rng.random((6, 5)) > 0.8, np.nan, 1.0),
    "inf": np.full((6, 5), np.inf),
    "huge": np.full((6, 5), 1e308),
    "threecol": rng.random((6, 3)),
    "twocol": rng.random((6, 2)),
    "onerow": rng.random((1, 5)),
    "norow": np.empty((0, 5)),
    "oned": rng.random(6),
    "threed": rng.random((6, 5, 2)),
    "list": rng.random((6, 5)).tolist(),
    "frame": pd.DataFrame(rng.random((6, 5))),
    "complex": rng.random((6, 5)) * (1 + 2j),
    "none": None,
}
TIME6 = np.array([0.0, 0.1, 0.3, 0.6, 1.0, 1.5])
for cname, cls in CLASSES.items():
    for fieldname, field in FIELDS.items():
        for nx in (5, 3.5, np.int64(5)):
            res = cls(nx, np.array([100.0, 200.0, 300.0, 400.0, 500.0, 600.0]) if nx == 3.5 else 100.0, 8000.0, gas)
            res.time = TIME6 if fieldname not in ("onerow", "norow") else TIME6[: np.shape(field)[0]]
            res.pseudopressure = field
            run(f"{cname}/field-{fieldname}/nx{nx!r}/rf", lambda: res.recovery_factor())
            run(f"{cname}/field-{fieldname}/nx{nx!r}/state", lambda: state(res)["recovery"])
    # time that does not match the stored field
    for tname, time in (("short", TIME6[:4]), ("twod", np.ones((6, 2))), ("list", TIME6.tolist()), ("none", None), ("str", "abc")):
        res = cls(5, 100.0, 8000.0, gas)
        res.pseudopressure = FIELDS["random"]
        res.time = time
        run(f"{cname}/badtime-{tname}/rf", lambda: res.recovery_factor())
    # odd node counts only matter through h_inv
    for nx in (1, 0, -4, 2.5, None, "a", True):
        res = cls(nx, 100.0, 8000.0, gas)
        res.pseudopressure = FIELDS["random"]
        res.time = TIME6
        run(f"{cname}/oddnx-{nx!r}/rf", lambda: res.recovery_factor())
run("module/integrate", lambda: resmod.integrate.__name__)
run("module/atol", lambda: resmod._ATOL)
finish()
